#!/bin/sh
# usage: ./run.sh <property> <quick|thorough>
# Rebuilds nothing of /repo (nothing is executed); re-loads and re-analyses
# /repo's current working tree on every call.
cd "$(dirname "$0")"
. ./env.sh
[ -x bin/raftlint ] || ./setup.sh >&2
exec bin/raftlint -verif "$(pwd)" -property "$1" -tier "${2:-quick}"
