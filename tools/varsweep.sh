#!/bin/bash
# usage: tools/varsweep.sh <dir-with-diffs> [jobs]
# For every <Cxx>-*.diff: apply to a scratch copy of /repo's non-test sources,
# run that property's rule set, print DETECTED / MISSED / SKIP.
dir="$1"; jobs="${2:-8}"
one() {
  d="$1"; id=$(basename "$d" .diff); prop=${id%%-*}
  t=$(mktemp -d /tmp/varsweep.XXXXXX)
  cp /repo/go.mod /repo/go.sum "$t"/ ; for f in /repo/*.go; do case "$f" in *_test.go) ;; *) cp "$f" "$t"/ ;; esac; done
  if ! (cd "$t" && git apply --whitespace=nowarn "$d" 2>/dev/null); then echo "SKIP-NOAPPLY $id"; rm -rf "$t"; return; fi
  out=$(/verif/bin/raftlint -verif /verif -repo "$t" -no-evidence -property "$prop" 2>&1)
  rc=$?
  rm -rf "$t"
  if [ $rc -eq 1 ]; then echo "DETECTED $id $(echo "$out" | grep -m1 violated | cut -c1-120)";
  elif [ $rc -eq 0 ]; then echo "MISSED $id";
  else echo "BROKEN $id $(echo "$out" | tail -1 | cut -c1-150)"; fi
}
export -f one
ls "$dir"/C*.diff | xargs -P "$jobs" -I{} bash -c 'one {}' | sort
