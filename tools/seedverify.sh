#!/bin/sh
# usage: tools/seedverify.sh <worktree> <A|B> [demo-run-regex]
# Confirms a seeded change in its scratch worktree: demo fails with the
# change, passes without it, and the existing suite still passes with it.
wt="$1"; x="$2"; out="$wt/seed_out"; log="$out/verify_$x.log"
cd "$wt" || exit 2
git checkout -q -- . ; rm -f zz_seed_*_test.go
demo=$(ls $out/zz_seed_${x}*_test.go | head -1)
cp "$demo" .
runre=${3:-$(grep -ho 'func Test[A-Za-z0-9_]*' "$demo" | sed 's/func //' | paste -sd'|')}
{
echo "== demo without change (expect PASS): $runre"
go test -vet=off -count=1 -timeout 10m -run "^($runre)\$" . 2>&1 | grep -E '^(--- FAIL|FAIL|ok|panic|PASS)' | head -5
git apply "$out/$x.diff" || echo "APPLY FAILED"
echo "== demo with change (expect FAIL)"
go test -vet=off -count=1 -timeout 10m -run "^($runre)\$" . 2>&1 | grep -E '^(--- FAIL|FAIL|ok|panic|PASS)|^\s+\S+_test.go:[0-9]+:' | head -8
rm -f zz_seed_*_test.go
echo "== suite with change (expect only known failures)"
go test -vet=off -count=1 -timeout 25m . 2>&1 | grep -E '^(--- FAIL|FAIL|ok|panic)'
git checkout -q -- .
echo "== done"
} > "$log" 2>&1
cat "$log"
