#!/bin/sh
# usage: tools/seedall.sh <patch.diff>
# Applies a change to /repo's working tree, runs ALL properties' rule sets once,
# prints which properties report a violation (first violated obligation each),
# and always restores the tree.
patch="$1"
cd /repo || exit 2
if ! git diff --quiet; then echo "seedall: /repo has uncommitted changes" >&2; exit 2; fi
git apply "$patch" || { echo "seedall: patch does not apply" >&2; exit 2; }
trap 'git -C /repo checkout -- . ' EXIT
cd /verif; . ./env.sh
${RAFTLINT:-bin/raftlint} -verif /verif -no-evidence -property all 2>&1 | awk '/violated/ {v=$0} /^VIOLATION/ {print; print "   " substr(v,1,220)} /internal error|cannot|type error/ {print}' 
