#!/bin/sh
# usage: tools/seedverify_wt.sh <worktree>
# Verifies both seeds (A, B) of one scratch worktree, one after the other
# (two verifications must never share a worktree at the same time).
wt=$1
for x in A B; do
  if [ -f "$wt/seed_out/$x.diff" ]; then
    /verif/tools/seedverify.sh "$wt" "$x" > /dev/null 2>&1
  fi
done
