#!/bin/sh
# usage: tools/seedcheck.sh <patch.diff> <prop> [<prop>...]
# Applies a seeded change to /repo's working tree, runs the named quick
# checks, and always restores the tree.
patch="$1"; shift
cd /repo || exit 2
if ! git diff --quiet; then echo "seedcheck: /repo has uncommitted changes" >&2; exit 2; fi
git apply "$patch" || { echo "seedcheck: patch does not apply" >&2; exit 2; }
trap 'git -C /repo checkout -- . ' EXIT
cd /verif
for p in "$@"; do
  ${RAFTLINT:-bin/raftlint} -verif /verif -no-evidence -property "$p" 2>&1 | grep -E "violated|require:|found:|VIOLATION|obligations" | cut -c1-400
done
