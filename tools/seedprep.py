#!/usr/bin/env python3
"""usage: seedprep.py <round-tag> <theme-file> [prop...]
Creates a scratch worktree /tmp/seed/<prop><tag> per property and writes the
agent prompt to /tmp/seed/prompts/<prop><tag>.txt (property text + theme + the
one-line descriptions of changes already collected for that property, so the
agent does not repeat them). Nothing of /verif's rules is disclosed."""
import sys, json, re, subprocess, os
tag, themef = sys.argv[1], sys.argv[2]
props = {json.loads(l)['id']: json.loads(l) for l in open('/verif/properties.jsonl')}
want = sys.argv[3:] or sorted(props)
theme = open(themef).read().strip()
tmpl = open('/verif/tools/seed_prompt.tmpl').read()
# already collected, from DESIGN tables
done = {}
for l in open('/verif/DESIGN.md'):
    m = re.match(r'\| (C\d\d)-[A-Z](?: = (C\d\d)-[A-Z])?(?: = (C\d\d)-[A-Z])? \| (.*?) \|', l)
    if m:
        for p in m.groups()[:3]:
            if p: done.setdefault(p, []).append(m.group(4))
for p in want:
    d = '/tmp/seed/%s%s' % (p, tag)
    if not os.path.exists(d):
        subprocess.check_call(['git', '-C', '/repo', 'worktree', 'add', '--detach', '-q', d, 'HEAD'])
    pr = props[p]
    text = json.dumps({k: pr[k] for k in ('id', 'title', 'statement', 'quantifier', 'why_tests_cant', 'anchors')}, indent=1)
    body = tmpl.replace('__DIR__', d).replace('__PROP__', text)
    body += '\n\nROUND THEME (binding):\n' + theme + '\n'
    if done.get(p):
        body += '\nChanges ALREADY collected for this property by earlier workers – do NOT repeat these or close variants of them; pick different mechanisms:\n' + ''.join(' - %s\n' % x for x in done[p])
    open('/tmp/seed/prompts/%s%s.txt' % (p, tag), 'w').write(body)
    print(p, d, len(done.get(p, [])))
