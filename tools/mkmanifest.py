#!/usr/bin/env python3
"""Regenerates /verif/MANIFEST.json from the table below. A property is
claimed only when listed in CLAIMED; everything else goes to not_applicable."""
import json, os
root = os.path.dirname(os.path.dirname(os.path.abspath(__file__)))
ids = [json.loads(l)['id'] for l in open(os.path.join(root, 'properties.jsonl'))]

# id -> (design_ref, decided clause, not decided / trusted base, technique)
CLAIMED = {}
def claim(i, ref, text, note, tech):
    CLAIMED[i] = (ref, text, note, tech)

exec(open(os.path.join(root, 'tools', 'claims.py')).read())

for _i, _cls in ERRFLOW_CLASSES.items():
    if _i in CLAIMED:
        r_, t_, n_, k_ = CLAIMED[_i]
        CLAIMED[_i] = (r_, t_ + " " + (ERRFLOW % _cls), n_, k_ + ", frozen error-disposition table (def-use chains + CFG reachability per error-returning call)")
for _i, _x in EXTRA8.items():
    if _i in CLAIMED:
        r_, t_, n_, k_ = CLAIMED[_i]
        CLAIMED[_i] = (r_, t_ + " " + _x, n_, k_)
for _i, _x in EXTRA.items():
    if _i in CLAIMED:
        r_, t_, n_, k_ = CLAIMED[_i]
        CLAIMED[_i] = (r_, t_ + " " + _x, n_, k_)

NA_DEFAULT = "rule set not armed yet in this build; will be claimed at level other once it is exact on the pinned tree (see DESIGN.md section 5)"
NA = {}
if os.path.exists(os.path.join(root, 'tools', 'na.json')):
    NA = json.load(open(os.path.join(root, 'tools', 'na.json')))

checks = []
for i in ids:
    if i not in CLAIMED:
        continue
    ref, text, note, tech = CLAIMED[i]
    checks.append({
        "property_id": i,
        "quick_cmd": f"./run.sh {i} quick",
        "thorough_cmd": f"./run.sh {i} thorough",
        "evidence_file": f"evidence/{i}.json",
        "replay_cmd_template": "bin/raftlint -verif /verif -replay {path}",
        "engine": "raftlint",
        "level_claimed": {"category": "other", "text": text, "design_ref": ref},
        "level_note": note,
        "technique": tech,
    })
m = {
    "version": 1,
    "setup_cmd": "cd /verif && ./setup.sh",
    "hooks": {
        "guard": "verif",
        "enable": "none needed: the checker only reads /repo's sources with go/packages; nothing of /repo is built with hooks or executed",
        "baseline_off_cmd": "for m in . ./fuzzy ./raft-compat; do (cd /repo/$m && go test -mod=mod -vet=off -count=1 -timeout 25m ./...); done",
        "source_commits": [],
        "add_only": True,
    },
    "engines": [{
        "name": "raftlint", "path": "lint",
        "serves_properties": sorted(CLAIMED),
        "kind_free_text": "repository-specific static analyser (Go, golang.org/x/tools v0.50.0: go/packages + go/types + go/ssa): resolved access-path descriptors, path automata over per-function CFGs (guard / must-precede / ordering-oracle queries), frozen who-may tables over resolved callees and field writers, finite-domain folding of single integer expressions",
    }],
    "checks": checks,
    "notes": "Static analysis only: no test, simulation or solver runs; every check re-loads /repo's working tree. Each claimed check decides the named structural clause for all paths and says in level_note/evidence what it does not decide. Genuine defects found are in known_findings.json (fixed: entries name the fix: commit in /repo).",
    "not_applicable": [{"property_id": i, "reason": NA.get(i, NA_DEFAULT)} for i in ids if i not in CLAIMED],
}
json.dump(m, open(os.path.join(root, 'MANIFEST.json'), 'w'), indent=1)
print("claimed", len(checks), "not_applicable", len(m["not_applicable"]))
