#!/usr/bin/env python3
"""usage: seedsave.py <worktree> <A|B> <seed-id> <property> <detected-by...>
Copies a verified seeded change into /verif/seeded/<seed-id>/ and writes
meta.json from the agent's SEED.md section and the verification log."""
import sys, os, json, re, shutil, subprocess
wt, x, sid, prop = sys.argv[1:5]
det = sys.argv[5:]
out = os.path.join(wt, 'seed_out')
dst = os.path.join('/verif/seeded', sid)
os.makedirs(dst, exist_ok=True)
shutil.copy(os.path.join(out, x + '.diff'), os.path.join(dst, 'patch.diff'))
demo = [f for f in os.listdir(out) if f.startswith('zz_seed_' + x) and f.endswith('_test.go')]
for d in demo:
    shutil.copy(os.path.join(out, d), os.path.join(dst, d + '.txt'))  # .txt: never compiled from /verif
log = open(os.path.join(out, 'verify_%s.log' % x)).read()
seedmd = open(os.path.join(out, 'SEED.md')).read()
# crude split of SEED.md into the section of this change
parts = re.split(r'\n(?=#+ .*\b(?:Change\s+)?%s\b)' % x, seedmd)
sect = parts[1] if len(parts) > 1 else seedmd
sect = re.split(r'\n(?=#+ .*\b(?:Change\s+)?%s\b)' % ('B' if x == 'A' else 'A'), sect)[0]
open(os.path.join(dst, 'SEED.md'), 'w').write(sect)
files = subprocess.run(['grep', '-h', '^+++ b/', os.path.join(dst, 'patch.diff')], capture_output=True, text=True).stdout.split()
meta = {
 "seed": sid, "property": prop,
 "files_changed": [f[2:] for f in files if f.startswith('b/')],
 "what": next((l.strip() for l in sect.splitlines() if l.strip() and not l.startswith('#')), ''),
 "needs_to_manifest": next((l.strip() for l in sect.splitlines() if re.search(r'need|manifest|requires', l, re.I)), ''),
 "demonstration": [d + '.txt' for d in demo],
 "confirmed_by_me": {
   "script": "tools/seedverify.sh %s %s" % (wt, x),
   "demo_without_change": "PASS" if re.search(r'== demo without change.*\nok ', log) else "SEE LOG",
   "demo_with_change": "FAIL" if re.search(r'== demo with change.*\n--- FAIL', log) else "SEE LOG",
   "suite_with_change_failures": re.findall(r'--- FAIL: (\S+)', log.split('== suite with change')[1]) if '== suite with change' in log else [],
   "known_always_fail": ["TestFileSS_BadPerm"], "known_flaky": ["TestRaft_HasExistingState", "TestRaft_FollowerRemovalNoElection", "TestRaft_ProtocolVersion_Upgrade_1_2", "TestRaft_ProtocolVersion_Upgrade_2_3", "TestRaft_RestoreSnapshotOnStartup_Monotonic", "TestRaft_PreVoteMixedCluster", "TestRaft_LeadershipTransferLeaderReplicationTimeout", "TestRaft_ClusterCanRegainStability_WhenNonVoterWithHigherTermJoin", "TestRaft_PreVoteAvoidElectionWithPartition", "TestRaft_SnapshotRestore_PeerChange", "TestNetworkTransport_AppendEntriesPipeline_CloseStreams", "TestRaft_NoRestoreOnStart (logs after completion on the pristine tree too: panics the binary, the test running at that moment is reported failed)", "TestRaft_AddKnownPeer (victim of the NoRestoreOnStart panic)"],
   "log": log,
 },
 "detected_by": det,
}
json.dump(meta, open(os.path.join(dst, 'meta.json'), 'w'), indent=1)
print(sid, meta['confirmed_by_me']['demo_without_change'], meta['confirmed_by_me']['demo_with_change'], meta['confirmed_by_me']['suite_with_change_failures'])
