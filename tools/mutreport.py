#!/usr/bin/env python3
"""usage: mutreport.py <dir-with-res.*.jsonl> [func-substring]
Summarises a mutsweep run: detection rate per function, and the missed
mutants (work list for reading)."""
import sys, json, glob, collections
rs = []
for f in glob.glob(sys.argv[1] + '/res.*.jsonl'):
    for l in open(f):
        try: rs.append(json.loads(l))
        except Exception: pass
flt = sys.argv[2] if len(sys.argv) > 2 else None
st = collections.Counter(r['status'] for r in rs)
print('total', len(rs), dict(st))
per = collections.defaultdict(collections.Counter)
for r in rs:
    per[(r['file'], r['func'])][r['status']] += 1
if not flt:
    for k, c in sorted(per.items(), key=lambda kv: (kv[0][0], -kv[1]['missed'])):
        n = c['detected'] + c['missed']
        if n: print('%-18s %-45s det %3d / %3d  missed %3d' % (k[0], k[1], c['detected'], n, c['missed']))
else:
    for r in sorted(rs, key=lambda r: (r['file'], r['line'])):
        if r['status'] == 'missed' and flt in r['func']:
            print('%s:%d %s [%s] %r -> %r' % (r['file'], r['line'], r['func'], r['op'], r['orig'][:90], r['repl'][:60]))
