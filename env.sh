# environment for building and running raftlint offline
export PATH=/opt/veriftools/go1.26.8/bin:$PATH
export GOTOOLCHAIN=local GOFLAGS=-mod=mod GOPROXY=off GOSUMDB=off GOWORK=off
