// mutsweep measures the mutation adequacy of the rule sets: it generates
// single-token / single-statement syntactic mutants of package raft's non-test
// sources (relational operator replacement, negated conditions, && <-> ||,
// +1 <-> -1, statement deletion, boolean constants), type-checks each in a
// scratch copy and runs every property's rule set on it. Nothing of a copy is
// executed. The result (one JSON line per mutant: detected by which
// properties / missed / does not type-check) is a work list for reading: a
// missed mutant in a function the rules anchor on is a construct no rule pins.
// It is a tool for building the rules, not a registered check.
//
//	mutsweep -gen  -repo /repo -out muts.jsonl
//	mutsweep -run  -repo /repo -in muts.jsonl -from 0 -to 50 -out res.jsonl
package main

import (
	"bufio"
	"encoding/json"
	"flag"
	"fmt"
	"go/ast"
	"go/parser"
	"go/token"
	"io"
	"os"
	"path/filepath"
	"sort"
	"strings"
	"sync"

	"verif/lint/engine"
	"verif/lint/rules"
)

type mutant struct {
	ID    int    `json:"id"`
	File  string `json:"file"`
	Line  int    `json:"line"`
	Func  string `json:"func"`
	Op    string `json:"op"`
	Start int    `json:"start"`
	End   int    `json:"end"`
	Orig  string `json:"orig"`
	Repl  string `json:"repl"`
	// results
	Status string   `json:"status,omitempty"` // detected | missed | broken
	Props  []string `json:"props,omitempty"`
	First  string   `json:"first,omitempty"`
}

var skipFiles = map[string]bool{
	"inmem_store.go": true, "inmem_snapshot.go": true, "inmem_transport.go": true, "testing.go": true, "testing_batch.go": true,
	"observer.go": true, "discard_snapshot.go": true, "tcp_transport.go": true, "peersjson.go": true, "saturation.go": true,
	"progress.go": true, "tag.go": true,
}

func isNoise(src string) bool {
	s := strings.TrimSpace(src)
	for _, p := range []string{"r.logger.", "s.logger.", "f.logger.", "n.logger.", "logger.", "metrics.", "r.observe(", "labels :=", "start := time.Now()", "defer metrics", "r.mainThreadSaturation", "saturation"} {
		if strings.HasPrefix(s, p) {
			return true
		}
	}
	return strings.Contains(s, "metrics.") && !strings.Contains(s, "\n")
}

func gen(repo string) []mutant {
	fset := token.NewFileSet()
	ents, _ := os.ReadDir(repo)
	var out []mutant
	for _, e := range ents {
		n := e.Name()
		if e.IsDir() || !strings.HasSuffix(n, ".go") || strings.HasSuffix(n, "_test.go") || skipFiles[n] {
			continue
		}
		src, err := os.ReadFile(filepath.Join(repo, n))
		if err != nil {
			panic(err)
		}
		f, err := parser.ParseFile(fset, filepath.Join(repo, n), src, parser.ParseComments)
		if err != nil {
			panic(err)
		}
		off := func(p token.Pos) int { return fset.Position(p).Offset }
		for _, d := range f.Decls {
			fd, ok := d.(*ast.FuncDecl)
			if !ok || fd.Body == nil {
				continue
			}
			fname := fd.Name.Name
			if fd.Recv != nil && len(fd.Recv.List) > 0 {
				fname = string(src[off(fd.Recv.List[0].Type.Pos()):off(fd.Recv.List[0].Type.End())]) + "." + fname
			}
			add := func(op string, s, e token.Pos, repl string) {
				o := string(src[off(s):off(e)])
				out = append(out, mutant{File: n, Line: fset.Position(s).Line, Func: fname, Op: op, Start: off(s), End: off(e), Orig: o, Repl: repl})
			}
			var stmtList func(list []ast.Stmt)
			stmtList = func(list []ast.Stmt) {
				for _, st := range list {
					text := string(src[off(st.Pos()):off(st.End())])
					if isNoise(text) {
						continue
					}
					switch s := st.(type) {
					case *ast.ExprStmt, *ast.IncDecStmt, *ast.SendStmt, *ast.GoStmt, *ast.DeferStmt:
						add("del-stmt", st.Pos(), st.End(), "")
					case *ast.AssignStmt:
						if s.Tok != token.DEFINE {
							add("del-stmt", st.Pos(), st.End(), "")
						}
					case *ast.BranchStmt:
						if s.Tok == token.CONTINUE || s.Tok == token.BREAK {
							add("del-stmt", st.Pos(), st.End(), "")
						}
					case *ast.ReturnStmt:
						add("del-return", st.Pos(), st.End(), "")
					case *ast.IfStmt:
						// delete a whole guard block `if c { ...; return }` without else
						if s.Else == nil && s.Init == nil {
							add("del-if", st.Pos(), st.End(), "")
						}
					}
				}
			}
			ast.Inspect(fd.Body, func(nd ast.Node) bool {
				switch x := nd.(type) {
				case *ast.CallExpr:
					// do not mutate inside log / metrics calls
					if isNoise(string(src[off(x.Pos()):off(x.End())])) {
						return false
					}
				case *ast.BlockStmt:
					stmtList(x.List)
				case *ast.CaseClause:
					stmtList(x.Body)
				case *ast.CommClause:
					stmtList(x.Body)
				case *ast.IfStmt:
					c := string(src[off(x.Cond.Pos()):off(x.Cond.End())])
					add("neg-cond", x.Cond.Pos(), x.Cond.End(), "!("+c+")")
				case *ast.ForStmt:
					if x.Cond != nil {
						if _, isBin := x.Cond.(*ast.BinaryExpr); !isBin {
							c := string(src[off(x.Cond.Pos()):off(x.Cond.End())])
							add("neg-cond", x.Cond.Pos(), x.Cond.End(), "!("+c+")")
						}
					}
				case *ast.BinaryExpr:
					var alts []string
					switch x.Op {
					case token.LSS:
						alts = []string{"<=", ">"}
					case token.LEQ:
						alts = []string{"<", ">="}
					case token.GTR:
						alts = []string{">=", "<"}
					case token.GEQ:
						alts = []string{">", "<="}
					case token.EQL:
						alts = []string{"!="}
					case token.NEQ:
						alts = []string{"=="}
					case token.LAND:
						alts = []string{"||"}
					case token.LOR:
						alts = []string{"&&"}
					case token.ADD:
						if isSmallInt(x.Y) {
							alts = []string{"-"}
						}
					case token.SUB:
						if isSmallInt(x.Y) {
							alts = []string{"+"}
						}
					}
					for _, a := range alts {
						add("op:"+x.Op.String()+"->"+a, x.OpPos, x.OpPos+token.Pos(len(x.Op.String())), a)
					}
					if (x.Op == token.ADD || x.Op == token.SUB) && isSmallInt(x.Y) {
						add("drop-offset", x.X.End(), x.Y.End(), "")
					}
				case *ast.Ident:
					if x.Name == "true" {
						add("const", x.Pos(), x.End(), "false")
					} else if x.Name == "false" {
						add("const", x.Pos(), x.End(), "true")
					}
				}
				return true
			})
		}
	}
	sort.SliceStable(out, func(i, j int) bool {
		if out[i].File != out[j].File {
			return out[i].File < out[j].File
		}
		if out[i].Start != out[j].Start {
			return out[i].Start < out[j].Start
		}
		return out[i].Op < out[j].Op
	})
	for i := range out {
		out[i].ID = i
	}
	return out
}

func isSmallInt(e ast.Expr) bool {
	b, ok := e.(*ast.BasicLit)
	return ok && b.Kind == token.INT && (b.Value == "1" || b.Value == "2")
}

func copyTree(src, dst string) error {
	ents, err := os.ReadDir(src)
	if err != nil {
		return err
	}
	for _, e := range ents {
		n := e.Name()
		if e.IsDir() {
			continue
		}
		if !(strings.HasSuffix(n, ".go") && !strings.HasSuffix(n, "_test.go")) && n != "go.mod" && n != "go.sum" {
			continue
		}
		in, err := os.Open(filepath.Join(src, n))
		if err != nil {
			return err
		}
		o, err := os.Create(filepath.Join(dst, n))
		if err != nil {
			in.Close()
			return err
		}
		_, err = io.Copy(o, in)
		in.Close()
		o.Close()
		if err != nil {
			return err
		}
	}
	return nil
}

// analyse returns prop -> failing "rule key" list for the tree in dir.
func analyse(dir string) (map[string][]string, error) {
	p, err := engine.Load(engine.LoadOpts{Dir: dir})
	if err != nil {
		return nil, err
	}
	res := map[string][]string{}
	for _, id := range rules.IDs() {
		c := rules.NewCtx(p, id)
		func() {
			defer func() {
				if r := recover(); r != nil {
					res[id] = append(res[id], fmt.Sprintf("%s.R0 panic %v", id, r))
				}
			}()
			rules.Registry[id].Run(c)
		}()
		for _, ob := range c.Obs {
			if !ob.OK {
				res[id] = append(res[id], ob.Rule+" "+ob.Key)
			}
		}
	}
	return res, nil
}

func main() {
	doGen := flag.Bool("gen", false, "generate mutants")
	doRun := flag.Bool("run", false, "run mutants")
	repo := flag.String("repo", "/repo", "repository")
	in := flag.String("in", "", "mutants file")
	outp := flag.String("out", "", "output file")
	from := flag.Int("from", 0, "first mutant index")
	to := flag.Int("to", 1<<30, "one past the last mutant index")
	par := flag.Int("j", 4, "parallel analyses")
	flag.Parse()
	if *doGen {
		ms := gen(*repo)
		w := os.Stdout
		if *outp != "" {
			f, err := os.Create(*outp)
			if err != nil {
				panic(err)
			}
			defer f.Close()
			w = f
		}
		enc := json.NewEncoder(w)
		for _, m := range ms {
			enc.Encode(m)
		}
		fmt.Fprintf(os.Stderr, "mutsweep: %d mutants\n", len(ms))
		return
	}
	if !*doRun {
		flag.Usage()
		os.Exit(2)
	}
	var ms []mutant
	f, err := os.Open(*in)
	if err != nil {
		panic(err)
	}
	sc := bufio.NewScanner(f)
	sc.Buffer(make([]byte, 1<<20), 1<<24)
	for sc.Scan() {
		var m mutant
		if json.Unmarshal(sc.Bytes(), &m) == nil {
			ms = append(ms, m)
		}
	}
	f.Close()
	if *to > len(ms) {
		*to = len(ms)
	}
	// baseline failing obligations (known findings) on the unchanged tree
	if vd := os.Getenv("VERIF_DIR"); vd != "" {
		engine.BaselinePath = filepath.Join(vd, "baseline", "symbols.json")
	} else {
		engine.BaselinePath = "/verif/baseline/symbols.json"
	}
	base, err := analyse(*repo)
	if err != nil {
		fmt.Fprintln(os.Stderr, "baseline load failed:", err)
		os.Exit(2)
	}
	baseSet := map[string]bool{}
	for _, l := range base {
		for _, k := range l {
			baseSet[k] = true
		}
	}
	of, err := os.OpenFile(*outp, os.O_CREATE|os.O_WRONLY|os.O_APPEND, 0o644)
	if err != nil {
		panic(err)
	}
	defer of.Close()
	var mu sync.Mutex
	enc := json.NewEncoder(of)
	sem := make(chan struct{}, *par)
	var wg sync.WaitGroup
	for i := *from; i < *to; i++ {
		wg.Add(1)
		go func(m mutant) {
			defer wg.Done()
			sem <- struct{}{}
			defer func() { <-sem }()
			dir, err := os.MkdirTemp("", "mutsweep-*")
			if err != nil {
				return
			}
			defer os.RemoveAll(dir)
			if err := copyTree(*repo, dir); err != nil {
				return
			}
			src, _ := os.ReadFile(filepath.Join(dir, m.File))
			if m.End > len(src) || string(src[m.Start:m.End]) != m.Orig {
				m.Status = "stale"
			} else {
				mod := append(append(append([]byte{}, src[:m.Start]...), m.Repl...), src[m.End:]...)
				os.WriteFile(filepath.Join(dir, m.File), mod, 0o644)
				res, err := analyse(dir)
				if err != nil {
					m.Status = "broken"
				} else {
					for _, id := range rules.IDs() {
						for _, k := range res[id] {
							if !baseSet[k] {
								if m.First == "" {
									m.First = k
								}
								m.Props = append(m.Props, id)
								break
							}
						}
					}
					if len(m.Props) > 0 {
						m.Status = "detected"
					} else {
						m.Status = "missed"
					}
				}
			}
			mu.Lock()
			enc.Encode(m)
			mu.Unlock()
		}(ms[i])
	}
	wg.Wait()
}
