// raftlint decides structural clauses of the 20 properties in
// /verif/properties.jsonl for the hashicorp/raft sources under -repo. It never
// runs any code of the repository.
//
//	raftlint -property C06 -tier quick|thorough [-repo /repo]
//	raftlint -replay /verif/evidence/replay/C06.json
//	raftlint -dump '(*Raft).requestVote'      (debug aid)
//
// exit 0: all obligations discharged (KNOWN-FINDING lines possible)
// exit 1: at least one unlisted violation, with a VIOLATION line
// exit 2: could not analyse (load/type error, internal panic)
package main

import (
	"encoding/json"
	"flag"
	"fmt"
	"os"
	"path/filepath"
	"runtime/debug"
	"sort"
	"strconv"
	"strings"
	"time"

	"golang.org/x/tools/go/ssa"

	"verif/lint/engine"
	"verif/lint/rules"
)

var verifDir = "/verif"

func main() {
	repo := flag.String("repo", "/repo", "repository under analysis")
	prop := flag.String("property", "", "property id (C01..C20) or 'all'")
	tier := flag.String("tier", "quick", "quick|thorough")
	dump := flag.String("dump", "", "dump descriptors of a function (stable name)")
	list := flag.Bool("list", false, "list function names")
	errflow := flag.Bool("errflow", false, "list every error-returning call with its disposition")
	edges := flag.Bool("edges", false, "with -list: print caller -> callee for every call with a resolved name")
	replay := flag.String("replay", "", "replay file written by an earlier run")
	evdir := flag.String("evidence", "", "evidence directory (default <verif>/evidence)")
	vdir := flag.String("verif", "", "verif directory (default: parent of the binary's dir, or /verif)")
	noEvidence := flag.Bool("no-evidence", false, "do not write evidence/replay files (self-test sub-runs)")
	verbose := flag.Bool("v", false, "print every obligation")
	noSelfTest := flag.Bool("no-selftest", false, "thorough tier without the mutant self-test")
	writeBaseline := flag.Bool("write-baseline", false, "record the symbols of -repo as <verif>/baseline/symbols.json (done once, on the pinned tree)")
	writeErrflow := flag.Bool("write-errflow", false, "record the error dispositions of -repo as <verif>/baseline/errflow.json (done once, on the pinned tree with the fix: commits)")
	flag.Parse()

	if *vdir != "" {
		verifDir = *vdir
	} else if exe, err := os.Executable(); err == nil {
		d := filepath.Dir(filepath.Dir(exe))
		if _, err := os.Stat(filepath.Join(d, "properties.jsonl")); err == nil {
			verifDir = d
		}
	}
	if *evdir == "" {
		*evdir = filepath.Join(verifDir, "evidence")
	}
	if *writeBaseline {
		p, err := engine.Load(engine.LoadOpts{Dir: *repo})
		if err != nil {
			fmt.Fprintln(os.Stderr, err)
			os.Exit(2)
		}
		os.MkdirAll(filepath.Join(verifDir, "baseline"), 0o755)
		if err := p.WriteBaseline(filepath.Join(verifDir, "baseline", "symbols.json")); err != nil {
			fmt.Fprintln(os.Stderr, err)
			os.Exit(2)
		}
		fmt.Printf("baseline written: %d functions\n", len(p.Funcs))
		return
	}
	engine.BaselinePath = filepath.Join(verifDir, "baseline", "symbols.json")
	if *writeErrflow {
		p, err := engine.Load(engine.LoadOpts{Dir: *repo})
		if err != nil {
			fmt.Fprintln(os.Stderr, err)
			os.Exit(2)
		}
		n, err := rules.WriteErrflowBaseline(p, filepath.Join(verifDir, "baseline", "errflow.json"))
		if err != nil {
			fmt.Fprintln(os.Stderr, err)
			os.Exit(2)
		}
		fmt.Printf("errflow baseline written: %d (function, callee) groups\n", n)
		return
	}

	if *replay != "" {
		b, err := os.ReadFile(*replay)
		if err != nil {
			fmt.Fprintln(os.Stderr, err)
			os.Exit(2)
		}
		var rp struct {
			Property string `json:"property"`
		}
		if err := json.Unmarshal(b, &rp); err != nil || rp.Property == "" {
			fmt.Fprintln(os.Stderr, "bad replay file")
			os.Exit(2)
		}
		*prop = rp.Property
		*verbose = false
		fmt.Printf("replaying property %s on the current tree of %s\n", *prop, *repo)
	}

	defer func() {
		if r := recover(); r != nil {
			fmt.Fprintf(os.Stderr, "raftlint: internal error: %v\n%s\n", r, debug.Stack())
			os.Exit(2)
		}
	}()

	if *dump != "" || *list || *errflow {
		p, err := engine.Load(engine.LoadOpts{Dir: *repo})
		if err != nil {
			fmt.Fprintln(os.Stderr, err)
			os.Exit(2)
		}
		if *errflow {
			for _, fn := range p.AllFuncs() {
				for _, es := range p.ErrSitesIn(fn) {
					st := "-"
					if es.Strict {
						st = "S"
					}
					fmt.Printf("%s %-60s %-50s %-28s %s\n", st, p.Name(fn), es.Callee, es.Disp, p.InstrPos(es.Call))
				}
			}
			return
		}
		if *list {
			for _, n := range p.FuncNames() {
				if !*edges {
					fmt.Println(n)
					continue
				}
				for _, s := range p.CallsIn(p.Fn(n), func(string) bool { return true }) {
					fmt.Printf("%s -> %s\n", n, s.Note)
				}
			}
			return
		}
		fn := p.Fn(*dump)
		if fn == nil {
			fmt.Println("no such function; try -list")
			os.Exit(2)
		}
		dumpFn(p, fn)
		return
	}

	if *prop == "" {
		flag.Usage()
		os.Exit(2)
	}
	seed := 0
	if s := os.Getenv("VERIF_SEED"); s != "" {
		seed, _ = strconv.Atoi(s)
	}
	if t := os.Getenv("VERIF_TIER"); t != "" && !flagSet("tier") {
		*tier = t
	}
	props := []string{*prop}
	if *prop == "all" {
		props = rules.IDs()
	}
	for _, id := range props {
		if rules.Registry[id] == nil {
			fmt.Fprintf(os.Stderr, "raftlint: no rule set for property %s\n", id)
			os.Exit(2)
		}
	}

	t0 := time.Now()
	configs := []engine.LoadOpts{{Dir: *repo}}
	if *tier == "thorough" {
		configs = append(configs,
			engine.LoadOpts{Dir: *repo, Tags: []string{"batchtest"}},
			engine.LoadOpts{Dir: *repo, GOARCH: "386"},
		)
	}
	type loaded struct {
		p    *engine.Program
		name string
	}
	var progs []loaded
	for _, o := range configs {
		p, err := engine.Load(o)
		if err != nil {
			fmt.Fprintln(os.Stderr, "raftlint: cannot analyse:", err)
			os.Exit(2)
		}
		name := "default"
		if len(o.Tags) > 0 {
			name = "tags=" + strings.Join(o.Tags, ",")
		}
		if o.GOARCH != "" {
			name = "GOARCH=" + o.GOARCH
		}
		fmt.Printf("loaded %s [%s]: %d files, %d functions, %d call sites\n", engine.SubjectPath, name, len(p.Files), len(p.Funcs), p.CallSites)
		for _, a := range p.Aliases() {
			fmt.Printf("  note: %s\n", a)
		}
		if len(p.Funcs) < 300 {
			fmt.Fprintf(os.Stderr, "raftlint: only %d functions loaded; refusing to analyse a partial program\n", len(p.Funcs))
			os.Exit(2)
		}
		progs = append(progs, loaded{p, name})
	}
	known := loadKnown(filepath.Join(verifDir, "known_findings.json"))

	exit := 0
	for _, id := range props {
		pr := rules.Registry[id]
		var all []*rules.Obligation
		fns := map[string]bool{}
		pathStates, pathEdges := 0, 0
		var cfgNames []string
		for _, l := range progs {
			c := rules.NewCtx(l.p, id)
			c.Config = l.name
			pr.Run(c)
			cfgNames = append(cfgNames, l.name)
			for f := range c.FnsTouched {
				fns[f] = true
			}
			pathStates += c.PathStates
			pathEdges += c.PathEdges
			for _, o := range c.Obs {
				if l.name != "default" {
					// merge: same (rule,key) across configurations is one
					// obligation; it is discharged only if discharged in all
					merged := false
					for _, e := range all {
						if e.Rule == o.Rule && e.Key == o.Key {
							merged = true
							if !o.OK && e.OK {
								*e = *o
								e.Found = "[" + l.name + "] " + e.Found
							}
						}
					}
					if merged {
						continue
					}
					o.Found = "[" + l.name + " only] " + o.Found
				}
				all = append(all, o)
			}
		}
		var st *selfTestResult
		if *tier == "thorough" && !*noSelfTest {
			r := runSelfTest(id, *repo, verifDir)
			st = &r
			fmt.Printf("%s self-test: %d mutated copies analysed, %d detected, %d missed, %d skipped (patch no longer applies), %d skipped (does not type-check)\n", id, r.Applied, r.Detected, len(r.Missed), r.Skipped, r.Broken)
			for _, m := range r.Missed {
				fmt.Printf("  self-test MISSED %s\n", m)
			}
			fmt.Printf("%s self-test: %d behaviour-preserving edit sets analysed, %d left the rule set silent\n", id, r.BenignApplied, r.BenignQuiet)
			for _, m := range r.FalseAlarms {
				fmt.Printf("  self-test FALSE ALARM on benign edit %s\n", m)
			}
		}
		code := report(id, pr, all, known, *tier, seed, *evdir, fns, pathStates, pathEdges, cfgNames, progs[0].p, time.Since(t0), *verbose, *noEvidence, st)
		if st != nil && len(st.FalseAlarms) > 0 && code == 0 {
			fmt.Fprintf(os.Stderr, "raftlint: self-test: the %s rule set raised an alarm on a behaviour-preserving edit – the checker is brittle (tool failure, not a property verdict)\n", id)
			code = 2
		}
		if st != nil && len(st.Missed) > 0 && code == 0 {
			fmt.Fprintf(os.Stderr, "raftlint: self-test: %d registered mutant(s) were not reported by the %s rule set – the checker is weaker than claimed (tool failure, not a property verdict)\n", len(st.Missed), id)
			code = 2
		}
		if code > exit {
			exit = code
		}
	}
	os.Exit(exit)
}

func flagSet(name string) bool {
	set := false
	flag.Visit(func(f *flag.Flag) {
		if f.Name == name {
			set = true
		}
	})
	return set
}

type knownEntry struct {
	Status   string `json:"status"` // known | fixed
	Property string `json:"property"`
	Rule     string `json:"rule"`
	Key      string `json:"key"`
	What     string `json:"what"`
	Commit   string `json:"commit,omitempty"`
}

func loadKnown(path string) []knownEntry {
	b, err := os.ReadFile(path)
	if err != nil {
		return nil
	}
	var f struct {
		Findings []knownEntry `json:"findings"`
	}
	if err := json.Unmarshal(b, &f); err != nil {
		fmt.Fprintln(os.Stderr, "raftlint: known_findings.json unreadable:", err)
		os.Exit(2)
	}
	return f.Findings
}

func report(id string, pr *rules.Property, obs []*rules.Obligation, known []knownEntry, tier string, seed int, evdir string,
	fns map[string]bool, pathStates, pathEdges int, cfgs []string, p *engine.Program, wall time.Duration, verbose, noEvidence bool, st *selfTestResult) int {

	sort.SliceStable(obs, func(i, j int) bool {
		if obs[i].Rule != obs[j].Rule {
			return obs[i].Rule < obs[j].Rule
		}
		return obs[i].Key < obs[j].Key
	})
	discharged, nontrivial := 0, 0
	var viol, knownHit []*rules.Obligation
	for _, o := range obs {
		if o.OK {
			discharged++
		} else {
			matched := false
			for _, k := range known {
				if k.Status == "known" && k.Property == id && k.Rule == o.Rule && k.Key == o.Key {
					matched = true
					o.Known = true
					fmt.Printf("KNOWN-FINDING: property=%s %s [%s] %s: %s\n", id, k.What, o.Rule, o.Key, o.Pos)
				}
			}
			if matched {
				knownHit = append(knownHit, o)
			} else {
				viol = append(viol, o)
			}
		}
		if o.Nontrivial {
			nontrivial++
		}
		if verbose {
			st := "ok  "
			if !o.OK {
				st = "FAIL"
				if o.Known {
					st = "KNWN"
				}
			}
			fmt.Printf("  %s %-10s %-18s %s\n         require: %s\n         found:   %s\n", st, o.Rule, o.Pos, o.Key, o.Require, o.Found)
		}
	}
	var fnList []string
	for f := range fns {
		fnList = append(fnList, f)
	}
	sort.Strings(fnList)

	replayPath := filepath.Join(evdir, "replay", id+".json")
	if len(viol) > 0 {
		for _, o := range viol {
			fmt.Printf("  violated %s at %s — %s\n      require: %s\n      found:   %s\n", o.Rule, o.Pos, o.Key, o.Require, o.Found)
		}
		if !noEvidence {
			_ = os.MkdirAll(filepath.Dir(replayPath), 0o755)
			rb, _ := json.MarshalIndent(map[string]any{"property": id, "tier": tier, "violations": viol,
				"how": "raftlint -replay <this file> re-runs the property's rule set on the current tree"}, "", " ")
			_ = os.WriteFile(replayPath, rb, 0o644)
		}
		fmt.Printf("VIOLATION property=%s replay=%s\n", id, replayPath)
	}

	// evidence
	var samples []any
	step := 1
	if len(obs) > 8 {
		step = len(obs) / 8
	}
	for i := 0; i < len(obs); i += step {
		samples = append(samples, obs[i])
	}
	for _, o := range append(viol, knownHit...) {
		samples = append(samples, o)
	}
	rulesSeen := map[string]int{}
	for _, o := range obs {
		rulesSeen[o.Rule]++
	}
	ev := map[string]any{
		"property_id": id,
		"tier":        tier,
		"seed":        seed,
		"level":       "other",
		"coverage": map[string]any{
			"explanation":            pr.Explanation + " NOT decided: " + pr.NotDecided,
			"obligations":            len(obs),
			"discharged":             discharged,
			"evaluations":            len(obs),
			"distinct_nontrivial":    nontrivial,
			"rule":                   rules.CommonRuleText() + " " + pr.RuleText,
			"samples":                samples,
			"exhaustive":             true,
			"functions_analysed":     fnList,
			"functions_in_package":   len(p.Funcs),
			"files":                  p.Files,
			"call_sites_in_package":  p.CallSites,
			"build_configs":          cfgs,
			"path_states_explored":   pathStates,
			"path_edges_explored":    pathEdges,
			"obligations_per_rule":   rulesSeen,
			"known_findings_matched": len(knownHit),
			"renames_recognised":     append([]string{}, p.Aliases()...),
			"undecided":              0,
			"checker_cmd":            "bin/raftlint -property " + id + " -tier " + tier,
			"trusted_base":           []string{"go/types", "golang.org/x/tools/go/ssa v0.50.0", "the rule tables in /verif/lint/rules"},
		},
		"assumptions": append(append([]string{}, rules.CommonAssumptions()...), pr.Assumptions...),
		"wall_s":      wall.Seconds(),
		"violations":  len(viol),
	}
	if st != nil {
		ev["coverage"].(map[string]any)["selftest"] = st
	}
	if !noEvidence {
		_ = os.MkdirAll(evdir, 0o755)
		b, _ := json.MarshalIndent(ev, "", " ")
		if err := os.WriteFile(filepath.Join(evdir, id+".json"), b, 0o644); err != nil {
			fmt.Fprintln(os.Stderr, "raftlint: cannot write evidence:", err)
			return 2
		}
	}
	fmt.Printf("%s: %d obligations, %d discharged, %d known findings, %d violations; %d functions analysed, %d path states; %.1fs\n",
		id, len(obs), discharged, len(knownHit), len(viol), len(fnList), pathStates, wall.Seconds())
	if len(obs) == 0 {
		fmt.Fprintln(os.Stderr, "raftlint: rule set produced no obligations")
		return 2
	}
	if len(viol) > 0 {
		return 1
	}
	return 0
}

func dumpFn(p *engine.Program, fn *ssa.Function) {
	for _, b := range fn.Blocks {
		fmt.Printf("b%d (%s) succs=%v\n", b.Index, b.Comment, succs(b))
		for _, in := range b.Instrs {
			switch x := in.(type) {
			case *ssa.If:
				fmt.Printf("   %-18s IF    %s\n", p.InstrPos(in), p.CondOf(x.Cond))
			case *ssa.Store:
				a := p.D(x.Addr)
				if strings.HasPrefix(a, "new([") {
					continue
				}
				fmt.Printf("   %-18s STORE %s = %s\n", p.InstrPos(in), a, p.D(x.Val))
			case *ssa.MapUpdate:
				fmt.Printf("   %-18s MAPUP %s[%s] = %s\n", p.InstrPos(in), p.D(x.Map), p.D(x.Key), p.D(x.Value))
			case *ssa.Send:
				fmt.Printf("   %-18s SEND  %s <- %s\n", p.InstrPos(in), p.D(x.Chan), p.D(x.X))
			case *ssa.Select:
				var parts []string
				for _, st := range x.States {
					d := "recv "
					if st.Send != nil {
						d = "send " + p.D(st.Send) + " to "
					}
					parts = append(parts, d+p.D(st.Chan))
				}
				fmt.Printf("   %-18s SELECT blocking=%v [%s]\n", p.InstrPos(in), x.Blocking, strings.Join(parts, " ; "))
			case *ssa.Return:
				var parts []string
				for _, r := range x.Results {
					parts = append(parts, p.D(r))
				}
				fmt.Printf("   %-18s RET   %s\n", p.InstrPos(in), strings.Join(parts, ", "))
			case *ssa.Panic:
				fmt.Printf("   %-18s PANIC\n", p.InstrPos(in))
			case *ssa.UnOp:
				if x.Op.String() == "<-" {
					fmt.Printf("   %-18s RECV  %s\n", p.InstrPos(in), p.D(x.X))
				}
			case ssa.CallInstruction:
				kind := "CALL "
				if _, ok := in.(*ssa.Defer); ok {
					kind = "DEFER"
				}
				if _, ok := in.(*ssa.Go); ok {
					kind = "GO   "
				}
				d := ""
				if v, ok := in.(ssa.Value); ok {
					d = p.D(v)
				} else {
					d = p.CalleeName(x.Common())
				}
				if strings.Contains(d, ".logger.") || strings.HasPrefix(d, "compat.") {
					continue
				}
				fmt.Printf("   %-18s %s %s   {%s}\n", p.InstrPos(in), kind, d, p.CalleeName(x.Common()))
			}
		}
	}
}

func succs(b *ssa.BasicBlock) []int {
	var o []int
	for _, s := range b.Succs {
		o = append(o, s.Index)
	}
	return o
}
