package main

import (
	"encoding/json"
	"fmt"
	"io"
	"os"
	"os/exec"
	"path/filepath"
	"regexp"
	"sort"
	"strings"
	"sync"

	"verif/lint/engine"
	"verif/lint/rules"
)

// The self-test answers "would this rule set notice a realistic breakage?":
// every patch of the variant library (/verif/variants, single-edit mutants)
// and of the independently seeded changes (/verif/seeded) that is registered
// for the property is applied to a scratch copy of the CURRENT /repo tree,
// the copy is type-checked and analysed with the property's rule set, and at
// least one violation is required. Nothing of the copy is executed. Patches
// that no longer apply to the current tree are skipped and counted.

type variant struct {
	ID     string
	Patch  string
	Props  []string
	Desc   string
	Kind   string // variant | seeded | benign
	Benign bool   // behaviour-preserving edit: the rule set must stay silent
}

type selfTestResult struct {
	BenignApplied int      `json:"benign_applied"`
	BenignQuiet   int      `json:"benign_quiet"`
	FalseAlarms   []string `json:"false_alarms_on_benign_edits"`
	Applied       int      `json:"applied"`
	Detected      int      `json:"detected"`
	Skipped       int      `json:"skipped_patch_does_not_apply"`
	Broken        int      `json:"skipped_does_not_type_check"`
	Missed        []string `json:"missed"`
	Details       []string `json:"details"`
}

var propRe = regexp.MustCompile(`C[0-9]{2}`)

func loadVariants(verif string) []variant {
	var out []variant
	// variant library
	if b, err := os.ReadFile(filepath.Join(verif, "variants", "index.json")); err == nil {
		var idx []struct {
			ID, Property, Description string
			Expect                    string `json:"expect"`
		}
		if json.Unmarshal(b, &idx) == nil {
			for _, e := range idx {
				if e.Expect == "skip" {
					continue // documented as outside the property's claim
				}
				if e.Expect == "none" {
					out = append(out, variant{ID: e.ID, Patch: filepath.Join(verif, "variants", e.ID+".diff"), Props: []string{"*"}, Desc: e.Description, Kind: "benign", Benign: true})
					continue
				}
				out = append(out, variant{ID: e.ID, Patch: filepath.Join(verif, "variants", e.ID+".diff"), Props: []string{e.Property}, Desc: e.Description, Kind: "variant"})
			}
		}
	}
	// seeded changes
	dirs, _ := filepath.Glob(filepath.Join(verif, "seeded", "*", "meta.json"))
	for _, m := range dirs {
		b, err := os.ReadFile(m)
		if err != nil {
			continue
		}
		var meta struct {
			Seed       string   `json:"seed"`
			Property   string   `json:"property"`
			What       string   `json:"what"`
			DetectedBy []string `json:"detected_by"`
		}
		if json.Unmarshal(b, &meta) != nil {
			continue
		}
		set := map[string]bool{}
		for _, d := range meta.DetectedBy {
			for _, p := range propRe.FindAllString(d, -1) {
				set[p] = true
			}
		}
		var props []string
		for p := range set {
			props = append(props, p)
		}
		sort.Strings(props)
		out = append(out, variant{ID: meta.Seed, Patch: filepath.Join(filepath.Dir(m), "patch.diff"), Props: props, Desc: meta.What, Kind: "seeded"})
	}
	sort.Slice(out, func(i, j int) bool { return out[i].ID < out[j].ID })
	return out
}

func copyTree(src, dst string) error {
	ents, err := os.ReadDir(src)
	if err != nil {
		return err
	}
	for _, e := range ents {
		n := e.Name()
		if e.IsDir() {
			continue
		}
		if !(strings.HasSuffix(n, ".go") && !strings.HasSuffix(n, "_test.go")) && n != "go.mod" && n != "go.sum" {
			continue
		}
		in, err := os.Open(filepath.Join(src, n))
		if err != nil {
			return err
		}
		out, err := os.Create(filepath.Join(dst, n))
		if err != nil {
			in.Close()
			return err
		}
		_, err = io.Copy(out, in)
		in.Close()
		out.Close()
		if err != nil {
			return err
		}
	}
	return nil
}

func runSelfTest(prop, repo, verif string) selfTestResult {
	var res selfTestResult
	var todo []variant
	for _, v := range loadVariants(verif) {
		for _, p := range v.Props {
			if p == prop || p == "*" {
				todo = append(todo, v)
			}
		}
	}
	type outcome struct {
		v      variant
		status string // detected | missed | skipped | broken
		detail string
	}
	known := loadKnown(filepath.Join(verif, "known_findings.json"))
	outs := make([]outcome, len(todo))
	sem := make(chan struct{}, 6)
	var wg sync.WaitGroup
	for i, v := range todo {
		wg.Add(1)
		go func(i int, v variant) {
			defer wg.Done()
			sem <- struct{}{}
			defer func() { <-sem }()
			o := outcome{v: v}
			defer func() {
				if r := recover(); r != nil {
					o.status, o.detail = "detected", fmt.Sprintf("analyser could not classify the mutated code (%v) – counted as an alarm", r)
				}
				outs[i] = o
			}()
			dir, err := os.MkdirTemp("", "raftlint-selftest-*")
			if err != nil {
				o.status, o.detail = "skipped", err.Error()
				return
			}
			defer os.RemoveAll(dir)
			if err := copyTree(repo, dir); err != nil {
				o.status, o.detail = "skipped", err.Error()
				return
			}
			cmd := exec.Command("git", "apply", "--whitespace=nowarn", v.Patch)
			cmd.Dir = dir
			if b, err := cmd.CombinedOutput(); err != nil {
				o.status, o.detail = "skipped", strings.TrimSpace(string(b))
				return
			}
			p, err := engine.Load(engine.LoadOpts{Dir: dir})
			if err != nil {
				o.status, o.detail = "broken", firstLine(err.Error())
				return
			}
			c := rules.NewCtx(p, prop)
			rules.Registry[prop].Run(c)
			var fails []string
			for _, ob := range c.Obs {
				if !ob.OK {
					if v.Benign && isKnown(known, prop, ob) {
						continue
					}
					fails = append(fails, ob.Rule+" "+ob.Key)
				}
			}
			if v.Benign {
				if len(fails) == 0 {
					o.status = "quiet"
				} else {
					o.status = "falsealarm"
					o.detail = strings.Join(fails, "; ")
				}
				return
			}
			if len(fails) > 0 {
				o.status = "detected"
				o.detail = fails[0]
				if len(fails) > 1 {
					o.detail += fmt.Sprintf(" (+%d more)", len(fails)-1)
				}
			} else {
				o.status = "missed"
			}
		}(i, v)
	}
	wg.Wait()
	for _, o := range outs {
		switch o.status {
		case "detected":
			res.Applied++
			res.Detected++
		case "missed":
			res.Applied++
			res.Missed = append(res.Missed, o.v.ID)
		case "quiet":
			res.BenignApplied++
			res.BenignQuiet++
		case "falsealarm":
			res.BenignApplied++
			res.FalseAlarms = append(res.FalseAlarms, o.v.ID+": "+o.detail)
		case "skipped":
			res.Skipped++
		case "broken":
			res.Broken++
		}
		res.Details = append(res.Details, fmt.Sprintf("%s [%s] %s: %s", o.v.ID, o.v.Kind, o.status, o.detail))
	}
	return res
}

func firstLine(s string) string {
	if i := strings.Index(s, "\n"); i >= 0 {
		return s[:i]
	}
	return s
}

func isKnown(known []knownEntry, prop string, ob *rules.Obligation) bool {
	for _, k := range known {
		if k.Status == "known" && k.Property == prop && k.Rule == ob.Rule && k.Key == ob.Key {
			return true
		}
	}
	return false
}
