package rules

import (
	"fmt"
	"go/types"
	"strings"

	"golang.org/x/tools/go/ssa"

	"verif/lint/engine"
)

func init() {
	register(&Property{
		ID:          "C11",
		Explanation: "Decided for all paths (every crash point is a program point between two of these calls): takeSnapshot cancels the sink when Persist fails and advances lastSnapshot and compacts only after sink.Close() returned nil; InstallSnapshot and user restore move positions and remove logs only after the snapshot is durable and restored, removal last; compactLogsWithTrailing deletes [FirstIndex, m] where, folded over all (snapshot,last,trailing) in 0..6 admitted by its guards, m <= snapshot index, last-m >= trailing, no unsigned underflow, and first <= m dominates the call; compactLogs passes (snapshot index, last log index, TrailingLogs), removeOldLogs (last,last,0) and is reached only behind the MonotonicLogStore && IsMonotonic() test; the snapshot's index/term come from the FSM goroutine's lastIndex/lastTerm cells (written only after an apply or restore, from that entry's/snapshot's own index and term), its configuration is the committed one and the snapshot is refused while that configuration is newer than the FSM index; DeleteRange callers are frozen.",
		NotDecided:  "that the FSM content written by Persist equals the committed history; what the SnapshotStore/LogStore persist across a crash (C15 covers the file store).",
		RuleText:    "C11.R1 success-checked must-precede chains; R2 finite-domain folding of the compaction bound with its dominating guards; R3 who-may + guards of removeOldLogs/compactLogs; R4 data-origin tables for snapshot index/term/configuration; R5 S-DELETE.",
		Run:         c11,
	})
}

func c11(c *Ctx) {
	c11R1(c, "R1")
	sInstallDurable(c, "R1/install")
	c11R2(c, "R2")
	c11R3(c, "R3")
	c11R4(c, "R4")
	sConfigClone(c, "R4/S-CFGCLONE")
	sCommitCoversConfig(c, "R5/S-COMMITCFG")
	sDelete(c, "R5/S-DELETE")
	sState(c, "R6/S-STATE")
	c02R1(c, "R6/C02.R1")
	c02R2(c, "R6/C02.R2")
	// the in-repo sink keeps the contract takeSnapshot relies on before it
	// compacts: Close() == nil only for a complete, durable, renamed snapshot
	// (round-7 seed C12-M: a cleanup result overwrote finalize's error)
	c15R1(c, "R7/C15.R1")
	c15R2(c, "R7/C15.R2")
	// a user Restore's snapshot sits above the whole log (aborted in-flight
	// entries included), under the current term (round-7 seed C11-N)
	c20CreateStamp(c, "R8/C20.R4")
	c15R4(c, "R9/C15.R4")
	sSendsNewestSnapshot(c, "R9/C20.R10")
}

func sinkTracks(c *Ctx, createPrefix string) []engine.Track {
	return []engine.Track{
		engine.Event("create", c.P.IsCallTo(engine.Is("iface:SnapshotStore.Create"))),
		predErr("createErr", createPrefix),
		engine.Event("close", func(in ssa.Instruction) bool {
			cc := engine.CallCommonOf(in)
			if cc == nil || !cc.IsInvoke() || cc.Method.Name() != "Close" {
				return false
			}
			return strings.HasPrefix(c.P.D(cc.Value), createPrefix)
		}),
		engine.PredCond("closeErr", func(cd engine.Cond) (bool, int) {
			if cd.IsRel && strings.HasPrefix(cd.X, createPrefix) && strings.HasSuffix(cd.X, ".Close()") && cd.Y == "nil" {
				if isNEc(cd) {
					return true, engine.True
				}
				return true, engine.False
			}
			return false, 0
		}),
		engine.Event("cancel", func(in ssa.Instruction) bool {
			cc := engine.CallCommonOf(in)
			return cc != nil && cc.IsInvoke() && cc.Method.Name() == "Cancel" && strings.HasPrefix(c.P.D(cc.Value), createPrefix)
		}),
	}
}

func c11R1(c *Ctx, rule string) {
	fn := c.Fn(rule, "(*Raft).takeSnapshot")
	if fn == nil {
		return
	}
	// the committed configuration recorded in the snapshot is fetched AFTER the
	// FSM has produced its snapshot: fetched earlier, a membership change that
	// commits and is applied in between is covered by the snapshot's index but
	// missing from its metadata
	{
		r0 := c.Run(&engine.Automaton{Fn: fn, Tracks: []engine.Track{
			engine.Event("fsmAnswered", func(in ssa.Instruction) bool {
				cc := engine.CallCommonOf(in)
				return cc != nil && c.P.CalleeName(cc) == "(*deferError).Error" && strings.Contains(c.P.D(engine.RecvValue(in)), "reqSnapshotFuture")
			}),
			predErr("fsmErr", "new(reqSnapshotFuture).deferError.Error()"),
		}})
		n0 := 0
		engine.EachInstr(fn, func(in ssa.Instruction) {
			sel, ok := in.(*ssa.Select)
			if !ok {
				return
			}
			for _, st := range sel.States {
				if st.Dir == types.SendOnly && c.P.D(st.Chan) == "recv.configurationsCh" {
					n0++
					c.RequireAt(r0, rule, "takeSnapshot:configuration-fetched-after-fsm-snapshot", in, "the configurations request is sent only after the FSM snapshot request was answered without error", func(v engine.View) bool {
						return v.Seen("fsmAnswered") && v.F("fsmErr")
					})
				}
			}
		})
		if n0 != 1 {
			c.Bad(rule, "takeSnapshot:configuration-request", c.P.Pos(fn.Pos()), "one send on configurationsCh", fmt.Sprintf("%d", n0))
		}
	}
	tracks := append(sinkTracks(c, "recv.snapshots.Create("),
		engine.Event("persist", c.P.IsCallTo(engine.Is("iface:FSMSnapshot.Persist"))),
		engine.PredCond("persistErr", func(cd engine.Cond) (bool, int) {
			if cd.IsRel && strings.Contains(cd.X, ".snapshot.Persist(") && cd.Y == "nil" {
				if isNEc(cd) {
					return true, engine.True
				}
				return true, engine.False
			}
			return false, 0
		}),
		engine.Event("snappos", c.P.IsCallTo(engine.Is("(*raftState).setLastSnapshot"))),
		engine.Event("compact", c.P.IsCallTo(engine.Is("(*Raft).compactLogs"))),
	)
	r := c.Run(&engine.Automaton{Fn: fn, Tracks: tracks})
	durable := func(v engine.View) bool {
		return v.Seen("create") && v.F("createErr") && v.Seen("persist") && v.F("persistErr") && v.Seen("close") && v.F("closeErr")
	}
	for _, callee := range []string{"(*raftState).setLastSnapshot", "(*Raft).compactLogs"} {
		ss := c.P.CallsIn(fn, engine.Is(callee))
		if len(ss) == 0 {
			c.Bad(rule, "takeSnapshot:"+callee, c.P.Pos(fn.Pos()), "takeSnapshot calls "+callee, "no such call")
		}
		for _, s := range ss {
			c.RequireAt(r, rule, "takeSnapshot:"+callee+"-after-durable", s.Instr, "Create, Persist and Close all returned nil before the snapshot position moves / logs are compacted", func(v engine.View) bool {
				if callee == "(*Raft).compactLogs" {
					return durable(v) && v.Seen("snappos")
				}
				return durable(v)
			})
		}
	}
	for i, ret := range engine.ReturnsOf(fn) {
		c.RequireAt(r, rule, fmt.Sprintf("takeSnapshot:return#%d", i+1), ret, "a failed Persist cancels the sink; a sink is never left open without Close or Cancel", func(v engine.View) bool {
			if v.T("persistErr") {
				return v.Seen("cancel")
			}
			if v.Seen("create") && v.F("createErr") {
				return v.Seen("close") || v.Seen("cancel")
			}
			return true
		})
	}
	// arguments
	for _, s := range c.P.CallsIn(fn, engine.Is("(*raftState).setLastSnapshot")) {
		a0, a1 := c.P.Arg(s.Instr, 0), c.P.Arg(s.Instr, 1)
		c.Check(rule, "takeSnapshot:position-args", c.P.InstrPos(s.Instr), "setLastSnapshot(snapReq.index, snapReq.term)", a0 == "new(reqSnapshotFuture).index" && a1 == "new(reqSnapshotFuture).term", "("+a0+", "+a1+")", 1)
	}
	for _, s := range c.P.CallsIn(fn, engine.Is("(*Raft).compactLogs")) {
		a0 := c.P.Arg(s.Instr, 0)
		c.Check(rule, "takeSnapshot:compact-arg", c.P.InstrPos(s.Instr), "compactLogs(snapReq.index)", a0 == "new(reqSnapshotFuture).index", "("+a0+")", 1)
	}
	// install: compaction gets the snapshot's index
	if inst := c.P.Fn("(*Raft).installSnapshot"); inst != nil {
		for _, s := range c.P.CallsIn(inst, engine.Is("(*Raft).compactLogs")) {
			c.Check(rule, "installSnapshot:compact-arg", c.P.InstrPos(s.Instr), "compactLogs(req.LastLogIndex)", c.P.Arg(s.Instr, 0) == "p2.LastLogIndex", "("+c.P.Arg(s.Instr, 0)+")", 1)
		}
	}
}

func c11R2(c *Ctx, rule string) {
	fn := c.Fn(rule, "(*Raft).compactLogsWithTrailing")
	if fn == nil {
		return
	}
	dels := c.P.CallsIn(fn, engine.Is("iface:LogStore.DeleteRange"))
	if len(dels) != 1 {
		c.Bad(rule, "compactLogsWithTrailing:delete", c.P.Pos(fn.Pos()), "exactly one DeleteRange", fmt.Sprintf("%d", len(dels)))
		return
	}
	del := dels[0].Instr
	lo, hi := engine.ArgValue(del, 0), engine.ArgValue(del, 1)
	loD, hiD := c.P.D(lo), c.P.D(hi)
	r := c.Run(&engine.Automaton{Fn: fn, Tracks: []engine.Track{
		engine.PredRel("firstErr", "recv.logs.FirstIndex()#1", "nil", engine.LT|engine.GT),
		engine.PredRel("short", "p2", "p3", engine.LT|engine.EQ),
		engine.PredRel("nothing", loD, hiD, engine.GT),
	}})
	c.RequireAt(r, rule, "compactLogsWithTrailing:guards", del, "FirstIndex read without error ∧ ¬(lastLogIdx <= trailingLogs) ∧ ¬(minLog > maxLog) dominate the delete", func(v engine.View) bool {
		return v.F("firstErr") && v.F("short") && v.F("nothing")
	})
	c.Check(rule, "compactLogsWithTrailing:lower-bound", c.P.InstrPos(del), "the range starts at the store's FirstIndex()", loD == "recv.logs.FirstIndex()#0", "from "+loD, 1)
	// fold the upper bound under the guard last > trailing
	f := engine.NewFolder(c.P)
	params := map[string]ssa.Value{}
	for _, pr := range fn.Params {
		params[c.P.D(pr)] = pr
	}
	bad := ""
	n := 0
	for snap := int64(0); snap <= 6 && bad == ""; snap++ {
		for last := int64(0); last <= 6 && bad == ""; last++ {
			for trail := int64(0); trail <= 6 && bad == ""; trail++ {
				if last <= trail {
					continue // returned early by the dominating guard
				}
				env := map[ssa.Value]int64{params["p1"]: snap, params["p2"]: last, params["p3"]: trail}
				m, err := f.Eval(hi, env)
				n++
				switch {
				case err != nil:
					bad = "cannot fold " + hiD + ": " + err.Error()
				case f.Underflow:
					bad = fmt.Sprintf("snap=%d last=%d trailing=%d: unsigned underflow in %s", snap, last, trail, hiD)
				case m > snap:
					bad = fmt.Sprintf("snap=%d last=%d trailing=%d: deletes up to %d, beyond the snapshot (entries not covered by any snapshot are lost)", snap, last, trail, m)
				case last-m < trail:
					bad = fmt.Sprintf("snap=%d last=%d trailing=%d: deletes up to %d, leaving %d < TrailingLogs entries", snap, last, trail, m, last-m)
				}
			}
		}
	}
	c.Check(rule, "compactLogsWithTrailing:upper-bound", c.P.InstrPos(del), "for all snapshot,last,trailing in 0..6 with last > trailing: maxLog <= snapshot index, last - maxLog >= trailing, no underflow; maxLog = "+hiD, bad == "", pick(bad == "", fmt.Sprintf("holds on %d points", n), bad), n)
	// not needlessly weak either: it is the largest admissible bound (informational obligation of the property's 'removes ... at or below that snapshot')
	minMaxShape(c, rule)
	// callers pass the right triples
	if cl := c.Fn(rule, "(*Raft).compactLogs"); cl != nil {
		for _, s := range c.P.CallsIn(cl, engine.Is("(*Raft).compactLogsWithTrailing")) {
			a := []string{c.P.Arg(s.Instr, 0), c.P.Arg(s.Instr, 1), c.P.Arg(s.Instr, 2)}
			ok := a[0] == "p1" && a[1] == "recv.raftState.getLastLog()#0" && a[2] == "recv.config().TrailingLogs"
			c.Check(rule, "compactLogs:arguments", c.P.InstrPos(s.Instr), "compactLogsWithTrailing(snapIdx, last log index, config.TrailingLogs)", ok, "("+strings.Join(a, ", ")+")", 1)
		}
	}
	if ro := c.Fn(rule, "(*Raft).removeOldLogs"); ro != nil {
		for _, s := range c.P.CallsIn(ro, engine.Is("(*Raft).compactLogsWithTrailing")) {
			a := []string{c.P.Arg(s.Instr, 0), c.P.Arg(s.Instr, 1), c.P.Arg(s.Instr, 2)}
			ok := a[0] == "recv.logs.LastIndex()#0" && a[1] == a[0] && a[2] == "0"
			c.Check(rule, "removeOldLogs:arguments", c.P.InstrPos(s.Instr), "compactLogsWithTrailing(LastIndex, LastIndex, 0): wholesale reset", ok, "("+strings.Join(a, ", ")+")", 1)
		}
	}
	c.WhoMay(rule, "call (*Raft).compactLogsWithTrailing", c.P.CallsEverywhere(engine.Is("(*Raft).compactLogsWithTrailing")), map[string]string{
		"(*Raft).compactLogs":   "routine compaction",
		"(*Raft).removeOldLogs": "wholesale reset on monotonic stores",
	})
}

func c11R3(c *Ctx, rule string) {
	c.WhoMay(rule, "call (*Raft).removeOldLogs", c.P.CallsEverywhere(engine.Is("(*Raft).removeOldLogs")), map[string]string{
		"(*Raft).installSnapshot":     "after installing a snapshot, monotonic stores only",
		"(*Raft).restoreUserSnapshot": "after a user restore, monotonic stores only",
	})
	c.WhoMay(rule, "call (*Raft).compactLogs", c.P.CallsEverywhere(engine.Is("(*Raft).compactLogs")), map[string]string{
		"(*Raft).takeSnapshot":    "after a local snapshot",
		"(*Raft).installSnapshot": "after installing a snapshot, non-monotonic stores",
	})
	mono := []engine.Track{
		engine.PredBool("isMonoStore", DescIs("recv.logs.(MonotonicLogStore)#1")),
		engine.PredBool("isMono", DescIs("recv.logs.(MonotonicLogStore)#0.IsMonotonic()")),
	}
	for _, name := range []string{"(*Raft).installSnapshot", "(*Raft).restoreUserSnapshot"} {
		fn := c.Fn(rule, name)
		if fn == nil {
			continue
		}
		r := c.Run(&engine.Automaton{Fn: fn, Tracks: mono})
		for _, s := range c.P.CallsIn(fn, engine.Is("(*Raft).removeOldLogs")) {
			c.RequireAt(r, rule, name+":wholesale-reset-only-on-monotonic-stores", s.Instr, "r.logs implements MonotonicLogStore ∧ IsMonotonic()", func(v engine.View) bool { return v.T("isMonoStore") && v.T("isMono") })
		}
		for _, s := range c.P.CallsIn(fn, engine.Is("(*Raft).compactLogs")) {
			c.RequireAt(r, rule, name+":compaction-on-other-stores", s.Instr, "¬(MonotonicLogStore ∧ IsMonotonic())", func(v engine.View) bool { return v.F("isMonoStore") || v.F("isMono") })
		}
	}
}

func c11R4(c *Ctx, rule string) {
	fn := c.Fn(rule, "(*Raft).takeSnapshot")
	if fn == nil {
		return
	}
	for _, s := range c.P.CallsIn(fn, engine.Is("iface:SnapshotStore.Create")) {
		args := []string{}
		for i := 0; i < 6; i++ {
			args = append(args, c.P.Arg(s.Instr, i))
		}
		ok := args[1] == "new(reqSnapshotFuture).index" && args[2] == "new(reqSnapshotFuture).term" &&
			args[3] == "new(configurationsFuture).configurations.committed" && args[4] == "new(configurationsFuture).configurations.committedIndex"
		c.Check(rule, "takeSnapshot:create-args", c.P.InstrPos(s.Instr), "Create(version, snapReq.index, snapReq.term, committed configuration, committedIndex, trans)", ok, "Create("+strings.Join(args, ", ")+")", 1)
		r := c.Run(&engine.Automaton{Fn: fn, Tracks: []engine.Track{
			engine.PredRel("behind", "new(reqSnapshotFuture).index", "new(configurationsFuture).configurations.committedIndex", engine.LT),
			engine.Event("asked", c.P.IsCallTo(engine.Is("(*deferError).Error"))),
			engine.PredCond("snapErr", errNotNil("new(reqSnapshotFuture).deferError.Error(")),
			engine.PredCond("cfgErr", errNotNil("new(configurationsFuture).deferError.Error(")),
		}})
		c.RequireAt(r, rule, "takeSnapshot:refused-while-config-newer-than-fsm", s.Instr, "both futures resolved without error and ¬(snapReq.index < committedIndex)", func(v engine.View) bool {
			return v.F("behind") && v.F("snapErr") && v.F("cfgErr")
		})
	}
	// reqSnapshotFuture.index/term writers
	for _, fld := range []string{"index", "term"} {
		f := c.Field(rule, "reqSnapshotFuture", fld)
		if f == nil {
			continue
		}
		ws := c.P.FieldWrites(f)
		c.WhoMay(rule, "write reqSnapshotFuture."+fld, ws, map[string]string{"(*Raft).runFSM$snapshot": "the FSM goroutine, from its own counters"})
	}
	// the FSM goroutine's counters
	rf := c.Fn(rule, "(*Raft).runFSM")
	snap := c.Fn(rule, "(*Raft).runFSM$snapshot")
	if rf == nil || snap == nil {
		return
	}
	var idxCell, termCell string
	if f := c.P.LookupField("reqSnapshotFuture", "index"); f != nil {
		for _, s := range c.P.FieldWritesIn(snap, f) {
			idxCell = c.P.D(s.Instr.(*ssa.Store).Val)
		}
	}
	if f := c.P.LookupField("reqSnapshotFuture", "term"); f != nil {
		for _, s := range c.P.FieldWritesIn(snap, f) {
			termCell = c.P.D(s.Instr.(*ssa.Store).Val)
		}
	}
	ok := strings.HasPrefix(idxCell, "var(uint64)") && strings.HasPrefix(termCell, "var(uint64)") && idxCell != termCell
	c.Check(rule, "runFSM$snapshot:counters", c.P.Pos(snap.Pos()), "req.index / req.term are copied from the goroutine's two distinct counter cells", ok, "index ← "+idxCell+", term ← "+termCell, 1)
	// empty FSM refuses
	rs := c.Run(&engine.Automaton{Fn: snap, Tracks: []engine.Track{engine.PredRel("empty", idxCell, "0", engine.EQ)}})
	for _, s := range c.P.CallsIn(snap, engine.Is("iface:FSM.Snapshot")) {
		c.RequireAt(rs, rule, "runFSM$snapshot:nothing-to-snapshot", s.Instr, "no snapshot of an FSM that has applied nothing (lastIndex == 0)", func(v engine.View) bool { return v.F("empty") })
	}
	// writers of the two cells and what they write
	type w struct{ fn, val string }
	allowed := map[string][]string{
		"(*Raft).runFSM$applySingle": {"cp1.log.Index", "cp1.log.Term"},
		"(*Raft).runFSM$applyBatch":  {"phi(0 | val(range cp1).log.Index)", "phi(0 | val(range cp1).log.Term)"},
		"(*Raft).runFSM$restore":     {"recv.snapshots.Open(cp1.ID)#0.Index", "recv.snapshots.Open(cp1.ID)#0.Term"},
	}
	seen := map[string]int{}
	for _, g := range engine.WithLits(rf) {
		name := c.P.Name(g)
		engine.EachInstr(g, func(in ssa.Instruction) {
			st, isStore := in.(*ssa.Store)
			if !isStore {
				return
			}
			ad := c.P.D(st.Addr)
			if ad != idxCell && ad != termCell {
				return
			}
			vd := c.P.D(st.Val)
			want, okFn := allowed[name]
			k := 0
			if ad == termCell {
				k = 1
			}
			seen[name]++
			c.Check(rule, name+":counter "+pick(k == 0, "index", "term"), c.P.InstrPos(in), "the FSM counters take the index/term of the entry just applied (or of the snapshot just restored)", okFn && vd == want[k], ad+" = "+vd, 1)
		})
	}
	for name := range allowed {
		if seen[name] != 2 {
			c.Bad(rule, name+":updates-counters", "-", "updates both FSM counters", fmt.Sprintf("%d stores", seen[name]))
		}
	}
	// a successful restore always moves both counters (not only under a condition)
	if rs := c.P.Fn("(*Raft).runFSM$restore"); rs != nil {
		r := c.Run(&engine.Automaton{Fn: rs, Tracks: []engine.Track{
			engine.Event("idx", func(in ssa.Instruction) bool {
				st, ok := in.(*ssa.Store)
				return ok && c.P.D(st.Addr) == idxCell
			}),
			engine.Event("term", func(in ssa.Instruction) bool {
				st, ok := in.(*ssa.Store)
				return ok && c.P.D(st.Addr) == termCell
			}),
		}})
		n := 0
		for _, s := range c.P.CallsIn(rs, engine.Is("(*deferError).respond")) {
			if c.P.Arg(s.Instr, 0) != "nil" {
				continue
			}
			n++
			c.RequireAt(r, rule, "runFSM$restore:success-always-moves-counters", s.Instr, "every path that answers the restore with nil has stored the snapshot's index and term into the FSM counters", func(v engine.View) bool { return v.Seen("idx") && v.Seen("term") })
		}
		if n == 0 {
			c.Bad(rule, "runFSM$restore:success-answer", c.P.Pos(rs.Pos()), "a respond(nil)", "none")
		}
	}
	// ordering inside the closures: counter update only after the apply/restore
	if as := c.P.Fn("(*Raft).runFSM$applySingle"); as != nil {
		r := c.Run(&engine.Automaton{Fn: as, Tracks: []engine.Track{
			engine.PredRel("isCmd", "cp1.log.Type", "LogCommand", engine.EQ),
			engine.Event("applied", c.P.IsCallTo(engine.Is("iface:FSM.Apply"))),
		}})
		engine.EachInstr(as, func(in ssa.Instruction) {
			if st, ok := in.(*ssa.Store); ok && c.P.D(st.Addr) == idxCell {
				c.RequireAt(r, rule, "runFSM$applySingle:counter-after-apply", in, "for a command entry the counter moves only after fsm.Apply returned", func(v engine.View) bool { return !v.T("isCmd") || v.Seen("applied") })
			}
		})
	}
	if rs := c.P.Fn("(*Raft).runFSM$restore"); rs != nil {
		r := c.Run(&engine.Automaton{Fn: rs, Tracks: []engine.Track{
			engine.Event("restored", c.P.IsCallTo(engine.Is("fsmRestoreAndMeasure"))),
			predErr("restoreErr", "fsmRestoreAndMeasure("),
			predErr("openErr", "recv.snapshots.Open("),
		}})
		engine.EachInstr(rs, func(in ssa.Instruction) {
			if st, ok := in.(*ssa.Store); ok && c.P.D(st.Addr) == idxCell {
				c.RequireAt(r, rule, "runFSM$restore:counter-after-restore", in, "the counter takes the snapshot's index only after Open and Restore both succeeded", func(v engine.View) bool {
					return v.Seen("restored") && v.F("restoreErr") && v.F("openErr")
				})
			}
		})
		for _, s := range c.P.CallsIn(rs, engine.Is("(*deferError).respond")) {
			if c.P.Arg(s.Instr, 0) == "nil" {
				c.RequireAt(r, rule, "runFSM$restore:success-answer", s.Instr, "nil is answered only after a successful restore", func(v engine.View) bool { return v.Seen("restored") && v.F("restoreErr") && v.F("openErr") })
			}
		}
	}
}
