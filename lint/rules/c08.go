package rules

import (
	"fmt"
	"go/types"
	"strings"

	"golang.org/x/tools/go/ssa"

	"verif/lint/engine"
)

func init() {
	register(&Property{
		ID:          "C08",
		Explanation: "Decided for all paths: every future received from applyCh (follower, candidate, leader ×2) is either answered without being dispatched (ErrNotLeader / ErrLeadershipTransferInProgress) or handed to dispatchLogs, never both; ApplyLog/Barrier return ErrEnqueueTimeout/ErrRaftShutdown only from select cases other than the send and the future only from the send case; dispatchLogs gives every future index and term, parks it in the in-flight list, then stores, answers all with the error on failure and triggers replication on success; the in-flight list is drained only by the commit arm (entries <= commit index, after processLogs), the step-down exit (ErrLeadershipLost to all) and user restore (ErrAbortedByRestore); in the FSM goroutine a future's Response is the result of Apply on that very entry (single path) and, for batches, send list and response cursor are driven by the same predicate with a length check that panics; Barrier entries travel through the FSM queue (prepareLog yields a tuple), entries that yield no tuple are answered by processLogs; Index() returns the index dispatchLogs assigned.",
		NotDecided:  "cluster-wide at-most-once application and real-time ordering between calls (histories), and that ErrLeadershipLost futures were not committed (they may be – the property allows that).",
		RuleText:    "C08.R1 per-arm outcome automaton on applyCh; R2 select-arm/return pairing in ApplyLog/Barrier; R3 must-precede chain in dispatchLogs; R4 drain-site table of the in-flight list; R5 response pairing in runFSM closures; R6 = C02.R7; R7 Index() accessor.",
		Run:         c08,
	})
}

func c08(c *Ctx) {
	c08R1(c, "R1")
	sTransferFlag(c, "R1/S-TRANSFER")
	c08R2(c, "R2")
	c08R3(c, "R3")
	c08R4(c, "R4")
	c02R4(c, "R4/C02.R4")
	c08R5(c, "R5")
	c02R7(c, "R6/C02.R7")
	c02R3(c, "R6/C02.R3")
	if fn := c.Fn("R7", "(*logFuture).Index"); fn != nil {
		for _, ret := range engine.ReturnsOf(fn) {
			d := c.P.D(engine.ReturnValues(ret)[0])
			c.Check("R7", "logFuture.Index:returns-assigned-index", c.P.InstrPos(ret), "Index() returns log.Index (written only by dispatchLogs, C03.R7)", d == "recv.log.Index", "returns "+d, 1)
		}
	}
	if fn := c.Fn("R7", "(*logFuture).Response"); fn != nil {
		for _, ret := range engine.ReturnsOf(fn) {
			d := c.P.D(engine.ReturnValues(ret)[0])
			c.Check("R7", "logFuture.Response:returns-field", c.P.InstrPos(ret), "Response() returns the response field", d == "recv.response", "returns "+d, 1)
		}
	}
	c03R7(c, "R7/C03.R7")
	coreCommitBundle(c, "R8")
	c02R2(c, "R9/C02.R2")
	// round 7: who is told "applied" in processLogs (C02.R3), every in-flight
	// future aborted by a user Restore (C17.R6), and the commit index a restart
	// replays into the FSM is the real commit index (C10.R5)
	c02R3(c, "R10/C02.R3")
	c17R6(c, "R10/C17.R6")
	c10R5(c, "R10/C10.R5")
}

// recvArms lists (select, case index) pairs in fn that receive from a channel
// whose descriptor is chanDesc.
func recvArms(c *Ctx, fn *ssa.Function, chanDesc string) []struct {
	sel *ssa.Select
	k   int
} {
	var out []struct {
		sel *ssa.Select
		k   int
	}
	engine.EachInstr(fn, func(in ssa.Instruction) {
		if sel, ok := in.(*ssa.Select); ok {
			for k, st := range sel.States {
				if st.Dir == types.RecvOnly && c.P.D(st.Chan) == chanDesc {
					out = append(out, struct {
						sel *ssa.Select
						k   int
					}{sel, k})
				}
			}
		}
	})
	return out
}

func c08R1(c *Ctx, rule string) {
	fut := "<-recv.applyCh"
	total := 0
	for _, name := range []string{"(*Raft).runFollower", "(*Raft).runCandidate", "(*Raft).leaderLoop"} {
		fn := c.Fn(rule, name)
		if fn == nil {
			continue
		}
		arms := recvArms(c, fn, "recv.applyCh")
		total += len(arms)
		for _, a := range arms {
			if !a.sel.Blocking {
				// group-commit inner select: the received future joins the batch
				arm := engine.SelectArmEntry(a.sel, a.k)
				joined := false
				if arm != nil {
					for _, in := range arm.Instrs {
						if cc := engine.CallCommonOf(in); cc != nil && c.P.CalleeName(cc) == "builtin:append" && strings.Contains(c.P.TypeStr(cc.Args[0].Type()), "logFuture") {
							joined = true
						}
					}
				}
				c.Check(rule, name+":group-commit-receive", c.P.InstrPos(a.sel), "a future drained by the group-commit loop is appended to the batch that the arm then answers or dispatches as a whole", joined, pick(joined, "appended to ready", "received but not added to the batch"), 1)
				continue
			}
			arm := engine.SelectArmEntry(a.sel, a.k)
			if arm == nil {
				c.Bad(rule, name+":applyCh-arm", c.P.InstrPos(a.sel), "the arm's entry block", "not recognised")
				continue
			}
			outer := a.sel
			r := c.Run(&engine.Automaton{Fn: fn, StartBlock: arm, StopAt: func(in ssa.Instruction) bool { return in == ssa.Instruction(outer) }, Tracks: []engine.Track{
				engine.Event("answered", func(in ssa.Instruction) bool {
					cc := engine.CallCommonOf(in)
					return cc != nil && c.P.CalleeName(cc) == "(*deferError).respond" && strings.HasPrefix(c.P.D(engine.RecvValue(in)), fut) &&
						(c.P.Arg(in, 0) == "@ErrNotLeader" || c.P.Arg(in, 0) == "@ErrLeadershipTransferInProgress")
				}),
				engine.Event("dispatched", c.P.IsCallTo(engine.Is("(*Raft).dispatchLogs"))),
				{Name: "errLoop", If: func(cd engine.Cond, _ *ssa.If) (bool, int) {
					if cd.IsRel && cd.X == "idx(range)" && strings.HasPrefix(cd.Y, "len(") && strings.Contains(cd.Y, "logFuture") {
						return true, engine.True
					}
					return false, 0
				}},
			}})
			var ends []ssa.Instruction
			ends = append(ends, outer)
			for _, ret := range engine.ReturnsOf(fn) {
				if r.Reached(ret) {
					ends = append(ends, ret)
				}
			}
			for i, e := range ends {
				c.RequireAt(r, rule, fmt.Sprintf("%s:applyCh-arm-outcome#%d", name, i+1), e,
					"exactly one of: answered ErrNotLeader/ErrLeadershipTransferInProgress, every batched future answered by the step-down loop, or the batch handed to dispatchLogs – a rejected command is never dispatched",
					func(v engine.View) bool {
						n := 0
						if v.Seen("answered") {
							n++
						}
						if v.Seen("dispatched") {
							n++
						}
						if v.F("errLoop") {
							n++
						}
						return n == 1
					})
			}
			if name == "(*Raft).leaderLoop" {
				rangeBodyAlwaysM(c, rule, fn, "leaderLoop:step-down-loop-answers-every-future", "the batch gathered from applyCh", func(d string) bool {
					return strings.HasPrefix(d, "phi(append(") && strings.Contains(d, "new([1]*logFuture)")
				}, func(in ssa.Instruction) bool {
					cc := engine.CallCommonOf(in)
					return cc != nil && c.P.CalleeName(cc) == "(*deferError).respond" && c.P.Arg(in, 0) == "@ErrNotLeader"
				}, "while stepping down every batched future is answered ErrNotLeader")
				// what is dispatched is the batch that starts with the received future
				for _, s := range c.P.CallsIn(fn, engine.Is("(*Raft).dispatchLogs")) {
					a0 := engine.ArgValue(s.Instr, 0)
					ok := false
					engine.EachInstr(fn, func(in ssa.Instruction) {
						if st, isSt := in.(*ssa.Store); isSt && c.P.D(st.Val) == fut && strings.HasPrefix(c.P.D(st.Addr), "new([1]*logFuture)") {
							ok = true
						}
					})
					c.Check(rule, "leaderLoop:dispatches-the-received-batch", c.P.InstrPos(s.Instr), "dispatchLogs gets the batch whose first element is the future just received", ok && strings.Contains(c.P.D(a0), "new([1]*logFuture)"), "dispatchLogs("+c.P.D(a0)+")", 1)
				}
			}
		}
	}
	if total < 4 {
		c.Bad(rule, "applyCh:receive-sites", "-", "four receives from applyCh (follower, candidate, leader, leader group-commit)", fmt.Sprintf("%d found", total))
	}
	c.WhoMay(rule, "call (*Raft).dispatchLogs", c.P.CallsEverywhere(engine.Is("(*Raft).dispatchLogs")), map[string]string{
		"(*Raft).leaderLoop":               "client commands",
		"(*Raft).runLeader":                "the new leader's no-op",
		"(*Raft).appendConfigurationEntry": "membership change",
	})
}

func c08R2(c *Ctx, rule string) {
	for _, name := range []string{"(*Raft).ApplyLog", "(*Raft).Barrier"} {
		fn := c.Fn(rule, name)
		if fn == nil {
			continue
		}
		var sel *ssa.Select
		engine.EachInstr(fn, func(in ssa.Instruction) {
			if s, ok := in.(*ssa.Select); ok {
				sel = s
			}
		})
		if sel == nil {
			c.Bad(rule, name+":enqueue-select", c.P.Pos(fn.Pos()), "an enqueue select", "none")
			continue
		}
		sendK := -1
		for k, st := range sel.States {
			if st.Dir == types.SendOnly && c.P.D(st.Chan) == "recv.applyCh" {
				sendK = k
			}
		}
		if sendK < 0 {
			c.Bad(rule, name+":enqueue-send", c.P.InstrPos(sel), "a send on applyCh", "none")
			continue
		}
		r := c.Run(&engine.Automaton{Fn: fn, Tracks: []engine.Track{
			{Name: "sent", If: func(cd engine.Cond, ifi *ssa.If) (bool, int) {
				s, k, ok := engine.SelectArmIndex(cd, ifi)
				if ok && s == sel && k == sendK {
					return true, engine.True
				}
				return false, 0
			}},
		}})
		for i, ret := range engine.ReturnsOf(fn) {
			v := engine.ReturnValues(ret)[0]
			d := c.P.D(v)
			isErrFuture := strings.HasPrefix(c.P.TypeStr(peel(v).Type()), "errorFuture")
			c.RequireAt(r, rule, fmt.Sprintf("%s:return#%d", name, i+1), ret, "an error future (ErrEnqueueTimeout / ErrRaftShutdown) is returned only when the send case was NOT chosen; the log future only when it was", func(vw engine.View) bool {
				if isErrFuture {
					return !vw.T("sent")
				}
				return vw.T("sent") && strings.HasPrefix(d, "new(logFuture)")
			})
		}
		// the value sent is the future returned
		sent := c.P.D(sel.States[sendK].Send)
		c.Check(rule, name+":sends-the-returned-future", c.P.InstrPos(sel), "the future placed on applyCh is the one handed to the caller", strings.HasPrefix(sent, "new(logFuture)"), "sends "+sent, 1)
	}
	// the type of entry
	for _, nt := range [][2]string{{"(*Raft).ApplyLog", "LogCommand"}, {"(*Raft).Barrier", "LogBarrier"}} {
		fn := c.P.Fn(nt[0])
		lt := c.P.LookupField("Log", "Type")
		if fn == nil || lt == nil {
			continue
		}
		ok := false
		for _, w := range c.P.FieldWritesIn(fn, lt) {
			v, _ := c.P.StoredValue(w.Instr, lt)
			ok = c.P.D(v) == nt[1]
		}
		c.Check(rule, nt[0]+":entry-type", c.P.Pos(fn.Pos()), "enqueues a "+nt[1]+" entry", ok, pick(ok, nt[1], "different type"), 1)
	}
}

func c08R3(c *Ctx, rule string) {
	fn := c.Fn(rule, "(*Raft).dispatchLogs")
	if fn == nil {
		return
	}
	sDurableDispatch(c, rule+"/S-DURABLE")
	rangeBodyAlways(c, rule, fn, "dispatchLogs:every-future-indexed-and-parked", "p1", func(in ssa.Instruction) bool {
		cc := engine.CallCommonOf(in)
		return cc != nil && c.P.CalleeName(cc) == "(*container/list.List).PushBack" && c.P.Arg(in, 0) == "val(range p1)" && c.P.D(engine.RecvValue(in)) == "recv.leaderState.inflight"
	}, "every dispatched future is pushed onto leaderState.inflight (so a later commit, step-down or restore answers it)")
	li := c.P.LookupField("Log", "Index")
	r := c.Run(&engine.Automaton{Fn: fn, Tracks: []engine.Track{
		{Name: "assignLoop", If: func(cd engine.Cond, _ *ssa.If) (bool, int) {
			if cd.IsRel && cd.X == "idx(range)" && cd.Y == "len(p1)" {
				return true, engine.True
			}
			return false, 0
		}},
		engine.Event("indexed", func(in ssa.Instruction) bool {
			if li == nil {
				return false
			}
			_, ok := c.P.StoredValue(in, li)
			return ok
		}),
		engine.Event("parked", c.P.IsCallTo(engine.Is("(*container/list.List).PushBack"))),
		engine.Event("stored", c.P.IsCallTo(engine.Is("iface:LogStore.StoreLogs"))),
		predErr("storeErr", "recv.logs.StoreLogs("),
	}})
	for _, s := range c.P.CallsIn(fn, engine.Is("(*container/list.List).PushBack")) {
		c.RequireAt(r, rule, "dispatchLogs:park-after-index", s.Instr, "index/term are assigned before the future becomes visible in the in-flight list, and before the store", func(v engine.View) bool { return v.Seen("indexed") && !v.Seen("stored") })
	}
	for _, s := range c.P.CallsIn(fn, engine.Is("iface:LogStore.StoreLogs")) {
		c.RequireAt(r, rule, "dispatchLogs:store-after-all-parked", s.Instr, "StoreLogs runs after the assignment loop over all futures completed", func(v engine.View) bool { return v.F("assignLoop") })
	}
	rangeBodyAlways(c, rule, fn, "dispatchLogs:triggers-every-replication-routine", "recv.leaderState.replState", func(in ssa.Instruction) bool {
		cc := engine.CallCommonOf(in)
		return cc != nil && c.P.CalleeName(cc) == "asyncNotifyCh" && strings.HasSuffix(c.P.Arg(in, 0), ".triggerCh")
	}, "after a successful store every replication routine is triggered")
}

func c08R4(c *Ctx, rule string) {
	// every function that removes from / responds over the in-flight list
	var removes []engine.Site
	for _, s := range c.P.CallsEverywhere(engine.Is("(*container/list.List).Remove")) {
		if c.P.D(engine.RecvValue(s.Instr)) == "recv.leaderState.inflight" {
			removes = append(removes, s)
		}
	}
	c.WhoMay(rule, "remove from leaderState.inflight", removes, map[string]string{
		"(*Raft).leaderLoop":          "committed entries, after processLogs handed them to the FSM queue",
		"(*Raft).restoreUserSnapshot": "aborted by a user restore (ErrAbortedByRestore)",
	})
	if f := c.Field(rule, "leaderState", "inflight"); f != nil {
		c.WhoMay(rule, "write leaderState.inflight", c.P.FieldWrites(f), map[string]string{
			"(*Raft).setupLeaderState": "fresh list per leadership",
			"(*Raft).runLeader$defer":  "dropped on step-down, after answering every element",
		})
	}
	if def := c.Fn(rule, "(*Raft).runLeader$defer"); def != nil {
		infl := c.P.LookupField("leaderState", "inflight")
		r := c.Run(&engine.Automaton{Fn: def, Tracks: []engine.Track{
			{Name: "walk", If: func(cd engine.Cond, _ *ssa.If) (bool, int) {
				if cd.IsRel && strings.Contains(cd.X, "recv.leaderState.inflight.Front()") && cd.Y == "nil" && isNEc(cd) {
					return true, engine.True
				}
				return false, 0
			}},
			{Name: "verifies", If: func(cd engine.Cond, _ *ssa.If) (bool, int) {
				if !cd.IsRel && cd.B == "more(range recv.leaderState.notify)" {
					return true, engine.True
				}
				return false, 0
			}},
		}})
		for _, s := range c.P.FieldWritesIn(def, infl) {
			c.RequireAt(r, rule, "runLeader$defer:answer-all-before-dropping", s.Instr, "the walks over the in-flight list and over the pending verify set ran to their end before the lists are dropped", func(v engine.View) bool { return v.F("walk") && v.F("verifies") })
		}
		// loop bodies answer ErrLeadershipLost
		n := 0
		for _, s := range c.P.CallsIn(def, engine.Is("(*deferError).respond")) {
			if c.P.Arg(s.Instr, 0) == "@ErrLeadershipLost" {
				n++
			}
		}
		c.Check(rule, "runLeader$defer:ErrLeadershipLost", c.P.Pos(def.Pos()), "in-flight log futures and pending verify futures are answered ErrLeadershipLost", n == 2, fmt.Sprintf("%d such answers", n), n)
		// the in-flight walk answers each element it visits
		var walkIf *ssa.If
		engine.EachInstr(def, func(in ssa.Instruction) {
			if ifi, ok := in.(*ssa.If); ok {
				cd := c.P.CondOf(ifi.Cond)
				if cd.IsRel && strings.Contains(cd.X, "recv.leaderState.inflight.Front()") && cd.Y == "nil" {
					walkIf = ifi
				}
			}
		})
		if walkIf != nil {
			rb := c.Run(&engine.Automaton{Fn: def, StartBlock: walkIf.Block().Succs[0], StopAt: func(in ssa.Instruction) bool { return in == ssa.Instruction(walkIf) }, Tracks: []engine.Track{
				engine.Event("answered", func(in ssa.Instruction) bool {
					cc := engine.CallCommonOf(in)
					return cc != nil && c.P.CalleeName(cc) == "(*deferError).respond" && c.P.Arg(in, 0) == "@ErrLeadershipLost"
				}),
				engine.Event("advanced", c.P.IsCallTo(engine.Is("(*container/list.Element).Next"))),
			}})
			c.RequireAt(rb, rule, "runLeader$defer:walk-answers-each-element", walkIf, "each step of the walk answers the element's future and advances with Next()", func(v engine.View) bool { return v.Seen("answered") && v.Seen("advanced") })
		} else {
			c.Bad(rule, "runLeader$defer:inflight-walk", c.P.Pos(def.Pos()), "a walk over leaderState.inflight", "not found")
		}
	}
	// leader commit arm removes exactly what it collected, after processLogs
	if ll := c.P.Fn("(*Raft).leaderLoop"); ll != nil {
		r := c.Run(&engine.Automaton{Fn: ll, Tracks: []engine.Track{
			engine.Event("loop", isSelect, "applied"),
			engine.Event("applied", c.P.IsCallTo(engine.Is("(*Raft).processLogs"))),
		}})
		for _, s := range removes {
			if s.Fn != ll {
				continue
			}
			a := c.P.Arg(s.Instr, 0)
			c.RequireAt(r, rule, "leaderLoop:remove-after-processLogs", s.Instr, "elements leave the in-flight list only after processLogs took them (their futures are then owned by the FSM queue) and only elements of the ready group are removed", func(v engine.View) bool {
				return v.Seen("applied") && strings.HasPrefix(a, "val(range ") && strings.Contains(a, "list.Element")
			})
		}
	}
}

func c08R5(c *Ctx, rule string) {
	resp := c.Field(rule, "logFuture", "response")
	if resp == nil {
		return
	}
	c.WhoMay(rule, "write logFuture.response", c.P.FieldWrites(resp), map[string]string{
		"(*Raft).runFSM$applySingle$defer": "single apply: deferred, after the apply",
		"(*Raft).runFSM$applyBatch":        "batch apply",
	})
	// applySingle: the response cell gets fsm.Apply(req.log); the deferred function stores it into req.future
	if as := c.Fn(rule, "(*Raft).runFSM$applySingle"); as != nil {
		var cell string
		engine.EachInstr(as, func(in ssa.Instruction) {
			if st, ok := in.(*ssa.Store); ok && c.P.D(st.Val) == "recv.fsm.Apply(cp1.log)" {
				cell = c.P.D(st.Addr)
			}
		})
		okApply := cell != ""
		c.Check(rule, "applySingle:apply-this-entry", c.P.Pos(as.Pos()), "resp = r.fsm.Apply(req.log): the entry applied is the tuple's own log", okApply, pick(okApply, "stored in "+cell, "no such store"), 1)
		if d := c.Fn(rule, "(*Raft).runFSM$applySingle$defer"); d != nil {
			r := c.Run(&engine.Automaton{Fn: d, Tracks: []engine.Track{
				engine.PredRel("hasFuture", "cp1.future", "nil", engine.LT|engine.GT),
				engine.Event("set", func(in ssa.Instruction) bool {
					v, ok := c.P.StoredValue(in, resp)
					return ok && (c.P.D(v) == cell || c.P.D(v) == "recv.fsm.Apply(cp1.log)") && strings.HasPrefix(c.P.D(in.(*ssa.Store).Addr), "cp1.future.")
				}),
			}})
			for _, s := range c.P.CallsIn(d, engine.Is("(*deferError).respond")) {
				ok := strings.HasPrefix(c.P.D(engine.RecvValue(s.Instr)), "cp1.future") && c.P.Arg(s.Instr, 0) == "nil"
				c.RequireAt(r, rule, "applySingle:respond-after-response-set", s.Instr, "req.future.response = resp (the Apply result of this very tuple) before req.future.respond(nil)", func(v engine.View) bool { return ok && v.T("hasFuture") && v.Seen("set") })
			}
		}
		// exactly one Apply per call
		n := len(c.P.CallsIn(as, engine.Is("iface:FSM.Apply")))
		loops := false
		for _, s := range c.P.CallsIn(as, engine.Is("iface:FSM.Apply")) {
			if engine.Reaches(s.Instr.Block(), s.Instr.Block()) && len(s.Instr.Block().Succs) > 0 {
				for _, su := range s.Instr.Block().Succs {
					if engine.Reaches(su, s.Instr.Block()) {
						loops = true
					}
				}
			}
		}
		c.Check(rule, "applySingle:applies-once", c.P.Pos(as.Pos()), "one Apply call, not in a loop (each committed entry reaches the FSM exactly once per tuple)", n == 1 && !loops, fmt.Sprintf("%d call(s), in loop: %v", n, loops), 1)
	}
	if ab := c.Fn(rule, "(*Raft).runFSM$applyBatch"); ab != nil {
		should := "(*Raft).runFSM$applyBatch$shouldSend(val(range cp1).log)"
		// (a) send list built under shouldSend, in order
		var bodies []*ssa.If
		engine.EachInstr(ab, func(in ssa.Instruction) {
			if ifi, ok := in.(*ssa.If); ok {
				cd := c.P.CondOf(ifi.Cond)
				if cd.IsRel && cd.X == "idx(range)" && cd.Y == "len(cp1)" {
					bodies = append(bodies, ifi)
				}
			}
		})
		r := c.Run(&engine.Automaton{Fn: ab, Tracks: []engine.Track{
			engine.PredBool("should", DescIs(should)),
			{Name: "iter", If: func(cd engine.Cond, _ *ssa.If) (bool, int) {
				return cd.IsRel && cd.X == "idx(range)" && cd.Y == "len(cp1)", engine.True
			}, Kills: []string{"should"}},
			engine.PredCond("lenMismatch", func(cd engine.Cond) (bool, int) {
				if cd.IsRel && strings.HasPrefix(cd.X, "len(") && strings.HasPrefix(cd.Y, "len(") && strings.Contains(cd.Y, "ApplyBatch(") {
					if isNEc(cd) {
						return true, engine.True
					}
					return true, engine.False
				}
				return false, 0
			}),
			engine.Event("applied", c.P.IsCallTo(engine.Is("iface:BatchingFSM.ApplyBatch"))),
			engine.PredCond("haveSends", func(cd engine.Cond) (bool, int) {
				if cd.IsRel && strings.HasPrefix(cd.X, "len(phi(append(") && cd.Y == "0" {
					switch cd.EdgeOrd(true) {
					case engine.GT, engine.LT | engine.GT:
						return true, engine.True
					case engine.EQ:
						return true, engine.False
					}
				}
				return false, 0
			}),
		}})
		// no future of the batch is answered before the batch was handed to the
		// FSM: a Barrier (not sent itself) must not overtake the commands before it
		nResp := 0
		for _, s := range c.P.CallsIn(ab, engine.Is("(*deferError).respond")) {
			nResp++
			c.RequireAt(r, rule, "applyBatch:answers-only-after-the-batch-was-applied", s.Instr, "every future of the batch – also of entries that are not sent to the FSM – is answered after ApplyBatch returned (or when nothing had to be sent)", func(v engine.View) bool {
				return v.Seen("applied") || v.F("haveSends")
			})
		}
		if nResp == 0 {
			c.Bad(rule, "applyBatch:answers", c.P.Pos(ab.Pos()), "a respond call", "none")
		}
		nApp := 0
		engine.EachInstr(ab, func(in ssa.Instruction) {
			cc := engine.CallCommonOf(in)
			if cc != nil && c.P.CalleeName(cc) == "builtin:append" && strings.Contains(c.P.TypeStr(cc.Args[0].Type()), "[]*Log") {
				nApp++
				c.RequireAt(r, rule, "applyBatch:send-list-under-predicate", in, "an entry joins the list sent to ApplyBatch iff shouldSend(entry) (this iteration)", func(v engine.View) bool { return v.T("should") })
			}
		})
		// (b) response cursor: the read responses[i] and i++ happen together, under the same predicate
		var cursorInc *ssa.BinOp
		var respRead ssa.Instruction
		engine.EachInstr(ab, func(in ssa.Instruction) {
			if ia, ok := in.(*ssa.IndexAddr); ok && strings.Contains(c.P.D(ia.X), "ApplyBatch(") {
				respRead = in
				if b, ok := ia.Index.(*ssa.Phi); ok {
					incs, _, _ := incrementsOf(b)
					if len(incs) == 1 {
						cursorInc = incs[0]
					}
				}
			}
		})
		if respRead == nil || cursorInc == nil {
			c.Bad(rule, "applyBatch:response-cursor", c.P.Pos(ab.Pos()), "responses[i] with a cursor i incremented by 1", "not recognised")
		} else {
			c.RequireAt(r, rule, "applyBatch:response-read-under-predicate", respRead, "responses[i] is consumed iff shouldSend(entry) – the same predicate that built the send list", func(v engine.View) bool { return v.T("should") })
			same := cursorInc.Block() == respRead.Block()
			c.Check(rule, "applyBatch:cursor-advances-with-read", c.P.InstrPos(cursorInc), "i++ happens in the very block that reads responses[i] (one response per sent entry, in order)", same, pick(same, "same block", "different blocks"), 1)
		}
		// (c) the stored response is that read; respond after
		for _, w := range c.P.FieldWritesIn(ab, resp) {
			v, _ := c.P.StoredValue(w.Instr, resp)
			d := c.P.D(v)
			ok := strings.Contains(d, "ApplyBatch(") && strings.HasPrefix(c.P.D(w.Instr.(*ssa.Store).Addr), "val(range cp1).future.")
			c.Check(rule, "applyBatch:response-stored-on-own-future", c.P.InstrPos(w.Instr), "the tuple's own future gets nil or responses[i] of this batch", ok, "response = "+d, 1)
		}
		// (c2) every future of the batch is answered: a return is reached only
		// through the loop that answers the futures (batching path) or through the
		// loop that hands every tuple to applySingle, and the answering loop
		// answers in every iteration that has a future. An early "nothing to send"
		// return strands the Barrier futures of a command-free batch: they were
		// already taken off the in-flight list, nobody else will ever answer them.
		var answerLoop, singleLoop []*ssa.If
		for _, ifi := range bodies {
			body := ifi.Block().Succs[0]
			inLoop := func(m func(string) bool) bool {
				for _, s := range c.P.CallsIn(ab, m) {
					if engine.Reaches(body, s.Instr.Block()) && engine.Reaches(s.Instr.Block(), ifi.Block()) {
						return true
					}
				}
				return false
			}
			if inLoop(engine.Is("(*deferError).respond")) {
				answerLoop = append(answerLoop, ifi)
			}
			if inLoop(func(n string) bool { return strings.HasSuffix(n, "$applySingle") || strings.Contains(n, "applySingle") }) {
				singleLoop = append(singleLoop, ifi)
			}
		}
		isOneOf := func(set []*ssa.If) func(engine.Cond, *ssa.If) (bool, int) {
			return func(_ engine.Cond, ifi *ssa.If) (bool, int) {
				for _, x := range set {
					if x == ifi {
						return true, engine.True
					}
				}
				return false, 0
			}
		}
		rl := c.Run(&engine.Automaton{Fn: ab, Tracks: []engine.Track{
			{Name: "answerLoop", If: isOneOf(answerLoop)},
			{Name: "singleLoop", If: isOneOf(singleLoop)},
		}})
		for i, ret := range engine.RawReturnsOf(ab) {
			c.RequireAt(rl, rule, fmt.Sprintf("applyBatch:return-only-after-answering#%d", i+1), ret, "every return of applyBatch lies behind the loop that answers the batch's futures (or the loop that applies each tuple singly)", func(v engine.View) bool {
				return !v.Unseen("answerLoop") || !v.Unseen("singleLoop")
			})
		}
		if len(answerLoop) == 0 {
			c.Bad(rule, "applyBatch:answer-loop", c.P.Pos(ab.Pos()), "a range loop over the batch that answers the futures", "none found")
		}
		futF := c.P.LookupField("commitTuple", "future")
		_ = futF
		rangeBodyAlwaysIf(c, rule, ab, "applyBatch:each-iteration-answers", "cp1", c.P.IsCallTo(engine.Is("(*deferError).respond")),
			engine.PredRel("hasFuture", "val(range cp1).future", "nil", engine.LT|engine.GT),
			"in the answering loop every tuple that carries a future has it answered")
		// (d) length check panics
		for _, ret := range engine.ReturnsOf(ab) {
			c.RequireAt(r, rule, "applyBatch:length-mismatch-never-returns", ret, "len(sendLogs) != len(responses) never reaches a normal return (panic)", func(v engine.View) bool { return !v.T("lenMismatch") })
		}
		// (e) shouldSend is Command || Configuration
		if sf := c.Fn(rule, "(*Raft).runFSM$applyBatch$shouldSend"); sf != nil {
			p0 := c.P.D(sf.Params[0])
			rs := c.Run(&engine.Automaton{Fn: sf, Tracks: []engine.Track{
				engine.PredRel("cmd", p0+".Type", "LogCommand", engine.EQ),
				engine.PredRel("cfg", p0+".Type", "LogConfiguration", engine.EQ),
			}})
			for _, ret := range engine.ReturnsOf(sf) {
				rv := engine.ReturnValues(ret)[0]
				d := c.P.D(rv)
				if ph, ok := rv.(*ssa.Phi); ok && len(ph.Edges) == 2 {
					// `return a == Command || a == Configuration`: the value
					// is true on the short-circuit edge (first test held) and
					// the second test's outcome otherwise
					okExpr := false
					for i, e := range ph.Edges {
						if ConstBool(e, true) {
							o := ph.Edges[1-i]
							for _, st := range rs.EdgeStates(ph.Block().Preds[i], ph.Block()) {
								_ = st
							}
							cd := c.P.CondOf(o)
							s1, ok1 := cd.RelOn(p0+".Type", "LogCommand")
							s2, ok2 := cd.RelOn(p0+".Type", "LogConfiguration")
							if (ok1 && s1 == engine.EQ) || (ok2 && s2 == engine.EQ) {
								okExpr = true
								for _, st := range rs.EdgeStates(ph.Block().Preds[i], ph.Block()) {
									if !(st.T("cmd") || st.T("cfg")) {
										okExpr = false
									}
								}
								for _, st := range rs.EdgeStates(ph.Block().Preds[1-i], ph.Block()) {
									if ok1 && !st.F("cfg") || ok2 && !st.F("cmd") {
										okExpr = false
									}
								}
							}
						}
					}
					c.Check(rule, "applyBatch/shouldSend:expression", c.P.InstrPos(ret), "true exactly for LogCommand and LogConfiguration", okExpr, "returns "+d, 2)
					continue
				}
				c.RequireAt(rs, rule, "applyBatch/shouldSend:"+d, ret, "true exactly for LogCommand and LogConfiguration", func(v engine.View) bool {
					if d == "true" {
						return v.T("cmd") || v.T("cfg")
					}
					return v.F("cmd") && v.F("cfg")
				})
			}
		}
		_ = bodies
		_ = nApp
	}
}
