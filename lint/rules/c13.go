package rules

import (
	"go/token"
	"fmt"
	"go/types"
	"strings"

	"golang.org/x/tools/go/ssa"

	"verif/lint/engine"
)

func init() {
	register(&Property{
		ID:          "C13",
		Explanation: "Decided structurally (timing itself is not): checkLeaderLease counts a server only if it is a Voter, self once, others only when now - LastContact() <= LeaderLeaseTimeout; its only state change is setState(Follower) under contacted < quorumSize(), so a leader whose voter majority answered within the lease is never deposed by this check; the returned maxDiff is only ever assigned a diff that passed diff <= leaseTimeout, hence lease - maxDiff >= 0; the leader loop's next check interval is that difference clamped below by minCheckInterval and the timer is re-armed on every pass through the lease arm, the first timer being LeaderLeaseTimeout, so the check recurs at most one lease apart; a follower's last-contact time is refreshed only on RPCs that returned without error (or decoded pipeline responses) and initialised to now only when replication to it starts; ValidateConfig rejects LeaderLeaseTimeout > HeartbeatTimeout and ElectionTimeout < HeartbeatTimeout and is called before a configuration is used; quorumSize is a strict voter majority; on the follower side an election is started only after time.Since(LastContact()) < HeartbeatTimeout was false, every AppendEntries answered with Success refreshes LastContact, and the leader sends idle heartbeats every randomTimeout(HeartbeatTimeout/10) with a failure back-off capped at HeartbeatTimeout/2, both below the follower's timeout.",
		NotDecided:  "wall-clock behaviour: that the main loop is scheduled, that the step-down happens within 2x the lease in real time, and that a healthy cluster's responses always arrive in time.",
		RuleText:    "C13.R1 counter discipline and sole state change in checkLeaderLease; R2 clamp shape and re-arm of the lease timer; R3 setLastContact caller table with response guards; R4 ValidateConfig relations and its callers; R5 S-QUORUM; R6 follower side: candidate transition guarded by a silent HeartbeatTimeout, accepted AppendEntries refresh the contact time, idle heartbeat interval strictly below HeartbeatTimeout, cappedExponentialBackoff never above its cap.",
		Run:         c13,
	})
}

func c13(c *Ctx) {
	c13R1(c, "R1")
	c13R2(c, "R2")
	c13R3(c, "R3")
	c13R4(c, "R4")
	sQuorum(c, "R5/S-QUORUM")
	c13R6(c, "R6")
	sMainSendsBuffered(c, "R7/S-MAINSEND")
	sLockDiscipline(c, "R8/S-LOCK", "Raft", "followerReplication")
	sState(c, "R9/S-STATE")
	c13R10(c, "R10")
}

// c13R10: the heartbeat routine exists so that a follower whose append is
// slow (blocked on its disk) still hears from the leader and still answers it:
// every wake-up of the routine sends its own AppendEntries, unconditionally.
// A heartbeat that is skipped because "replicate() already has a request on
// the wire" starves the contact time for as long as that request takes, and a
// healthy leader deposes itself (round-8 seed C13-P).
func c13R10(c *Ctx, rule string) {
	fn := c.Fn(rule, "(*Raft).heartbeat")
	if fn == nil {
		return
	}
	sel := loopSelect(c, fn)
	if sel == nil {
		c.Bad(rule, "heartbeat:wait", c.P.Pos(fn.Pos()), "a blocking select that waits for the next heartbeat interval", "not found")
		return
	}
	isWait := func(in ssa.Instruction) bool { return in == ssa.Instruction(sel) }
	r := c.Run(&engine.Automaton{Fn: fn, Tracks: []engine.Track{
		engine.Event("wait", isWait, "rpc"),
		engine.Event("rpc", c.P.IsCallTo(engine.Is("iface:Transport.AppendEntries"))),
	}})
	c.RequireAt(r, rule, "heartbeat:every-wake-up-sends", sel, "between two waits the routine has sent its AppendEntries (no path around the RPC back to the wait)", func(v engine.View) bool {
		return v.Unseen("wait") || v.Seen("rpc")
	})
	n := len(c.P.CallsIn(fn, engine.Is("iface:Transport.AppendEntries")))
	c.Check(rule, "heartbeat:one-rpc-site", c.P.Pos(fn.Pos()), "the routine has its AppendEntries call", n >= 1, fmt.Sprintf("%d call(s)", n), n)
}

// c13R6: the follower side of "a healthy cluster keeps one leader and one
// term": a follower stands for election only when it has not heard from a
// leader for a whole HeartbeatTimeout, every accepted AppendEntries refreshes
// that contact time, and the leader's idle heartbeats are spaced (including
// jitter and the failure back-off) strictly below that timeout.
func c13R6(c *Ctx, rule string) {
	if fn := c.Fn(rule, "(*Raft).runFollower"); fn != nil {
		r := c.Run(&engine.Automaton{Fn: fn, Tracks: []engine.Track{
			engine.PredCond("fresh", func(cd engine.Cond) (bool, int) {
				cd, _ = cd.WithY(func(d string) bool { return d == "recv.config().HeartbeatTimeout" })
				if cd.IsRel && cd.X == "time.Now().Sub(recv.LastContact())" && cd.Y == "recv.config().HeartbeatTimeout" {
					switch cd.EdgeOrd(true) {
					case engine.LT, engine.LT | engine.EQ:
						return true, engine.True
					case engine.GT, engine.GT | engine.EQ:
						return true, engine.False
					}
				}
				return false, 0
			}),
			engine.Event("loop", func(in ssa.Instruction) bool { _, ok := in.(*ssa.Select); return ok }, "fresh"),
		}})
		n := 0
		for _, s := range c.P.CallsIn(fn, engine.Is("(*Raft).setState")) {
			if c.P.Arg(s.Instr, 0) != "Candidate" {
				continue
			}
			n++
			c.RequireAt(r, rule, "runFollower:stands-only-after-silent-heartbeat-timeout", s.Instr, "the follower becomes a candidate only when, in this iteration, time.Since(LastContact()) < HeartbeatTimeout was evaluated false", func(v engine.View) bool { return v.F("fresh") })
		}
		if n == 0 {
			c.Bad(rule, "runFollower:candidate-transition", c.P.Pos(fn.Pos()), "a setState(Candidate)", "none")
		}
	}
	if fn := c.Fn(rule, "(*Raft).setLastContact"); fn != nil {
		ok := false
		if f := c.P.LookupField("Raft", "lastContact"); f != nil {
			for _, w := range c.P.FieldWritesIn(fn, f) {
				v, _ := c.P.StoredValue(w.Instr, f)
				ok = c.P.D(v) == "time.Now()"
			}
			c.WhoMay(rule, "write Raft.lastContact", c.P.FieldWrites(f), map[string]string{"(*Raft).setLastContact": "now"})
		}
		c.Check(rule, "setLastContact:now", c.P.Pos(fn.Pos()), "the contact time recorded is the current time", ok, pick(ok, "time.Now()", "something else"), 1)
	}
	if fn := c.Fn(rule, "(*Raft).LastContact"); fn != nil {
		ok := false
		for _, ret := range engine.ReturnsOf(fn) {
			ok = c.P.D(engine.ReturnValues(ret)[0]) == "recv.lastContact"
		}
		c.Check(rule, "Raft.LastContact:returns-field", c.P.Pos(fn.Pos()), "LastContact returns the recorded contact time", ok, pick(ok, "recv.lastContact", "something else"), 1)
	}
	if fn := c.Fn(rule, "(*Raft).appendEntries"); fn != nil {
		r := c.Run(&engine.Automaton{Fn: fn, Tracks: []engine.Track{
			engine.Event("accepted", func(in ssa.Instruction) bool {
				st, ok := in.(*ssa.Store)
				return ok && strings.HasSuffix(c.P.D(st.Addr), ".Success") && c.P.D(st.Val) == "true"
			}),
			engine.Event("contact", c.P.IsCallTo(engine.Is("(*Raft).setLastContact"))),
		}})
		n := 0
		for i, ret := range engine.ReturnsOf(fn) {
			vs := r.StatesAt(ret)
			acc := false
			for _, v := range vs {
				if v.Seen("accepted") {
					acc = true
				}
			}
			if !acc {
				continue
			}
			n++
			c.RequireAt(r, rule, fmt.Sprintf("appendEntries:accepted-request-refreshes-contact#%d", i+1), ret, "every return that reports Success has refreshed the follower's last-contact time (else a healthy leader's heartbeats do not stop the election timer)", func(v engine.View) bool { return !v.Seen("accepted") || v.Seen("contact") })
		}
		if n == 0 {
			c.Bad(rule, "appendEntries:success-return", c.P.Pos(fn.Pos()), "a return after Success = true", "none")
		}
	}
	if fn := c.Fn(rule, "(*Raft).heartbeat"); fn != nil {
		const pre = "randomTimeout((recv.config().HeartbeatTimeout / "
		n := 0
		engine.EachInstr(fn, func(in ssa.Instruction) {
			sel, ok := in.(*ssa.Select)
			if !ok {
				return
			}
			for _, st := range sel.States {
				d := c.P.D(st.Chan)
				if !strings.HasPrefix(d, "randomTimeout(") {
					continue
				}
				n++
				k := int64(0)
				if strings.HasPrefix(d, pre) {
					fmt.Sscanf(strings.TrimSuffix(strings.TrimPrefix(d, pre), "))"), "%d", &k)
				}
				c.Check(rule, "heartbeat:interval-below-timeout", c.P.InstrPos(in), "idle heartbeats are sent every randomTimeout(HeartbeatTimeout/k) with k >= 2, i.e. less than HeartbeatTimeout apart including jitter (randomTimeout(d) < 2d, C12.R4)", k >= 2, "timer "+d, 1)
			}
		})
		if n != 1 {
			c.Bad(rule, "heartbeat:interval", c.P.Pos(fn.Pos()), "one randomTimeout arm in the heartbeat select", fmt.Sprintf("%d", n))
		}
	}
	if fn := c.Fn(rule, "(*Raft).heartbeat"); fn != nil {
		// after failed heartbeats the wait stays below the follower-visible
		// timeouts: a follower that is reachable again must be contacted before
		// the lease on it runs out
		n := 0
		engine.EachInstr(fn, func(in ssa.Instruction) {
			sel, ok := in.(*ssa.Select)
			if !ok {
				return
			}
			for _, st := range sel.States {
				d := c.P.D(st.Chan)
				if !strings.HasPrefix(d, "time.After(") {
					continue
				}
				n++
				okCap := false
				if strings.HasPrefix(d, "time.After(cappedExponentialBackoff(") {
					for _, base := range []string{"recv.config().HeartbeatTimeout", "recv.config().LeaderLeaseTimeout"} {
						if i := strings.LastIndex(d, ", ("+base+" / "); i >= 0 {
							var k int64
							fmt.Sscanf(d[i+len(", ("+base+" / "):], "%d", &k)
							okCap = okCap || k >= 1
						}
						if strings.HasSuffix(d, ", "+base+"))") {
							okCap = true
						}
					}
				}
				c.Check(rule, "heartbeat:failure-wait-capped-by-timeout", c.P.InstrPos(in), "the wait after failed heartbeats is cappedExponentialBackoff(…, cap) with cap = HeartbeatTimeout/k or LeaderLeaseTimeout/k (k >= 1): it never grows to many leases", okCap, "wait "+d, 1)
			}
		})
		if n != 1 {
			c.Bad(rule, "heartbeat:failure-wait", c.P.Pos(fn.Pos()), "one time.After arm after a failed heartbeat", fmt.Sprintf("%d", n))
		}
	}
	if fn := c.Fn(rule, "cappedExponentialBackoff"); fn != nil {
		r := c.Run(&engine.Automaton{Fn: fn, Tracks: []engine.Track{
			engine.PredCond("over", func(cd engine.Cond) (bool, int) {
				cd, _ = cd.WithY(func(d string) bool { return d == "p4" })
				if cd.IsRel && cd.Y == "p4" && strings.HasPrefix(cd.X, "phi(") {
					if cd.EdgeOrd(true) == engine.GT {
						return true, engine.True
					}
					if cd.EdgeOrd(true) == engine.LT|engine.EQ {
						return true, engine.False
					}
				}
				return false, 0
			}),
		}})
		for i, ret := range engine.ReturnsOf(fn) {
			d := c.P.D(engine.ReturnValues(ret)[0])
			c.RequireAt(r, rule, fmt.Sprintf("cappedExponentialBackoff:never-above-cap#%d", i+1), ret, "the result is the cap itself or a value just tested not to exceed it", func(v engine.View) bool { return d == "p4" || v.F("over") })
		}
	}
}

func c13R1(c *Ctx, rule string) {
	fn := c.Fn(rule, "(*Raft).checkLeaderLease")
	if fn == nil {
		return
	}
	sv := "val(range recv.configurations.latest.Servers)"
	var contacted ssa.Value
	var quorumIf *ssa.If
	engine.EachInstr(fn, func(in ssa.Instruction) {
		if ifi, ok := in.(*ssa.If); ok {
			cd := c.P.CondOf(ifi.Cond)
			cd, _ = cd.WithY(func(d string) bool { return d == "recv.quorumSize()" })
			if cd.IsRel && cd.Y == "recv.quorumSize()" && cd.EdgeOrd(true) == engine.LT {
				contacted, quorumIf = cd.XV, ifi
			}
		}
	})
	if contacted == nil {
		c.Bad(rule, "checkLeaderLease:quorum-test", c.P.Pos(fn.Pos()), "a comparison `contacted < quorumSize()`", "not found")
		return
	}
	var diffD string
	engine.EachInstr(fn, func(in ssa.Instruction) {
		if ifi, ok := in.(*ssa.If); ok {
			cd := c.P.CondOf(ifi.Cond)
			cd, _ = cd.WithY(func(d string) bool { return d == "recv.config().LeaderLeaseTimeout" })
			if cd.IsRel && cd.Y == "recv.config().LeaderLeaseTimeout" && strings.HasPrefix(cd.X, "time.Now().Sub(") {
				diffD = cd.X
			}
		}
	})
	okDiff := strings.HasSuffix(diffD, ".LastContact())") && strings.Contains(diffD, "recv.leaderState.replState["+sv+".ID]")
	c.Check(rule, "checkLeaderLease:age-of-contact", c.P.Pos(fn.Pos()), "the age compared with the lease is now - replState[server.ID].LastContact() of the server being counted", okDiff, "age = "+diffD, 1)
	tracks := []engine.Track{
		{Name: "iter", If: func(cd engine.Cond, _ *ssa.If) (bool, int) {
			return cd.IsRel && cd.X == "idx(range)", engine.True
		}, Kills: []string{"voter", "self", "fresh", "larger"}},
		engine.PredCond("voter", func(cd engine.Cond) (bool, int) { return voterCond(cd, sv+".Suffrage") }),
		engine.PredRel("self", sv+".ID", "recv.localID", engine.EQ),
		engine.PredRel("fresh", diffD, "recv.config().LeaderLeaseTimeout", engine.LT|engine.EQ),
		engine.PredRel("short", c.P.D(contacted), "recv.quorumSize()", engine.LT),
	}
	r := c.Run(&engine.Automaton{Fn: fn, Tracks: tracks})
	incs, ok, why := incrementsOf(contacted)
	if !ok || len(incs) != 2 {
		c.Bad(rule, "checkLeaderLease:contacted-shape", c.P.Pos(fn.Pos()), "`contacted` is a counter with two increment sites (self, fresh follower)", fmt.Sprintf("%s; %d increments", why, len(incs)))
	}
	for i, inc := range incs {
		c.RequireAt(r, rule, fmt.Sprintf("checkLeaderLease:count#%d", i+1), inc, "counted only as a Voter, and either it is this server or its last contact is within the lease", func(v engine.View) bool {
			return v.T("voter") && (v.T("self") || (v.F("self") && v.T("fresh")))
		})
	}
	// sole state change
	var changes []engine.Site
	engine.EachInstr(fn, func(in ssa.Instruction) {
		if cc := engine.CallCommonOf(in); cc != nil && stateChanging(c.P.CalleeName(cc)) {
			changes = append(changes, engine.Site{Fn: fn, Instr: in})
		}
	})
	if len(changes) != 1 {
		c.Bad(rule, "checkLeaderLease:single-effect", c.P.Pos(fn.Pos()), "exactly one state-changing call (setState(Follower))", fmt.Sprintf("%d", len(changes)))
	}
	for _, s := range changes {
		c.RequireAt(r, rule, "checkLeaderLease:step-down-only-below-quorum", s.Instr, "setState(Follower) only when contacted < quorumSize(), after the loop over all servers", func(v engine.View) bool {
			return v.T("short") && v.F("iter") && c.P.CalleeName(engine.CallCommonOf(s.Instr)) == "(*Raft).setState" && c.P.Arg(s.Instr, 0) == "Follower"
		})
	}
	// and it does step down below quorum: the true edge of the test leads to the call on all paths
	if quorumIf != nil && len(changes) == 1 {
		tb := quorumIf.Block().Succs[0]
		c.Check(rule, "checkLeaderLease:steps-down-below-quorum", c.P.InstrPos(quorumIf), "when contacted < quorumSize() the leader does step down", changes[0].Instr.Block() == tb, pick(changes[0].Instr.Block() == tb, "setState(Follower) is in the true branch", "not in the true branch"), 1)
	}
	// maxDiff only from fresh diffs
	for _, ret := range engine.ReturnsOf(fn) {
		v := engine.ReturnValues(ret)[0]
		ph, isPhi := v.(*ssa.Phi)
		if !isPhi {
			c.Bad(rule, "checkLeaderLease:maxDiff", c.P.InstrPos(ret), "returns the running maximum of fresh contact ages", "returns "+c.P.D(v))
			continue
		}
		bad := ""
		n := 0
		seen := map[*ssa.Phi]bool{}
		var walk func(p *ssa.Phi)
		walk = func(p *ssa.Phi) {
			if seen[p] {
				return
			}
			seen[p] = true
			for i, e := range p.Edges {
				switch x := e.(type) {
				case *ssa.Const:
				case *ssa.Phi:
					walk(x)
				default:
					if c.P.D(e) != diffD {
						bad = "maxDiff assigned " + c.P.D(e)
						continue
					}
					for _, st := range r.EdgeStates(p.Block().Preds[i], p.Block()) {
						n++
						if !(st.T("fresh") && st.T("voter")) {
							bad = "a contact age flows into maxDiff without having passed diff <= leaseTimeout: {" + st.String() + "}"
						}
					}
				}
			}
		}
		walk(ph)
		c.Check(rule, "checkLeaderLease:maxDiff-bounded-by-lease", c.P.InstrPos(ret), "maxDiff is only ever assigned an age that passed age <= LeaderLeaseTimeout (so lease - maxDiff cannot go negative)", bad == "" && n > 0, pick(bad == "" && n > 0, fmt.Sprintf("%d edge states", n), bad), n)
	}
}

func c13R2(c *Ctx, rule string) {
	fn := c.Fn(rule, "(*Raft).leaderLoop")
	if fn == nil {
		return
	}
	c.WhoMay(rule, "call (*Raft).checkLeaderLease", c.P.CallsEverywhere(engine.Is("(*Raft).checkLeaderLease")), map[string]string{"(*Raft).leaderLoop": "the lease arm"})
	// the lease channel of the select
	var sel *ssa.Select
	leaseCase := -1
	engine.EachInstr(fn, func(in ssa.Instruction) {
		if s, ok := in.(*ssa.Select); ok && len(s.States) > 8 {
			for k, st := range s.States {
				if st.Dir == types.RecvOnly && strings.Contains(c.P.D(st.Chan), "time.After(") {
					sel, leaseCase = s, k
				}
			}
		}
	})
	if sel == nil {
		c.Bad(rule, "leaderLoop:lease-case", c.P.Pos(fn.Pos()), "a select case receiving from the lease timer", "not found")
		return
	}
	chanD := c.P.D(sel.States[leaseCase].Chan)
	first := strings.Contains(chanD, "time.After(recv.config().LeaderLeaseTimeout)")
	c.Check(rule, "leaderLoop:first-lease-timer", c.P.InstrPos(sel), "the first lease check fires LeaderLeaseTimeout after becoming leader", first, "timer channel = "+chanD, 1)
	// the lease timer is ALWAYS armed: every value that can reach the select's
	// lease case is a time.After(…) channel. A nil channel ("nobody to
	// replicate to when the term began") never fires – voters added later in
	// the term are then never lease-checked and an isolated leader keeps its
	// role and its callers' futures for ever (round-8 seed C17-P)
	armed := true
	var walk func(v ssa.Value, depth int)
	seenV := map[ssa.Value]bool{}
	walk = func(v ssa.Value, depth int) {
		if seenV[v] || depth > 6 {
			return
		}
		seenV[v] = true
		switch x := v.(type) {
		case *ssa.Phi:
			for _, e := range x.Edges {
				walk(e, depth+1)
			}
		case *ssa.Call:
			if c.P.CalleeName(x.Common()) != "time.After" {
				armed = false
			}
		case *ssa.ChangeType:
			walk(x.X, depth+1)
		case *ssa.UnOp:
			// a cell: every store into it
			if a, ok := x.X.(*ssa.Alloc); ok && x.Op == token.MUL {
				if refs := a.Referrers(); refs != nil {
					for _, r := range *refs {
						if st, ok := r.(*ssa.Store); ok && st.Addr == ssa.Value(a) {
							walk(st.Val, depth+1)
						}
					}
				}
			} else {
				armed = false
			}
		default:
			armed = false
		}
	}
	walk(sel.States[leaseCase].Chan, 0)
	c.Check(rule, "leaderLoop:lease-timer-always-armed", c.P.InstrPos(sel), "every channel that can be the select's lease case is a time.After(…) timer (never nil, never conditional on the replication set)", armed, "timer channel = "+chanD, 1)
	arm := engine.SelectArmEntry(sel, leaseCase)
	if arm == nil {
		c.Bad(rule, "leaderLoop:lease-arm", c.P.InstrPos(sel), "the lease arm's entry block", "not recognised")
		return
	}
	r := c.Run(&engine.Automaton{Fn: fn, StartBlock: arm, StopAt: isSelect, Tracks: []engine.Track{
		engine.Event("checked", c.P.IsCallTo(engine.Is("(*Raft).checkLeaderLease"))),
		engine.Event("rearmed", c.P.IsCallTo(engine.Is("time.After"))),
		engine.PredRel("small", "(recv.config().LeaderLeaseTimeout - recv.checkLeaderLease())", "10000000", engine.LT),
	}})
	c.RequireAt(r, rule, "leaderLoop:lease-arm-checks-and-rearms", sel, "every pass through the lease arm runs checkLeaderLease and arms a new timer before the next select", func(v engine.View) bool { return v.Seen("checked") && v.Seen("rearmed") })
	// interval value
	for _, s := range c.P.CallsIn(fn, engine.Is("time.After")) {
		if !r.Reached(s.Instr) {
			continue
		}
		v := engine.ArgValue(s.Instr, 0)
		expr := "(recv.config().LeaderLeaseTimeout - recv.checkLeaderLease())"
		ph, ok := v.(*ssa.Phi)
		bad := ""
		if !ok {
			bad = "interval is " + c.P.D(v) + " (not clamped)"
		} else {
			for i, e := range ph.Edges {
				d := c.P.D(e)
				for _, st := range r.EdgeStates(ph.Block().Preds[i], ph.Block()) {
					switch d {
					case "10000000":
						if !st.T("small") {
							bad = "minimum interval used although the computed one was not below it"
						}
					case expr:
						if !st.F("small") {
							bad = "computed interval used without the lower clamp: {" + st.String() + "}"
						}
					default:
						bad = "unexpected interval " + d
					}
				}
			}
		}
		c.Check(rule, "leaderLoop:next-interval", c.P.InstrPos(s.Instr), "next interval = max(LeaderLeaseTimeout - maxDiff, minCheckInterval): never longer than one lease, never a busy loop", bad == "", pick(bad == "", "clamped phi of {lease - maxDiff, 10ms}", bad), 2)
	}
	if k := c.P.Pkg.Types.Scope().Lookup("minCheckInterval"); k != nil {
		if kc, ok := k.(*types.Const); ok {
			c.Check(rule, "minCheckInterval:value", "-", "minCheckInterval is the 10ms constant the clamp uses", kc.Val().String() == "10000000", "minCheckInterval = "+kc.Val().String(), 1)
		}
	}
}

func c13R3(c *Ctx, rule string) {
	sites := c.P.CallsEverywhere(engine.Is("(*followerReplication).setLastContact"))
	c.WhoMay(rule, "call (*followerReplication).setLastContact", sites, map[string]string{
		"(*Raft).replicateTo":        "after AppendEntries returned nil and no newer term",
		"(*Raft).sendLatestSnapshot": "after InstallSnapshot returned nil and no newer term",
		"(*Raft).heartbeat":          "after a heartbeat returned nil",
		"(*Raft).pipelineDecode":     "on a decoded pipeline response without newer term",
	})
	for _, s := range sites {
		name := c.P.Name(s.Fn)
		var tracks []engine.Track
		switch name {
		case "(*Raft).replicateTo", "(*Raft).heartbeat":
			tracks = []engine.Track{engine.Event("rpc", c.P.IsCallTo(engine.Is("iface:Transport.AppendEntries"))), predErr("rpcErr", "recv.trans.AppendEntries("), predRespTermNewer("newer")}
		case "(*Raft).sendLatestSnapshot":
			tracks = []engine.Track{engine.Event("rpc", c.P.IsCallTo(engine.Is("iface:Transport.InstallSnapshot"))), predErr("rpcErr", "recv.trans.InstallSnapshot("), predRespTermNewer("newer")}
		case "(*Raft).pipelineDecode":
			tracks = []engine.Track{engine.Event("loop", isSelect, "newer"), predRespTermNewer("newer"),
				engine.Event("rpc", func(in ssa.Instruction) bool { return isSelect(in) }), engine.PredCond("rpcErr", func(engine.Cond) (bool, int) { return false, 0 })}
		default:
			continue
		}
		r := c.Run(&engine.Automaton{Fn: s.Fn, Tracks: tracks})
		c.RequireAt(r, rule, name+":contact-only-on-response", s.Instr, "the peer answered (RPC returned nil / response decoded) and did not report a newer term", func(v engine.View) bool {
			if name == "(*Raft).pipelineDecode" {
				return v.F("newer")
			}
			if name == "(*Raft).heartbeat" {
				return v.Seen("rpc") && v.F("rpcErr")
			}
			return v.Seen("rpc") && v.F("rpcErr") && v.F("newer")
		})
	}
	if f := c.Field(rule, "followerReplication", "lastContact"); f != nil {
		ws := c.P.FieldWrites(f)
		c.WhoMay(rule, "write followerReplication.lastContact", ws, map[string]string{
			"(*followerReplication).setLastContact": "the setter (time.Now())",
			"(*Raft).startStopReplication":          "initialised to time.Now() when replication to the peer starts",
		})
		for _, s := range ws {
			v, _ := c.P.StoredValue(s.Instr, f)
			c.Check(rule, c.P.Name(s.Fn)+":lastContact-value", c.P.InstrPos(s.Instr), "the stored time is time.Now()", c.P.D(v) == "time.Now()", "= "+c.P.D(v), 1)
		}
	}
	// the contact time is refreshed by EVERY acknowledged exchange: a setter
	// that skips the write ("already fresh enough") makes the recorded contact
	// lag behind the real one by an amount unrelated to LeaderLeaseTimeout, and
	// a healthy leader deposes itself (round-7 seed C13-N)
	settersUnconditional(c, rule, "(*followerReplication).setLastContact", "followerReplication", "lastContact")
	settersUnconditional(c, rule, "(*Raft).setLastContact", "Raft", "lastContact")
	if fn := c.Fn(rule, "(*followerReplication).LastContact"); fn != nil {
		for _, ret := range engine.ReturnsOf(fn) {
			d := c.P.D(engine.ReturnValues(ret)[0])
			c.Check(rule, "LastContact:returns-field", c.P.InstrPos(ret), "LastContact() returns the lastContact field", d == "recv.lastContact", "returns "+d, 1)
		}
	}
}

func c13R4(c *Ctx, rule string) {
	fn := c.Fn(rule, "ValidateConfig")
	if fn == nil {
		return
	}
	r := c.Run(&engine.Automaton{Fn: fn, Tracks: []engine.Track{
		engine.PredRel("leaseTooLong", "p1.LeaderLeaseTimeout", "p1.HeartbeatTimeout", engine.GT),
		engine.PredRel("electionTooShort", "p1.ElectionTimeout", "p1.HeartbeatTimeout", engine.LT),
		engine.PredRel("hbTiny", "p1.HeartbeatTimeout", "5000000", engine.LT),
		engine.PredRel("elTiny", "p1.ElectionTimeout", "5000000", engine.LT),
		engine.PredRel("leaseTiny", "p1.LeaderLeaseTimeout", "5000000", engine.LT),
	}})
	n := 0
	for _, ret := range engine.ReturnsOf(fn) {
		if c.P.D(engine.ReturnValues(ret)[0]) != "nil" {
			continue
		}
		n++
		c.RequireAt(r, rule, "ValidateConfig:timeout-relations", ret, "a configuration is accepted only with LeaderLeaseTimeout <= HeartbeatTimeout <= ElectionTimeout and all three >= 5ms", func(v engine.View) bool {
			return v.F("leaseTooLong") && v.F("electionTooShort") && v.F("hbTiny") && v.F("elTiny") && v.F("leaseTiny")
		})
	}
	if n == 0 {
		c.Bad(rule, "ValidateConfig:accepts", c.P.Pos(fn.Pos()), "a return nil", "none")
	}
	c.WhoMay(rule, "call ValidateConfig", c.P.CallsEverywhere(engine.Is("ValidateConfig")), map[string]string{
		"NewRaft":              "before the configuration is stored",
		"(*Raft).ReloadConfig": "before a reloaded configuration is stored",
		"BootstrapCluster":     "pre-init API",
		"RecoverCluster":       "pre-init API",
	})
	// conf.Store only after validation
	for _, name := range []string{"NewRaft", "(*Raft).ReloadConfig"} {
		f := c.P.Fn(name)
		if f == nil {
			continue
		}
		rr := c.Run(&engine.Automaton{Fn: f, Tracks: []engine.Track{
			engine.Event("validated", c.P.IsCallTo(engine.Is("ValidateConfig"))),
			predErr("invalid", "ValidateConfig("),
		}})
		for _, s := range c.P.CallsIn(f, engine.Is("(*sync/atomic.Value).Store")) {
			if !strings.HasSuffix(c.P.D(engine.RecvValue(s.Instr)), ".conf") {
				continue
			}
			c.RequireAt(rr, rule, name+":store-only-valid-config", s.Instr, "the configuration published to the running server passed ValidateConfig", func(v engine.View) bool { return v.Seen("validated") && v.F("invalid") })
		}
	}
	c.WhoMay(rule, "publish Raft.conf", func() []engine.Site {
		var out []engine.Site
		for _, s := range c.P.CallsEverywhere(engine.Is("(*sync/atomic.Value).Store")) {
			if strings.HasSuffix(c.P.D(engine.RecvValue(s.Instr)), ".conf") {
				out = append(out, s)
			}
		}
		return out
	}(), map[string]string{"NewRaft": "construction", "(*Raft).ReloadConfig": "reload"})
}
