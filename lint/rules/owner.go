package rules

import (
	"fmt"
	"sort"
	"strings"

	"golang.org/x/tools/go/ssa"

	"verif/lint/engine"
)

// S-OWNER: state owned by the main goroutine.
//
// Raft.leaderState and Raft.configurations carry no mutex: upstream documents
// them as "only used from the main thread" and every other goroutine gets what
// it needs as a copy (followerReplication fields, the configurationsCh future,
// getLatestConfiguration's atomic value). The properties that quantify over
// schedules rely on that: a replication routine that outlives its tenure must
// not see the NEXT tenure's leaderState, and a reader on another goroutine
// must not see a half-written configurations struct.
//
// The rule: collect every function started with a go statement or handed to
// goFunc (other than the main loop itself) and every exported method of Raft
// (run by the caller's goroutine), close over synchronous static calls and
// function literals that are called or deferred in place, and require that no
// function of that set touches one of the owned fields, save the explicit
// table below (one reason per entry).

var ownerExempt = map[string]map[string]string{
	"leaderState": {
		"(*Raft).setLeadershipTransferInProgress": "touches only leadershipTransferInProgress, through sync/atomic (checked by S-STATE)",
		"(*Raft).getLeadershipTransferInProgress": "reads only leadershipTransferInProgress, through sync/atomic (checked by S-STATE)",
	},
	"configurations": {},
}

// unbound resolves the synthetic wrapper of a method value (r.run) to the
// method itself.
func unbound(f *ssa.Function) *ssa.Function {
	if f == nil {
		return f
	}
	if f.Parent() != nil && f.Synthetic == "" && len(f.Blocks) == 1 {
		// func() { g(args) }: a thin literal around one call starts g
		var only *ssa.Function
		n := 0
		for _, in := range f.Blocks[0].Instrs {
			switch x := in.(type) {
			case *ssa.Call:
				n++
				only = x.Common().StaticCallee()
			case *ssa.Store, *ssa.Send, *ssa.Go, *ssa.Defer, *ssa.MapUpdate, *ssa.Select, *ssa.Panic:
				n = 99
			}
		}
		if n == 1 && only != nil {
			return unbound(only)
		}
		return f
	}
	if !strings.Contains(f.Synthetic, "bound method wrapper") {
		return f
	}
	for _, b := range f.Blocks {
		for _, in := range b.Instrs {
			if ci, ok := in.(ssa.CallInstruction); ok {
				if g := ci.Common().StaticCallee(); g != nil {
					return g
				}
			}
		}
	}
	return f
}

// functions that start other goroutines' bodies
func goStarts(c *Ctx, fn *ssa.Function) (started []*ssa.Function) {
	asFn := func(v ssa.Value) *ssa.Function {
		switch x := v.(type) {
		case *ssa.MakeClosure:
			f, _ := x.Fn.(*ssa.Function)
			return unbound(f)
		case *ssa.Function:
			return unbound(x)
		}
		return nil
	}
	engine.EachInstr(fn, func(in ssa.Instruction) {
		switch x := in.(type) {
		case *ssa.Go:
			if f := asFn(x.Common().Value); f != nil {
				started = append(started, f)
			} else if f := x.Common().StaticCallee(); f != nil {
				started = append(started, f)
			}
			if x.Common().StaticCallee() != nil && c.P.CalleeName(x.Common()) == "(*raftState).goFunc" {
				for _, a := range x.Common().Args {
					if f := asFn(a); f != nil {
						started = append(started, f)
					}
				}
			}
		case *ssa.Call:
			if c.P.CalleeName(x.Common()) == "(*raftState).goFunc" {
				for _, a := range x.Common().Args {
					if f := asFn(a); f != nil {
						started = append(started, f)
					}
				}
			}
		}
	})
	return started
}

func sMainOwned(c *Ctx, rule string, fields ...string) {
	raft := c.P.LookupType("Raft")
	if raft == nil {
		c.Bad(rule, "anchor:Raft", "-", "type exists", "not found")
		return
	}
	pkgFn := func(f *ssa.Function) bool {
		return f != nil && f.Pkg != nil && f.Pkg.Pkg == raft.Obj().Pkg() && len(f.Blocks) > 0
	}
	// every subject function incl. literals
	var all []*ssa.Function
	seen := map[*ssa.Function]bool{}
	for _, fn := range c.P.AllFuncs() {
		for _, f := range engine.WithLits(fn) {
			if !seen[f] {
				seen[f] = true
				all = append(all, f)
			}
		}
	}
	// entry points of non-main goroutines
	entries := map[*ssa.Function]string{}
	startedSet := map[*ssa.Function]bool{}
	for _, fn := range all {
		for _, s := range goStarts(c, fn) {
			if !pkgFn(s) {
				continue
			}
			startedSet[s] = true
			if c.P.Name(s) == "(*Raft).run" {
				continue
			}
			if _, ok := entries[s]; !ok {
				entries[s] = "started by " + c.P.Name(fn)
			}
		}
	}
	nMain := 0
	for s := range startedSet {
		if c.P.Name(s) == "(*Raft).run" {
			nMain++
		}
	}
	if nMain != 1 {
		c.Bad(rule, "owner:main-loop-start", "-", "the main loop (*Raft).run is started by exactly one go statement", fmt.Sprintf("%d", nMain))
	}
	for _, fn := range all {
		if fn.Parent() != nil || fn.Signature.Recv() == nil || fn.Object() == nil || !fn.Object().Exported() {
			continue
		}
		if strings.TrimPrefix(c.P.TypeStr(fn.Signature.Recv().Type()), "*") != "Raft" {
			continue
		}
		if _, ok := entries[fn]; !ok {
			entries[fn] = "exported API, runs on the caller's goroutine"
		}
	}
	// synchronous closure: static calls, defers, and literals made (and not
	// started) in the function
	reach := map[*ssa.Function]string{}
	var work []*ssa.Function
	for e, why := range entries {
		reach[e] = c.P.Name(e) + " (" + why + ")"
		work = append(work, e)
	}
	sort.Slice(work, func(i, j int) bool { return c.P.Name(work[i]) < c.P.Name(work[j]) })
	for len(work) > 0 {
		fn := work[0]
		work = work[1:]
		started := map[*ssa.Function]bool{}
		for _, s := range goStarts(c, fn) {
			started[s] = true
		}
		push := func(f *ssa.Function) {
			if !pkgFn(f) || started[f] {
				return
			}
			if _, ok := reach[f]; ok {
				return
			}
			reach[f] = reach[fn]
			work = append(work, f)
		}
		engine.EachInstr(fn, func(in ssa.Instruction) {
			switch x := in.(type) {
			case *ssa.Call:
				push(x.Common().StaticCallee())
			case *ssa.Defer:
				push(x.Common().StaticCallee())
			case *ssa.MakeClosure:
				if f, ok := x.Fn.(*ssa.Function); ok {
					push(f)
				}
			}
		})
	}
	if len(entries) < 8 || len(reach) < 40 {
		c.Bad(rule, "owner:goroutine-closure", "-", "the known goroutine entry points (runFSM, runSnapshots, replicate, heartbeat, pipelineDecode, leadershipTransfer, API methods, …) and what they call", fmt.Sprintf("%d entries, %d functions", len(entries), len(reach)))
	}
	for _, field := range fields {
		fv := c.P.LookupField("Raft", field)
		if fv == nil {
			c.Bad(rule, "anchor:Raft."+field, "-", "owned field exists", "not found")
			continue
		}
		used := map[string]bool{}
		nAcc, nOutside := 0, 0
		for _, fn := range all {
			var first ssa.Instruction
			k := 0
			engine.EachInstr(fn, func(in ssa.Instruction) {
				if fa, ok := in.(*ssa.FieldAddr); ok && engine.FieldOf(fa) == fv {
					if first == nil {
						first = in
					}
					k++
				}
			})
			if k == 0 {
				continue
			}
			nAcc += k
			via, outside := reach[fn]
			if !outside {
				continue
			}
			nOutside++
			name := c.P.Name(fn)
			if why, ok := ownerExempt[field][name]; ok {
				used[name] = true
				c.Ok(rule, "owner:Raft."+field+" in "+name, c.P.InstrPos(first), "exempt: "+why, fmt.Sprintf("%d access(es)", k), k)
				continue
			}
			c.Check(rule, "owner:Raft."+field+" in "+name, c.P.InstrPos(first), "Raft."+field+" is owned by the main goroutine: not touched by a function that runs on another goroutine", false, "reachable from "+via, k)
		}
		if nAcc == 0 {
			c.Bad(rule, "owner:Raft."+field, "-", "accesses of the owned field", "none found")
			continue
		}
		c.Ok(rule, "owner:Raft."+field, "-", "no access outside the main goroutine (save the listed atomics)", fmt.Sprintf("%d accesses, %d functions on other goroutines (all exempt)", nAcc, nOutside), nAcc)
		for name := range ownerExempt[field] {
			if !used[name] && c.P.Fn(name) == nil {
				c.Bad(rule, "owner:exempt:"+name, "-", "exempted function exists", "not found")
			}
		}
	}
}
