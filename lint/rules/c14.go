package rules

import (
	"fmt"
	"strings"

	"golang.org/x/tools/go/ssa"

	"verif/lint/engine"
)

func init() {
	register(&Property{
		ID:          "C14",
		Explanation: "Decided for all paths: the pre-vote handler and the pre-vote round (requestPreVote, preElectSelf and everything they call) never change term, vote, role, leader, contact time or any store; in runCandidate the term-bumping electSelf is called either because pre-vote is disabled / this is a leadership-transfer target, or after the pre-vote tally (incremented only for granted pre-votes of this round) reached quorumSize(); the transfer flag is set only by timeoutNow and cleared when runCandidate returns, the disable flag only at construction; every pre-vote grant passed the stale-term test, the known-leader refusal (no transfer exception), the voter-membership test and the up-to-date ladder (all 9 orderings); real votes are refused while a leader is known (C06.R1); the term changes only at the 8 enumerated sites (C06.R4).",
		NotDecided:  "that a reconnecting server cannot disturb the leader through other message types or in mixed-version clusters where pre-vote is unsupported (those peers are counted as granting by design).",
		RuleText:    "C14.R1 effect freedom over static callees; R2 guards of the electSelf call sites and counter discipline of the pre-vote tally, writer tables of the two flags; R3 guard formula at the pre-vote grant + ordering oracle; R4 = C06.R4.",
		Run:         c14,
	})
}

func c14(c *Ctx) {
	effectFree(c, "R1", "(*Raft).requestPreVote", "change term, vote, role, leader, contact or any store", 4, stateChanging)
	effectFree(c, "R1", "(*Raft).preElectSelf", "change term, vote, role, leader, contact or any store", 4, stateChanging)
	// the expected-zero rule must be able to fire: requestVote is the positive example
	if fn := c.P.Fn("(*Raft).requestVote"); fn != nil {
		ri := reachCalls(c, fn, 4, stateChanging, nil)
		c.Check("R1", "selftest:effect-rule-fires-on-requestVote", c.P.Pos(fn.Pos()), "the effect-freedom rule reports the real vote handler (which does change term and vote) – proof that the rule is not vacuous", len(ri.hits) >= 3, fmt.Sprintf("%d forbidden effects found in requestVote", len(ri.hits)), len(ri.hits))
	}
	c14R2(c, "R2")
	sVoterOnlyBallots(c, "R2/S-VOTERS")
	sQuorum(c, "R2/S-QUORUM")
	c14R3(c, "R3")
	c06R4(c, "R4/C06.R4")
	sDispatch(c, "R5/S-DISPATCH")
	c16R1(c, "R5/C16.R1")
	c14CompatText(c, "R5")
	sHigher(c, "R6/S-HIGHER")
	sMainOwned(c, "R7/S-OWNER", "leaderState", "configurations")
}

func c14R2(c *Ctx, rule string) {
	fn := c.Fn(rule, "(*Raft).runCandidate")
	if fn == nil {
		return
	}
	// a pre-vote round counts only answers to ITS OWN requests: the channel the
	// per-peer goroutines report into is made in this call, so a grant that
	// arrives late from an earlier round has nowhere to go but the old channel
	if pf := c.Fn(rule, "(*Raft).preElectSelf"); pf != nil {
		k := 0
		for _, ret := range engine.ReturnsOf(pf) {
			if len(ret.Results) == 1 {
				d := c.P.D(engine.ReturnValues(ret)[0])
				if d == "nil" {
					continue
				}
				k++
				c.Check(rule, "preElectSelf:fresh-result-channel", c.P.InstrPos(ret), "the result channel is made in this call (no pre-votes carried over from an earlier round)", strings.HasPrefix(d, "make(chan *preVoteResult"), "returns "+d, 1)
			}
		}
		if k == 0 {
			c.Bad(rule, "preElectSelf:fresh-result-channel", c.P.Pos(pf.Pos()), "a return of the result channel", "none found")
		}
	}
	sites := c.P.CallsIn(fn, engine.Is("(*Raft).electSelf"))
	c.WhoMay(rule, "call (*Raft).electSelf", c.P.CallsEverywhere(engine.Is("(*Raft).electSelf")), map[string]string{"(*Raft).runCandidate": "the only place a candidate bumps its term"})
	c.WhoMay(rule, "call (*Raft).preElectSelf", c.P.CallsEverywhere(engine.Is("(*Raft).preElectSelf")), map[string]string{"(*Raft).runCandidate": "pre-vote round"})
	if len(sites) != 2 {
		c.Bad(rule, "runCandidate:electSelf-sites", c.P.Pos(fn.Pos()), "two call sites of electSelf (pre-vote bypass, pre-vote won)", fmt.Sprintf("%d", len(sites)))
	}
	// the pre-vote tally: operand of the comparison dominating the in-loop electSelf
	var tally ssa.Value
	engine.EachInstr(fn, func(in ssa.Instruction) {
		ifi, ok := in.(*ssa.If)
		if !ok {
			return
		}
		for _, s := range sites {
			if ifi.Block().Succs[0] == s.Instr.Block() {
				cd := c.P.CondOf(ifi.Cond)
				cd, _ = cd.WithY(func(d string) bool { return d == "recv.quorumSize()" })
				if cd.IsRel && cd.EdgeOrd(true) == engine.GT|engine.EQ && cd.Y == "recv.quorumSize()" {
					tally = cd.XV
				}
			}
		}
	})
	var recvD string
	engine.EachInstr(fn, func(in ssa.Instruction) {
		if ifi, ok := in.(*ssa.If); ok {
			cd := c.P.CondOf(ifi.Cond)
			if !cd.IsRel && strings.HasSuffix(cd.B, ".RequestPreVoteResponse.Granted") {
				recvD = strings.TrimSuffix(cd.B, ".RequestPreVoteResponse.Granted")
			}
		}
	})
	tracks := []engine.Track{
		engine.Event("loop", isSelect, "granted", "won", "newer"),
		engine.PredBool("disabled", DescIs("recv.preVoteDisabled")),
		engine.PredBool("transfer", DescIs("recv.candidateFromLeadershipTransfer.Load()")),
		engine.PredBool("granted", DescIs(recvD+".RequestPreVoteResponse.Granted")),
		engine.PredCond("newer", func(cd engine.Cond) (bool, int) {
			if set, ok := cd.RelOn(recvD+".RequestPreVoteResponse.Term", "("+curTerm+" + 1)"); ok {
				if set == engine.GT {
					return true, engine.True
				}
				if set == engine.LT|engine.EQ {
					return true, engine.False
				}
			}
			return false, 0
		}),
	}
	if tally != nil {
		tracks = append(tracks, engine.PredRel("won", c.P.D(tally), "recv.quorumSize()", engine.GT|engine.EQ))
	} else {
		tracks = append(tracks, engine.PredCond("won", func(engine.Cond) (bool, int) { return false, 0 }))
	}
	r := c.Run(&engine.Automaton{Fn: fn, Tracks: tracks})
	for i, s := range sites {
		c.RequireAt(r, rule, fmt.Sprintf("runCandidate:electSelf#%d", i+1), s.Instr,
			"the term is bumped only when pre-vote is disabled, or this candidate was told to stand by a leadership transfer, or the pre-vote tally reached quorumSize() in this iteration",
			func(v engine.View) bool { return v.T("disabled") || v.T("transfer") || v.T("won") })
	}
	if tally == nil {
		c.Bad(rule, "runCandidate:prevote-tally", c.P.Pos(fn.Pos()), "an electSelf call directly under `preVoteGrantedVotes >= votesNeeded` with votesNeeded = quorumSize()", "not found")
		return
	}
	incs, ok, why := incrementsOf(tally)
	if !ok || len(incs) == 0 {
		c.Bad(rule, "runCandidate:prevote-tally-shape", c.P.Pos(fn.Pos()), "the tally is a counter incremented by 1 (and reset to 0)", why)
	}
	okCh := strings.HasPrefix(recvD, "<-") && strings.Contains(recvD, "recv.preElectSelf()")
	c.Check(rule, "runCandidate:prevote-source", c.P.Pos(fn.Pos()), "counted pre-votes are received from the channel returned by preElectSelf", okCh, "received from "+recvD, 1)
	for i, inc := range incs {
		c.RequireAt(r, rule, fmt.Sprintf("runCandidate:prevote-tally-increment#%d", i+1), inc, "in this iteration: ¬(preVote.Term > term) ∧ preVote.Granted", func(v engine.View) bool { return v.F("newer") && v.T("granted") })
	}
	// flags
	if f := c.Field(rule, "Raft", "preVoteDisabled"); f != nil {
		c.WhoMay(rule, "write Raft.preVoteDisabled", c.P.FieldWrites(f), map[string]string{"NewRaft": "fixed at construction"})
	}
	var setTrue, setFalse []engine.Site
	for _, s := range c.P.CallsEverywhere(engine.Is("(*sync/atomic.Bool).Store")) {
		if !strings.HasSuffix(c.P.D(engine.RecvValue(s.Instr)), ".candidateFromLeadershipTransfer") {
			continue
		}
		if c.P.Arg(s.Instr, 0) == "true" {
			setTrue = append(setTrue, s)
		} else {
			setFalse = append(setFalse, s)
		}
	}
	c.WhoMay(rule, "set candidateFromLeadershipTransfer = true", setTrue, map[string]string{"(*Raft).timeoutNow": "TimeoutNow RPC from the current leader"})
	c.WhoMay(rule, "clear candidateFromLeadershipTransfer", setFalse, map[string]string{"(*Raft).runCandidate$defer": "reset after every candidate run"})
	// the deferred reset is registered on every path into the loop
	rr := c.Run(&engine.Automaton{Fn: fn, Tracks: []engine.Track{engine.Event("deferred", func(in ssa.Instruction) bool {
		d, ok := in.(*ssa.Defer)
		return ok && c.P.CalleeName(d.Common()) == "(*Raft).runCandidate$defer"
	})}})
	engine.EachInstr(fn, func(in ssa.Instruction) {
		if isSelect(in) {
			c.RequireAt(rr, rule, "runCandidate:transfer-flag-reset-registered", in, "the deferred reset of the transfer privilege is registered before the candidate loop runs", func(v engine.View) bool { return v.Seen("deferred") })
		}
	})
	// preElectSelf: proposes current+1 without installing it; asks voters only (C07.R6)
	if pf := c.Fn(rule, "(*Raft).preElectSelf"); pf != nil {
		if f := c.Field(rule, "RequestPreVoteRequest", "Term"); f != nil {
			for _, s := range c.P.FieldWritesIn(pf, f) {
				v, _ := c.P.StoredValue(s.Instr, f)
				c.Check(rule, "preElectSelf:proposed-term", c.P.InstrPos(s.Instr), "the pre-vote request proposes getCurrentTerm()+1", c.P.D(v) == "("+curTerm+" + 1)", "= "+c.P.D(v), 1)
			}
		}
	}
}

func c14R3(c *Ctx, rule string) {
	fn := c.Fn(rule, "(*Raft).requestPreVote")
	granted := c.Field(rule, "RequestPreVoteResponse", "Granted")
	if fn == nil || granted == nil {
		return
	}
	req := c.ParamOfType(fn, "*RequestPreVoteRequest")
	cur := curTerm
	leader := "recv.LeaderWithID()#0"
	tracks := []engine.Track{
		engine.PredRel("stale", req+".Term", cur, engine.LT),
		engine.PredRel("ldrKnown", leader, `""`, engine.LT|engine.GT),
		engine.PredCond("ldrOther", func(cd engine.Cond) (bool, int) {
			if !cd.IsRel {
				return false, 0
			}
			other := ""
			if cd.X == leader {
				other = cd.Y
			} else if cd.Y == leader {
				other = cd.X
			} else {
				return false, 0
			}
			if !strings.Contains(other, "recv.trans.DecodePeer(") {
				return false, 0
			}
			s := cd.EdgeOrd(true)
			if isNE(s) {
				return true, engine.True
			}
			if s == engine.EQ {
				return true, engine.False
			}
			return false, 0
		}),
		engine.PredRel("cfgNonEmpty", "len(recv.configurations.latest.Servers)", "0", engine.GT),
		engine.PredBool("hasVote", DescHasPrefix("hasVote(recv.configurations.latest, "+req+".RPCHeader.ID")),
	}
	r := c.Run(&engine.Automaton{Fn: fn, Tracks: tracks})
	gs := c.StoresOfConst(fn, granted, true)
	if len(gs) == 0 {
		c.Bad(rule, "requestPreVote:grant", c.P.Pos(fn.Pos()), "a store Granted=true", "none")
	}
	c.WhoMay(rule, "store RequestPreVoteResponse.Granted=true", func() []engine.Site {
		var out []engine.Site
		for _, f := range c.P.AllFuncs() {
			out = append(out, c.StoresOfConst(f, granted, true)...)
		}
		return out
	}(), map[string]string{
		"(*Raft).requestPreVote":                  "the handler",
		"(*Raft).preElectSelf":                    "own pre-vote",
		"(*Raft).preElectSelf$askPeer$arg:goFunc": "peer without pre-vote support is counted as granting (documented compatibility rule)",
	})
	for i, g := range gs {
		key := fmt.Sprintf("requestPreVote:grant#%d", i+1)
		c.RequireAt(r, rule, key+":not-stale", g.Instr, "¬(req.Term < currentTerm)", func(v engine.View) bool { return v.F("stale") })
		c.RequireAt(r, rule, key+":no-known-other-leader", g.Instr, "leader unknown ∨ leader == candidate (no leadership-transfer exception for pre-votes)", func(v engine.View) bool { return v.F("ldrKnown") || v.F("ldrOther") })
		c.RequireAt(r, rule, key+":voter-member", g.Instr, "configuration empty ∨ hasVote(latest, candidateID)", func(v engine.View) bool { return v.T("hasVote") || v.F("cfgNonEmpty") })
	}
	sUpToDate(c, rule, "(*Raft).requestPreVote", "RequestPreVoteRequest", "RequestPreVoteResponse", true, false)
	// the compatibility grant in askPeer is limited to the "unexpected command" error
	for _, name := range c.P.FuncNames() {
		if !strings.HasPrefix(name, "(*Raft).preElectSelf$askPeer$") {
			continue
		}
		g := c.P.Funcs[name]
		rr := c.Run(&engine.Automaton{Fn: g, Tracks: []engine.Track{
			predErr("rpcErr", "type-assert"),
			engine.PredCond("rpcErr2", func(cd engine.Cond) (bool, int) {
				if cd.IsRel && strings.Contains(cd.X, ".RequestPreVote(") && cd.Y == "nil" {
					if isNEc(cd) {
						return true, engine.True
					}
					return true, engine.False
				}
				return false, 0
			}),
			engine.PredBool("unsupported", func(d string) bool {
				return strings.HasPrefix(d, "strings.Contains(") && strings.Contains(d, "\"unexpected command\"")
			}),
		}})
		for _, s := range c.StoresOfConst(g, granted, true) {
			c.RequireAt(rr, rule, "preElectSelf/askPeer:synthetic-grant-only-for-unsupported-rpc", s.Instr, "a peer's pre-vote is assumed granted only when the RPC failed with the 'unexpected command' error", func(v engine.View) bool {
				return v.T("rpcErr2") && v.T("unsupported")
			})
		}
	}
}

// c14CompatText: a candidate counts the answer "unexpected command" as a
// pre-vote grant (the peer is an old server without the RPC). Only the
// receiving server's dispatcher may produce that text – anything else that
// manufactures it (a transport mapping EOF or a timeout to it) turns
// unreachable peers into grants and lets an isolated server inflate its term.
func c14CompatText(c *Ctx, rule string) {
	var sites []engine.Site
	for _, fn := range c.P.AllFuncs() {
		engine.EachInstr(fn, func(in ssa.Instruction) {
			cc := engine.CallCommonOf(in)
			if cc == nil {
				return
			}
			switch c.P.CalleeName(cc) {
			case "errors.New", "fmt.Errorf":
			default:
				return
			}
			for _, a := range cc.Args {
				if k, ok := a.(*ssa.Const); ok && k.Value != nil && strings.Contains(k.Value.ExactString(), "unexpected command") {
					sites = append(sites, engine.Site{Fn: fn, Instr: in})
				}
			}
		})
	}
	c.WhoMay(rule, "build an \"unexpected command\" error", sites, map[string]string{
		"(*Raft).processRPC":       "the dispatcher's answer to an RPC type it has no handler for",
		"(*Raft).processHeartbeat": "the fast path's answer to anything but AppendEntries",
	})
}
