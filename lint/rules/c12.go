package rules

import (
	"fmt"
	"go/token"
	"go/types"
	"strings"

	"golang.org/x/tools/go/ssa"

	"verif/lint/engine"
)

func init() {
	register(&Property{
		ID:          "C12",
		Explanation: "The property is a bounded-time liveness claim over all fault histories; NO static argument in reach bounds 'within N election timeouts'. This check decides only five structural NECESSARY conditions of catch-up progress and says so: (1) on a rejected AppendEntries the leader's nextIndex strictly decreases towards 1 (folded over next in 1..8, follower hint in 0..8), and success paths advance it to last+1; (2) after a successful InstallSnapshot the follower must accept a request whose previous entry is the snapshot boundary – either its cached log tail is brought in line or the previous-entry check consults the snapshot position (known finding: neither exists); (3) a new leader starts replication and appends its no-op before entering the loop, and every append triggers every replication routine; (4) randomTimeout(d) returns a timer in [d, 2d) for d > 0 and nil only for 0, timeouts below 5ms are rejected, the follower re-arms its timer on every expiry; (5) the vote and pre-vote ladders grant to every candidate whose log is at least as up to date (5 of 9 orderings).",
		NotDecided:  "the liveness statement itself: that elections terminate, the time bound, absence of other livelocks, and convergence of every follower – none of these is decided.",
		RuleText:    "C12.R1 finite-domain folding of the back-off expression; R2 existence rule for snapshot-boundary acceptance; R3 must-precede in runLeader + trigger loop; R4 folding of the timeout expression and re-arm rule; R5 liveness direction of the ordering oracle.",
		Run:         c12,
	})
}

func c12(c *Ctx) {
	c12R1(c, "R1")
	c12R2(c, "R2")
	// R3
	c05R3(c, "R3/C05.R3")
	c08R3(c, "R3/C08.R3")
	sHigher(c, "R3/S-HIGHER")
	c12R6(c, "R6")
	c12R7(c, "R7")
	sMainSendsBuffered(c, "R8/S-MAINSEND")
	sTransferWorkerReports(c, "R9")
	c12R4(c, "R4")
	sUpToDate(c, "R5/S-UPTODATE", "(*Raft).requestVote", "RequestVoteRequest", "RequestVoteResponse", false, true)
	sUpToDate(c, "R5/S-UPTODATE", "(*Raft).requestPreVote", "RequestPreVoteRequest", "RequestPreVoteResponse", false, true)
	sLockDiscipline(c, "R10/S-LOCK", "followerReplication")
	sAtomicOnly(c, "R10/S-ATOMIC")
	// commit progress with a healthy majority: only voters of the latest
	// configuration own a slot (a removed server counted for ever stalls commit)
	coreCommitBundle(c, "R11", "C05.R3")
	sLockDiscipline(c, "R11/S-LOCK", "commitment")
	sAsyncNotifyBuffered(c, "R12/S-ASYNC")
	// a snapshot reported durable that is not there: the log is compacted past
	// it and a member behind the compaction point can never catch up
	c15R1(c, "R13/C15.R1")
	c15R2(c, "R13/C15.R2")
	c12R14(c, "R14")
	sSendsNewestSnapshot(c, "R14/C20.R10")
}

// c12R14: the periodic CommitTimeout tick of the replication routine is how a
// follower that already holds every entry learns the leader's commit index
// (heartbeats deliberately carry none). Every expiry sends – unconditionally –
// an AppendEntries through replicateTo / pipelineSend; a "the follower looks
// current, skip it" shortcut leaves a follower whose last commit announcement
// was lost holding a committed entry it never commits or applies
// (round-8 seed C12-P).
func c12R14(c *Ctx, rule string) {
	for _, it := range []struct{ fn, send string }{
		{"(*Raft).replicate", "(*Raft).replicateTo"},
		{"(*Raft).pipelineReplicate", "(*Raft).pipelineSend"},
	} {
		fn := c.Fn(rule, it.fn)
		if fn == nil {
			continue
		}
		n := 0
		engine.EachInstr(fn, func(in ssa.Instruction) {
			sel, ok := in.(*ssa.Select)
			if !ok {
				return
			}
			for k, st := range sel.States {
				if st.Dir != types.RecvOnly || !strings.Contains(c.P.D(st.Chan), "randomTimeout(recv.config().CommitTimeout)") {
					continue
				}
				arm := engine.SelectArmEntry(sel, k)
				if arm == nil {
					continue
				}
				n++
				var ends []ssa.Instruction
				ends = append(ends, sel)
				for _, ret := range engine.RawReturnsOf(fn) {
					ends = append(ends, ret)
				}
				r := c.Run(&engine.Automaton{Fn: fn, StartBlock: arm, StopAt: func(x ssa.Instruction) bool { return x == ssa.Instruction(sel) }, Tracks: []engine.Track{
					engine.Event("sent", c.P.IsCallTo(engine.Is(it.send))),
				}})
				for i, e := range ends {
					if !r.Reached(e) {
						continue
					}
					c.RequireAt(r, rule, fmt.Sprintf("%s:commit-tick-always-sends#%d", strings.TrimPrefix(it.fn, "(*Raft)."), i), e, "every expiry of the CommitTimeout timer calls "+it.send+" before the routine waits again or leaves", func(v engine.View) bool { return v.Seen("sent") })
				}
			}
		})
		if n == 0 {
			c.Bad(rule, strings.TrimPrefix(it.fn, "(*Raft).")+":commit-tick", c.P.Pos(fn.Pos()), "a select arm on randomTimeout(CommitTimeout)", "not found")
		}
	}
}

func c12R1(c *Ctx, rule string) {
	fn := c.Fn(rule, "(*Raft).replicateTo")
	ni := c.Field(rule, "followerReplication", "nextIndex")
	if fn == nil || ni == nil {
		return
	}
	r := c.Run(&engine.Automaton{Fn: fn, Tracks: []engine.Track{
		engine.Event("rpc", c.P.IsCallTo(engine.Is("iface:Transport.AppendEntries")), "success"),
		predErr("rpcErr", "recv.trans.AppendEntries("),
		predRespSuccess("success"),
	}})
	ws := c.P.FieldWritesIn(fn, ni)
	if len(ws) != 1 {
		c.Bad(rule, "replicateTo:nextIndex-writes", c.P.Pos(fn.Pos()), "exactly one direct write of nextIndex in replicateTo (the back-off)", fmt.Sprintf("%d", len(ws)))
	}
	for _, s := range ws {
		v, _ := c.P.StoredValue(s.Instr, ni)
		c.RequireAt(r, rule, "replicateTo:backoff-only-on-rejection", s.Instr, "nextIndex is lowered only after a delivered response with Success == false", func(vw engine.View) bool { return vw.Seen("rpc") && vw.F("rpcErr") && vw.F("success") })
		f := engine.NewFolder(c.P)
		leaves := f.Leaves(v)
		var nextLeaf, hintLeaf ssa.Value
		for _, l := range leaves {
			d := c.P.D(l)
			switch {
			case strings.HasSuffix(d, ".nextIndex"):
				nextLeaf = l
			case strings.HasSuffix(d, ".LastLog"):
				hintLeaf = l
			}
		}
		if nextLeaf == nil || hintLeaf == nil || len(leaves) != 2 {
			c.Bad(rule, "replicateTo:backoff-expression", c.P.InstrPos(s.Instr), "new nextIndex is a function of the old nextIndex and the follower's LastLog hint", "expression "+c.P.D(v))
			continue
		}
		bad := ""
		n := 0
		for next := int64(1); next <= 8 && bad == ""; next++ {
			for hint := int64(0); hint <= 8 && bad == ""; hint++ {
				nv, err := f.Eval(v, map[ssa.Value]int64{nextLeaf: next, hintLeaf: hint})
				n++
				switch {
				case err != nil:
					bad = err.Error()
				case f.Underflow:
					bad = fmt.Sprintf("next=%d hint=%d: unsigned underflow", next, hint)
				case nv < 1:
					bad = fmt.Sprintf("next=%d hint=%d: new nextIndex %d < 1", next, hint, nv)
				case next > 1 && nv >= next:
					bad = fmt.Sprintf("next=%d hint=%d: new nextIndex %d does not decrease – the leader would probe the same position for ever", next, hint, nv)
				}
			}
		}
		c.Check(rule, "replicateTo:backoff-strictly-decreases", c.P.InstrPos(s.Instr), "for next in 1..8 and hint in 0..8: 1 <= new, and new < next whenever next > 1; new = "+c.P.D(v), bad == "", pick(bad == "", fmt.Sprintf("holds on %d points", n), bad), n)
	}
	// success paths
	if fn2 := c.Fn(rule, "updateLastAppended"); fn2 != nil {
		for _, s := range c.P.FieldWritesIn(fn2, ni) {
			v, _ := c.P.StoredValue(s.Instr, ni)
			d := c.P.D(v)
			c.Check(rule, "updateLastAppended:nextIndex", c.P.InstrPos(s.Instr), "after a successful append nextIndex = index of the last sent entry + 1", d == "(p2.Entries[(len(p2.Entries) - 1)].Index + 1)", "= "+d, 1)
		}
	}
	if fn3 := c.Fn(rule, "(*Raft).sendLatestSnapshot"); fn3 != nil {
		for _, s := range c.P.FieldWritesIn(fn3, ni) {
			v, _ := c.P.StoredValue(s.Instr, ni)
			d := c.P.D(v)
			c.Check(rule, "sendLatestSnapshot:nextIndex", c.P.InstrPos(s.Instr), "after a successful install nextIndex = snapshot index + 1", strings.HasSuffix(d, ".Index + 1)") && strings.Contains(d, "recv.snapshots.Open("), "= "+d, 1)
		}
	}
	c.WhoMay(rule, "write followerReplication.nextIndex", c.P.FieldWrites(ni), map[string]string{
		"(*Raft).replicateTo":          "back-off on rejection",
		"updateLastAppended":           "advance on success",
		"(*Raft).sendLatestSnapshot":   "advance past an installed snapshot",
		"(*Raft).startStopReplication": "initial value last+1",
	})
	// falling back to a snapshot when the log no longer has the entry
	if fn != nil {
		snaps := c.P.CallsIn(fn, engine.Is("(*Raft).sendLatestSnapshot"))
		r2 := c.Run(&engine.Automaton{Fn: fn, Tracks: []engine.Track{
			engine.PredCond("gone", func(cd engine.Cond) (bool, int) {
				if cd.IsRel && strings.HasPrefix(cd.X, "recv.setupAppendEntries(") && cd.Y == "@ErrLogNotFound" {
					if cd.EdgeOrd(true) == engine.EQ {
						return true, engine.True
					}
					return true, engine.False
				}
				return false, 0
			}),
		}})
		for _, s := range snaps {
			c.RequireAt(r2, rule, "replicateTo:snapshot-fallback", s.Instr, "the snapshot is sent exactly when building the request failed with ErrLogNotFound", func(v engine.View) bool { return v.T("gone") })
		}
		if len(snaps) == 0 {
			c.Bad(rule, "replicateTo:snapshot-fallback", c.P.Pos(fn.Pos()), "replicateTo falls back to sendLatestSnapshot", "no call")
		}
	}
}

// c12R2: after InstallSnapshot(I,T) succeeds the leader's next request has
// prev = (I,T). The follower must be able to accept it.
func c12R2(c *Ctx, rule string) {
	inst := c.Fn(rule, "(*Raft).installSnapshot")
	ae := c.Fn(rule, "(*Raft).appendEntries")
	if inst == nil || ae == nil {
		return
	}
	alignsTail := len(c.P.CallsIn(inst, engine.Is("(*raftState).setLastLog"))) > 0
	consultsSnapshot := false
	engine.EachInstr(ae, func(in ssa.Instruction) {
		if ifi, ok := in.(*ssa.If); ok {
			cd := c.P.CondOf(ifi.Cond)
			if cd.IsRel && (cd.X == "p2.PrevLogEntry" || cd.Y == "p2.PrevLogEntry") && (strings.Contains(cd.X, "getLastSnapshot()") || strings.Contains(cd.Y, "getLastSnapshot()")) {
				consultsSnapshot = true
			}
		}
	})
	// getLastEntry prefers the log tail whenever it is >= the snapshot index
	prefersLog := false
	if gle := c.P.Fn("(*raftState).getLastEntry"); gle != nil {
		engine.EachInstr(gle, func(in ssa.Instruction) {
			if ifi, ok := in.(*ssa.If); ok {
				if s, ok := c.P.CondOf(ifi.Cond).RelOn("recv.lastLogIndex", "recv.lastSnapshotIndex"); ok && s == engine.GT|engine.EQ {
					prefersLog = true
				}
			}
		})
	}
	ok := alignsTail || consultsSnapshot
	found := "the follower aligns its log tail or consults the snapshot position"
	if !ok {
		found = "installSnapshot never updates the cached last-log position, appendEntries compares PrevLogEntry only with getLastEntry()" + pick(prefersLog, " (which prefers a log tail >= the snapshot index)", "") + " or GetLog(prev): a follower holding a stale tail beyond the snapshot index answers Success to InstallSnapshot(I,T) and then rejects prev=(I,T) for ever, so the leader re-sends the same snapshot"
	}
	c.Check(rule, "installSnapshot:snapshot-boundary-accepted-as-previous-entry", c.P.Pos(inst.Pos()),
		"progress after InstallSnapshot: on its success path the cached log tail is brought in line (setLastLog/truncation), or appendEntries' previous-entry check has an arm comparing a.PrevLogEntry/Term with getLastSnapshot()", ok, found, 2)
	// leader side: prev is the snapshot boundary right after an install (C04.R3 checks the pair)
	if sp := c.P.Fn("(*Raft).setPreviousLog"); sp != nil {
		has := false
		engine.EachInstr(sp, func(in ssa.Instruction) {
			if ifi, ok := in.(*ssa.If); ok {
				if _, ok := c.P.CondOf(ifi.Cond).RelOn("(p2 - 1)", "recv.raftState.getLastSnapshot()#0"); ok {
					has = true
				}
			}
		})
		c.Check(rule, "setPreviousLog:snapshot-boundary-case", c.P.Pos(sp.Pos()), "the leader uses the snapshot's (index,term) as previous entry when nextIndex-1 is the snapshot index (no log read needed)", has, pick(has, "case present", "missing"), 1)
	}
}

func c12R4(c *Ctx, rule string) {
	fn := c.Fn(rule, "randomTimeout")
	if fn == nil {
		return
	}
	r := c.Run(&engine.Automaton{Fn: fn, Tracks: []engine.Track{engine.PredRel("zero", "p1", "0", engine.EQ)}})
	for _, ret := range engine.ReturnsOf(fn) {
		v := engine.ReturnValues(ret)[0]
		d := c.P.D(v)
		if d == "nil" {
			c.RequireAt(r, rule, "randomTimeout:nil-only-for-zero", ret, "a nil (never firing) channel only for a zero duration", func(vw engine.View) bool { return vw.T("zero") })
			continue
		}
		call, ok := v.(*ssa.Call)
		if !ok || c.P.CalleeName(call.Common()) != "time.After" {
			c.Bad(rule, "randomTimeout:timer", c.P.InstrPos(ret), "returns time.After(…)", "returns "+d)
			continue
		}
		arg := call.Common().Args[0]
		f := engine.NewFolder(c.P)
		var dur, rnd ssa.Value
		for _, l := range f.Leaves(arg) {
			if c.P.D(l) == "p1" {
				dur = l
			} else {
				rnd = l
			}
		}
		bad := ""
		n := 0
		if dur == nil || rnd == nil {
			bad = "expression " + c.P.D(arg) + " is not a function of the duration and one random value"
		}
		for dd := int64(1); dd <= 8 && bad == ""; dd++ {
			for x := int64(0); x <= 20 && bad == ""; x++ {
				t, err := f.Eval(arg, map[ssa.Value]int64{dur: dd, rnd: x})
				n++
				if err != nil {
					bad = err.Error()
				} else if t < dd || t >= 2*dd {
					bad = fmt.Sprintf("d=%d random=%d gives %d, outside [d, 2d)", dd, x, t)
				}
			}
		}
		if bad == "" && dur != nil && rnd != nil {
			seen := map[int64]bool{}
			for x := int64(0); x <= 40; x++ {
				t, _ := f.Eval(arg, map[ssa.Value]int64{dur: 8, rnd: x})
				seen[t] = true
			}
			spread := len(seen)
			c.Check(rule, "randomTimeout:spread", c.P.InstrPos(ret), "the timer really is randomised: for d=8 the random value reaches every point of [8,16) (colliding candidates would otherwise collide for ever)", spread == 8, fmt.Sprintf("%d distinct timer values for d=8", spread), spread)
		}
		c.RequireAt(r, rule, "randomTimeout:range", ret, "for d in 1..8 and any random value 0..20 the timer is in [d, 2d); timer = "+c.P.D(arg), func(vw engine.View) bool { return bad == "" && vw.F("zero") })
		if bad != "" {
			c.Bad(rule, "randomTimeout:range-fold", c.P.InstrPos(ret), "timer in [d,2d)", bad)
		}
		if rnd != nil {
			c.Check(rule, "randomTimeout:random-source", c.P.InstrPos(ret), "the extra is drawn from math/rand (non-negative)", c.P.D(rnd) == "math/rand.Int63()", "source "+c.P.D(rnd), 1)
		}
	}
	// follower re-arms on expiry
	if ff := c.Fn(rule, "(*Raft).runFollower"); ff != nil {
		sel := loopSelect(c, ff)
		if sel != nil {
			for k, st := range sel.States {
				if st.Dir != types.RecvOnly {
					continue
				}
				d := c.P.D(st.Chan)
				if !strings.Contains(d, "randomTimeout(") {
					continue
				}
				arm := engine.SelectArmEntry(sel, k)
				if arm == nil {
					continue
				}
				r2 := c.Run(&engine.Automaton{Fn: ff, StartBlock: arm, StopAt: func(in ssa.Instruction) bool { return in == ssa.Instruction(sel) }, Tracks: []engine.Track{
					engine.Event("rearmed", callWithArg0(c, "randomTimeout", "recv.config().HeartbeatTimeout")),
				}})
				c.RequireAt(r2, rule, "runFollower:timer-rearmed-on-expiry", sel, "every expiry of the heartbeat timer that keeps the follower in its loop arms a fresh randomised timer", func(v engine.View) bool { return v.Seen("rearmed") })
			}
		}
	}
	// validation keeps the randomised range non-degenerate (C13.R4 checks the relations)
	if vf := c.Fn(rule, "ValidateConfig"); vf != nil {
		rv := c.Run(&engine.Automaton{Fn: vf, Tracks: []engine.Track{
			engine.PredRel("hbTiny", "p1.HeartbeatTimeout", "5000000", engine.LT),
			engine.PredRel("elTiny", "p1.ElectionTimeout", "5000000", engine.LT),
		}})
		for _, ret := range engine.ReturnsOf(vf) {
			if c.P.D(engine.ReturnValues(ret)[0]) == "nil" {
				c.RequireAt(rv, rule, "ValidateConfig:timeouts-at-least-5ms", ret, "HeartbeatTimeout and ElectionTimeout >= 5ms", func(v engine.View) bool { return v.F("hbTiny") && v.F("elTiny") })
			}
		}
	}
}

// c12R6: a successful AppendEntries ends the failure back-off: the failure
// counter that drives the wait at the top of replicateTo is cleared before the
// next batch is prepared, so catch-up proceeds at RPC speed and not at one
// back-off interval per batch.
func c12R6(c *Ctx, rule string) {
	fn := c.Fn(rule, "(*Raft).replicateTo")
	ff := c.Field(rule, "followerReplication", "failures")
	if fn == nil || ff == nil {
		return
	}
	var waitIf ssa.Instruction
	engine.EachInstr(fn, func(in ssa.Instruction) {
		if ifi, ok := in.(*ssa.If); ok {
			cd := c.P.CondOf(ifi.Cond)
			if cd.IsRel && cd.X == "p1.failures" && cd.Y == "0" {
				waitIf = in
			}
		}
	})
	if waitIf == nil {
		c.Bad(rule, "replicateTo:backoff-test", c.P.Pos(fn.Pos()), "a test of s.failures before each attempt", "not found")
		return
	}
	r := c.Run(&engine.Automaton{Fn: fn, Tracks: []engine.Track{
		engine.Event("attempt", func(in ssa.Instruction) bool { return in == waitIf }, "acked", "cleared"),
		engine.Event("acked", c.P.IsCallTo(engine.Is("updateLastAppended"))),
		engine.Event("cleared", func(in ssa.Instruction) bool {
			v, ok := c.P.StoredValue(in, ff)
			return ok && c.P.D(v) == "0"
		}),
	}})
	sites := []ssa.Instruction{waitIf}
	for _, ret := range engine.ReturnsOf(fn) {
		sites = append(sites, ret)
	}
	for i, s := range sites {
		c.RequireAt(r, rule, fmt.Sprintf("replicateTo:success-clears-failures#%d", i+1), s, "after an acknowledged batch (updateLastAppended) the failure counter is reset to 0 before the next attempt or return", func(v engine.View) bool {
			return !v.Seen("acked") || v.Seen("cleared")
		})
	}
	// the wait itself is bounded: backoff(base, failures, limit) with a constant limit
	for _, s := range c.P.CallsIn(fn, engine.Is("backoff")) {
		ok := c.P.Arg(s.Instr, 1) == "p1.failures" && !strings.Contains(c.P.Arg(s.Instr, 2), "p1.")
		c.Check(rule, "replicateTo:backoff-bounded", c.P.InstrPos(s.Instr), "the wait is backoff(base, s.failures, constant limit)", ok, "backoff("+c.P.Arg(s.Instr, 0)+", "+c.P.Arg(s.Instr, 1)+", "+c.P.Arg(s.Instr, 2)+")", 1)
	}
}

// c12R7: two structural conditions of "a reachable follower is caught up".
// (a) startStopReplication re-points an existing replication routine when the
// server's address in the configuration changed (the routine reads s.peer);
// (b) in pipeline mode every send whose arm stays in the loop reports its
// failure into the loop condition, so a dead pipeline is left and replication
// falls back to the standard mode – also on the periodic (idle) arm.
func c12R7(c *Ctx, rule string) {
	if fn := c.Fn(rule, "(*Raft).startStopReplication"); fn != nil {
		pf := c.Field(rule, "followerReplication", "peer")
		srv := "val(range recv.configurations.latest.Servers)"
		if pf != nil {
			var loopIf ssa.Instruction
			engine.EachInstr(fn, func(in ssa.Instruction) {
				if ifi, ok := in.(*ssa.If); ok {
					cd := c.P.CondOf(ifi.Cond)
					if cd.IsRel && cd.X == "idx(range)" && cd.Y == "len(recv.configurations.latest.Servers)" {
						loopIf = in
					}
				}
			})
			r := c.Run(&engine.Automaton{Fn: fn, Tracks: []engine.Track{
				{Name: "iter", If: func(cd engine.Cond, _ *ssa.If) (bool, int) {
					return cd.IsRel && cd.X == "idx(range)" && cd.Y == "len(recv.configurations.latest.Servers)", engine.True
				}, Kills: []string{"moved", "repointed"}},
				engine.PredCond("moved", func(cd engine.Cond) (bool, int) {
					if cd.IsRel && ((strings.HasSuffix(cd.X, ".peer.Address") && cd.Y == srv+".Address") || (strings.HasSuffix(cd.Y, ".peer.Address") && cd.X == srv+".Address")) {
						if isNEc(cd) {
							return true, engine.True
						}
						return true, engine.False
					}
					return false, 0
				}),
				engine.Event("repointed", func(in ssa.Instruction) bool {
					v, ok := c.P.StoredValue(in, pf)
					if !ok || c.P.D(v) != srv {
						return false
					}
					st, isStore := in.(*ssa.Store)
					return isStore && !strings.HasPrefix(c.P.D(st.Addr), "new(followerReplication)")
				}),
			}})
			if loopIf == nil {
				c.Bad(rule, "startStopReplication:server-loop", c.P.Pos(fn.Pos()), "a loop over the latest configuration's servers", "not found")
			} else {
				c.RequireAt(r, rule, "startStopReplication:address-change-repoints-routine", loopIf, "when an existing routine's peer address differs from the configuration's, s.peer is replaced by the configuration's server before the next server is looked at", func(v engine.View) bool {
					return !v.T("moved") || v.Seen("repointed")
				})
				has := false
				engine.EachInstr(fn, func(in ssa.Instruction) {
					if ifi, ok := in.(*ssa.If); ok {
						cd := c.P.CondOf(ifi.Cond)
						if cd.IsRel && (strings.HasSuffix(cd.X, ".peer.Address") || strings.HasSuffix(cd.Y, ".peer.Address")) {
							has = true
						}
					}
				})
				c.Check(rule, "startStopReplication:compares-addresses", c.P.Pos(fn.Pos()), "existing routines are checked for an address change", has, pick(has, "comparison present", "no comparison"), 1)
			}
		}
	}
	if fn := c.Fn(rule, "(*Raft).pipelineReplicate"); fn != nil {
		var ctl *ssa.Phi
		var header *ssa.BasicBlock
		engine.EachInstr(fn, func(in ssa.Instruction) {
			if ifi, ok := in.(*ssa.If); ok {
				v := ifi.Cond
				for {
					if u, ok := v.(*ssa.UnOp); ok && u.Op == token.NOT {
						v = u.X
						continue
					}
					break
				}
				if ph, ok := v.(*ssa.Phi); ok && strings.Contains(c.P.D(ph), "recv.pipelineSend(") {
					ctl, header = ph, ifi.Block()
				}
			}
		})
		if ctl == nil {
			c.Bad(rule, "pipelineReplicate:loop-condition", c.P.Pos(fn.Pos()), "a loop controlled by the outcome of pipelineSend", "not found")
			return
		}
		n := 0
		for _, s := range c.P.CallsIn(fn, engine.Is("(*Raft).pipelineSend")) {
			n++
			feeds := false
			if v, ok := s.Instr.(ssa.Value); ok {
				for _, e := range ctl.Edges {
					if e == v {
						feeds = true
					}
				}
			}
			stays := engine.Reaches(s.Instr.Block(), header)
			// leaving arms (break) may ignore the result
			leaves := true
			for _, su := range s.Instr.Block().Succs {
				if engine.Reaches(su, header) {
					leaves = false
				}
			}
			if len(s.Instr.Block().Succs) == 0 {
				leaves = !stays
			}
			c.Check(rule, "pipelineReplicate:send-failure-ends-pipeline", c.P.InstrPos(s.Instr), "a pipelineSend in an arm that stays in the loop assigns its result to the loop condition (a failed send leaves pipeline mode)", feeds || leaves, pick(feeds, "feeds the loop condition", pick(leaves, "arm leaves the loop", "result dropped, loop continues")), 1)
		}
		if n < 3 {
			c.Bad(rule, "pipelineReplicate:sends", c.P.Pos(fn.Pos()), "at least three pipelineSend calls (trigger, deferred trigger, periodic)", fmt.Sprintf("%d", n))
		}
	}
}
