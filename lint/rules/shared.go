package rules

import (
	"fmt"
	"sort"
	"strings"

	"golang.org/x/tools/go/ssa"

	"verif/lint/engine"
)

// ---------------------------------------------------------------------------
// S-UPTODATE: the vote / pre-vote log comparison, decided over the 3x3
// orderings of (our last term vs candidate's, our last index vs candidate's).
// ---------------------------------------------------------------------------

var ordNames = map[engine.OrdSet]string{engine.LT: "<", engine.EQ: "=", engine.GT: ">"}

// sUpToDate evaluates the ladder of fnName. safety: fresh grants must be
// unreachable for the four orderings in which the candidate's log is behind.
// liveness: fresh grants must be reachable for the five others.
func sUpToDate(c *Ctx, rule, fnName, reqType, respType string, safety, liveness bool) {
	fn := c.Fn(rule, fnName)
	if fn == nil {
		return
	}
	granted := c.Field(rule, respType, "Granted")
	if granted == nil {
		return
	}
	req := c.ParamOfType(fn, "*"+reqType)
	le := c.FirstCall(fn, engine.Is("(*raftState).getLastEntry"))
	if req == "" || le == nil {
		c.Bad(rule, fnName+":ladder-operands", "-", "the ladder compares getLastEntry() with the request's LastLogTerm/LastLogIndex",
			"no call of (*raftState).getLastEntry or no *"+reqType+" parameter in "+fnName)
		return
	}
	base := c.CallDesc(le)
	tA, tB := base+"#1", req+".LastLogTerm"
	iA, iB := base+"#0", req+".LastLogIndex"
	grants := c.StoresOfConst(fn, granted, true)
	if len(grants) == 0 {
		c.Bad(rule, fnName+":grant-sites", "-", "at least one store "+respType+".Granted = true", "none found")
		return
	}
	dup := engine.PredBool("bytesEq", DescHasPrefix("bytes.Equal("))
	for _, ot := range []engine.OrdSet{engine.LT, engine.EQ, engine.GT} {
		for _, oi := range []engine.OrdSet{engine.LT, engine.EQ, engine.GT} {
			good := ot == engine.LT || (ot == engine.EQ && oi != engine.GT)
			if good && !liveness {
				continue
			}
			if !good && !safety {
				continue
			}
			resolved := 0
			a := &engine.Automaton{Fn: fn, Tracks: []engine.Track{dup},
				Oracle: func(ifi *ssa.If, cd engine.Cond) engine.EdgeChoice {
					if ts, ok := cd.RelOn(tA, tB); ok {
						resolved++
						if ot&ts != 0 {
							return engine.TrueOnly
						}
						return engine.FalseOnly
					}
					if ts, ok := cd.RelOn(iA, iB); ok {
						resolved++
						if oi&ts != 0 {
							return engine.TrueOnly
						}
						return engine.FalseOnly
					}
					return engine.Both
				}}
			r := c.Run(a)
			reached := false
			var where ssa.Instruction
			var wv engine.View
			for _, g := range grants {
				for _, v := range r.StatesAt(g.Instr) {
					if !v.T("bytesEq") {
						reached = true
						where, wv = g.Instr, v
					}
				}
			}
			key := fmt.Sprintf("%s:ours-vs-candidate term%s index%s", fnName, ordNames[ot], ordNames[oi])
			pos := c.P.InstrPos(le)
			if good {
				c.Check(rule, key, pos, "a candidate whose log is at least as up to date can be granted (non-duplicate grant reachable)", reached,
					pick(reached, "fresh grant reachable", "fresh grant unreachable for this ordering: the ladder refuses an up-to-date candidate (elections cannot complete)"), r.Visited)
			} else {
				found := "fresh grant unreachable"
				if reached {
					found = "fresh grant reachable at " + c.P.InstrPos(where) + " via " + r.Witness(where, wv)
				}
				c.Check(rule, key, pos, "no non-duplicate grant when our last (term,index) is ahead of the candidate's", !reached, found, r.Visited)
			}
		}
	}
}

func pick(b bool, t, f string) string {
	if b {
		return t
	}
	return f
}

// ---------------------------------------------------------------------------
// effect freedom: no forbidden call reachable through static callees.
// ---------------------------------------------------------------------------

type reachInfo struct {
	fns   int
	calls int
	hits  []string
	sites []engine.Site
}

// reachCalls walks static subject callees (and function literals created in
// visited functions) from root up to depth levels and reports forbidden calls.
func reachCalls(c *Ctx, root *ssa.Function, depth int, forbidden func(callee string) bool, skip func(callee string) bool) reachInfo {
	var ri reachInfo
	type item struct {
		fn    *ssa.Function
		d     int
		chain string
	}
	seen := map[*ssa.Function]bool{root: true}
	q := []item{{root, 0, c.P.Name(root)}}
	for len(q) > 0 {
		it := q[0]
		q = q[1:]
		ri.fns++
		c.FnsTouched[c.P.Name(it.fn)] = true
		engine.EachInstr(it.fn, func(in ssa.Instruction) {
			if mc, ok := in.(*ssa.MakeClosure); ok {
				if f, ok := mc.Fn.(*ssa.Function); ok && !seen[f] {
					seen[f] = true
					q = append(q, item{f, it.d, it.chain + " ⊃ " + c.P.Name(f)})
				}
			}
			cc := engine.CallCommonOf(in)
			if cc == nil {
				return
			}
			ri.calls++
			n := c.P.CalleeName(cc)
			if skip != nil && skip(n) {
				return
			}
			if forbidden(n) {
				ri.hits = append(ri.hits, fmt.Sprintf("%s calls %s at %s", it.chain, n, c.P.InstrPos(in)))
				ri.sites = append(ri.sites, engine.Site{Fn: it.fn, Instr: in, Note: n})
				return
			}
			if f := cc.StaticCallee(); f != nil && it.d < depth {
				if _, subj := c.P.Funcs[c.P.Name(f)]; subj && !seen[f] {
					seen[f] = true
					q = append(q, item{f, it.d + 1, it.chain + " → " + c.P.Name(f)})
				}
			}
		})
	}
	sort.Strings(ri.hits)
	return ri
}

// effectFree records one obligation: nothing forbidden is reachable from root.
func effectFree(c *Ctx, rule, rootName, what string, depth int, forbidden func(string) bool) {
	fn := c.Fn(rule, rootName)
	if fn == nil {
		return
	}
	ri := reachCalls(c, fn, depth, forbidden, nil)
	c.Check(rule, rootName+":no "+what, c.P.Pos(fn.Pos()), rootName+" and its static callees (depth "+fmt.Sprint(depth)+") never "+what,
		len(ri.hits) == 0, pick(len(ri.hits) == 0, fmt.Sprintf("%d functions, %d call sites inspected, none forbidden", ri.fns, ri.calls), strings.Join(ri.hits, "; ")), ri.calls)
}

// stateChanging matches the calls that change term, vote, role, leader or
// contact state or write to a store.
func stateChanging(n string) bool {
	switch n {
	case "(*Raft).setCurrentTerm", "(*raftState).setCurrentTerm", "(*Raft).setState", "(*raftState).setState",
		"(*Raft).persistVote", "(*Raft).setLastContact", "(*Raft).setLeader",
		"(*raftState).setLastLog", "(*raftState).setCommitIndex", "(*raftState).setLastApplied", "(*raftState).setLastSnapshot",
		"(*Raft).setLatestConfiguration", "(*Raft).setCommittedConfiguration":
		return true
	}
	if strings.HasPrefix(n, "iface:StableStore.Set") {
		return true
	}
	if strings.HasPrefix(n, "iface:LogStore.Store") || n == "iface:LogStore.DeleteRange" || n == "iface:CommitTrackingLogStore.StageCommitIndex" {
		return true
	}
	if n == "iface:SnapshotStore.Create" {
		return true
	}
	return false
}

// ---------------------------------------------------------------------------
// S-QUORUM
// ---------------------------------------------------------------------------

// sQuorum: quorumSize counts only voters of the latest configuration and
// returns a strict, attainable majority for every voter count 0..64.
func sQuorum(c *Ctx, rule string) {
	fn := c.Fn(rule, "(*Raft).quorumSize")
	if fn == nil {
		return
	}
	rets := engine.ReturnsOf(fn)
	if len(rets) != 1 || len(rets[0].Results) != 1 {
		c.Bad(rule, "quorumSize:single-return", c.P.Pos(fn.Pos()), "one return of one value", fmt.Sprintf("%d returns", len(rets)))
		return
	}
	res := rets[0].Results[0]
	// the counter: the unique Phi leaf of the returned expression
	var counter *ssa.Phi
	ok := true
	expr := engine.NewFolder(c.P)
	leaves := expr.Leaves(res)
	for _, l := range leaves {
		if ph, isPhi := l.(*ssa.Phi); isPhi && counter == nil {
			counter = ph
		} else {
			ok = false
		}
	}
	if !ok || counter == nil {
		c.Bad(rule, "quorumSize:shape", c.P.InstrPos(rets[0]), "returned expression is a function of exactly one loop counter", "found "+c.P.D(res))
		return
	}
	// counter increments: every BinOp(counter + 1) feeding the phi must sit on
	// an edge guarded by Suffrage == Voter of the ranged server of
	// configurations.latest.Servers
	incOK, incN, diag := counterIncrementsGuarded(c, fn, counter, func(cd engine.Cond) (bool, int) {
		return voterCond(cd, "val(range recv.configurations.latest.Servers).Suffrage")
	})
	c.Check(rule, "quorumSize:counts-voters-only", c.P.Pos(fn.Pos()),
		"the counter is incremented by exactly 1, only under Suffrage == Voter, ranging over configurations.latest.Servers", incOK && incN > 0,
		pick(incOK && incN > 0, fmt.Sprintf("%d increment site(s), all guarded", incN), diag), incN)
	// fold f(v) for v in 0..64
	bad := ""
	n := 0
	for v := int64(0); v <= 64; v++ {
		val, err := expr.Eval(res, map[ssa.Value]int64{counter: v})
		n++
		if err != nil {
			bad = "cannot fold: " + err.Error()
			break
		}
		if !(2*val > v) {
			bad = fmt.Sprintf("voters=%d gives quorum %d: not a strict majority (two disjoint quorums possible)", v, val)
			break
		}
		if v >= 1 && val > v {
			bad = fmt.Sprintf("voters=%d gives quorum %d: unattainable", v, val)
			break
		}
	}
	c.Check(rule, "quorumSize:strict-majority", c.P.InstrPos(rets[0]), "for every voter count v in 0..64: 2*f(v) > v and f(v) <= v (v>=1); f = "+c.P.D(res),
		bad == "", pick(bad == "", fmt.Sprintf("holds for %d values", n), bad), n)
}

// voterCond matches "X.Suffrage == Voter" (True on true edge) or "!= Voter".
func voterCond(cd engine.Cond, lhs string) (bool, int) {
	if s, ok := cd.RelOn(lhs, "Voter"); ok {
		if s == engine.EQ {
			return true, engine.True
		}
		if isNE(s) {
			return true, engine.False
		}
	}
	return false, 0
}

// counterIncrementsGuarded checks every "+1" update of a loop counter phi.
func counterIncrementsGuarded(c *Ctx, fn *ssa.Function, counter *ssa.Phi, guard func(engine.Cond) (bool, int)) (bool, int, string) {
	a := &engine.Automaton{Fn: fn, Tracks: []engine.Track{engine.PredCond("g", guard)}}
	r := c.Run(a)
	n := 0
	for _, e := range counter.Edges {
		switch x := e.(type) {
		case *ssa.Const:
			continue
		case *ssa.BinOp:
			if x.Op.String() != "+" || x.X != ssa.Value(counter) {
				return false, n, "counter updated by " + c.P.D(x)
			}
			if k, ok := x.Y.(*ssa.Const); !ok || k.Value == nil || k.Int64() != 1 {
				return false, n, "counter updated by " + c.P.D(x)
			}
			n++
			ok, _, diag := r.Require(x, func(v engine.View) bool { return v.T("g") })
			if !ok {
				return false, n, "increment at " + c.P.InstrPos(x) + " " + diag
			}
		case *ssa.Phi:
			// nested phi (rotated loop): look one level in
			for _, e2 := range x.Edges {
				if e2 == ssa.Value(counter) {
					continue
				}
				if b, ok := e2.(*ssa.BinOp); ok && b.Op.String() == "+" {
					n++
					ok, _, diag := r.Require(b, func(v engine.View) bool { return v.T("g") })
					if !ok {
						return false, n, "increment at " + c.P.InstrPos(b) + " " + diag
					}
				}
			}
		default:
			return false, n, "counter fed by " + c.P.D(e)
		}
	}
	return true, n, ""
}

// ---------------------------------------------------------------------------
// Generic predicate tracks used by the replication-side rules.
// ---------------------------------------------------------------------------

// predErr tracks "X != nil" where X's descriptor starts with prefix: True when
// the error is non-nil.
func predErr(name, prefix string) engine.Track {
	return engine.PredCond(name, errNotNil(prefix))
}

// predRespSuccess tracks a boolean "<response>.Success".
func predRespSuccess(name string) engine.Track {
	return engine.PredBool(name, func(d string) bool {
		return strings.HasSuffix(d, ".Success") && strings.Contains(d, "Response")
	})
}

// predRespTermNewer tracks "<response>.Term > <request>.Term".
func predRespTermNewer(name string) engine.Track {
	return engine.PredCond(name, func(cd engine.Cond) (bool, int) {
		if !cd.IsRel {
			return false, 0
		}
		isResp := func(s string) bool { return strings.HasSuffix(s, ".Term") && strings.Contains(s, "Response") }
		isReq := func(s string) bool { return strings.HasSuffix(s, ".Term") && strings.Contains(s, "Request") }
		var set engine.OrdSet
		switch {
		case isResp(cd.X) && isReq(cd.Y):
			set = cd.EdgeOrd(true)
		case isResp(cd.Y) && isReq(cd.X):
			set = cd.EdgeOrd(true).Flip()
		default:
			return false, 0
		}
		if set == engine.GT {
			return true, engine.True
		}
		if set == engine.LT|engine.EQ {
			return true, engine.False
		}
		return false, 0
	})
}

// ---------------------------------------------------------------------------
// S-MATCH: who reports follower progress / leadership acknowledgements and
// under which response conditions.
// ---------------------------------------------------------------------------

func sMatch(c *Ctx, rule string) {
	// what pipelineDecode reads as "the follower's answer" is a response object
	// made for this one request: zero (Success=false) until the transport
	// decodes the follower's reply into it. A recycled object still carries the
	// previous reply's Success=true when the exchange fails (round-8 seed C05-O)
	if pf := c.P.Fn("(*Raft).pipelineSend"); pf != nil {
		for _, s := range c.P.CallsIn(pf, engine.Is("iface:AppendPipeline.AppendEntries")) {
			d := c.P.Arg(s.Instr, 1)
			c.Check(rule, "pipelineSend:fresh-response-object", c.P.InstrPos(s.Instr), "each pipelined request gets a freshly allocated AppendEntriesResponse", d == "new(AppendEntriesResponse)", "response argument = "+d, 1)
		}
	}
	// callers of commitment.match
	c.WhoMay(rule, "call (*commitment).match", c.P.CallsEverywhere(engine.Is("(*commitment).match")), map[string]string{
		"(*Raft).dispatchLogs":       "leader counts itself after its own StoreLogs succeeded (S-DURABLE)",
		"updateLastAppended":         "after a successful AppendEntries response",
		"(*Raft).sendLatestSnapshot": "after a successful InstallSnapshot response",
	})
	c.WhoMay(rule, "call updateLastAppended", c.P.CallsEverywhere(engine.Is("updateLastAppended")), map[string]string{
		"(*Raft).replicateTo":    "resp.Success arm",
		"(*Raft).pipelineDecode": "after !resp.Success → return",
	})
	if fn := c.Fn(rule, "(*Raft).replicateTo"); fn != nil {
		r := c.Run(&engine.Automaton{Fn: fn, Tracks: []engine.Track{
			engine.Event("rpc", c.P.IsCallTo(engine.Is("iface:Transport.AppendEntries"))),
			predErr("rpcErr", "recv.trans.AppendEntries("),
			predRespTermNewer("newer"),
			predRespSuccess("success"),
		}})
		for _, s := range c.P.CallsIn(fn, engine.Is("updateLastAppended")) {
			c.RequireAt(r, rule, "replicateTo:updateLastAppended", s.Instr, "AppendEntries returned nil ∧ ¬(resp.Term > req.Term) ∧ resp.Success",
				func(v engine.View) bool { return v.Seen("rpc") && v.F("rpcErr") && v.F("newer") && v.T("success") })
		}
	}
	if fn := c.Fn(rule, "(*Raft).pipelineDecode"); fn != nil {
		r := c.Run(&engine.Automaton{Fn: fn, Tracks: []engine.Track{predRespTermNewer("newer"), predRespSuccess("success")}})
		for _, s := range c.P.CallsIn(fn, engine.Is("updateLastAppended")) {
			c.RequireAt(r, rule, "pipelineDecode:updateLastAppended", s.Instr, "¬(resp.Term > req.Term) ∧ resp.Success on the decoded response; request and response come from the same future",
				func(v engine.View) bool {
					return v.F("newer") && v.T("success") && strings.HasSuffix(c.P.Arg(s.Instr, 1), ".Request()")
				})
		}
	}
	if fn := c.Fn(rule, "(*Raft).sendLatestSnapshot"); fn != nil {
		r := c.Run(&engine.Automaton{Fn: fn, Tracks: []engine.Track{
			engine.Event("rpc", c.P.IsCallTo(engine.Is("iface:Transport.InstallSnapshot"))),
			predErr("rpcErr", "recv.trans.InstallSnapshot("),
			predRespTermNewer("newer"),
			predRespSuccess("success"),
		}})
		for _, s := range c.P.CallsIn(fn, engine.Is("(*commitment).match")) {
			c.RequireAt(r, rule, "sendLatestSnapshot:match", s.Instr, "InstallSnapshot returned nil ∧ ¬(resp.Term > req.Term) ∧ resp.Success; matched index is the snapshot's index",
				func(v engine.View) bool {
					return v.Seen("rpc") && v.F("rpcErr") && v.F("newer") && v.T("success") && strings.HasSuffix(c.P.Arg(s.Instr, 1), ".Index")
				})
		}
	}
	if fn := c.Fn(rule, "updateLastAppended"); fn != nil {
		for _, s := range c.P.CallsIn(fn, engine.Is("(*commitment).match")) {
			a := c.P.Arg(s.Instr, 1)
			ok := strings.HasPrefix(a, "p2.Entries[(len(p2.Entries) - 1)]") && strings.HasSuffix(a, ".Index") && c.P.Arg(s.Instr, 0) == "p1.peer.ID"
			c.Check(rule, "updateLastAppended:match-args", c.P.InstrPos(s.Instr), "match(peer.ID, index of the last entry of the acknowledged request)", ok, "match("+c.P.Arg(s.Instr, 0)+", "+a+")", 1)
		}
	}
}

// sNotify: who votes on verify futures and with which value.
func sNotify(c *Ctx, rule string) {
	sites := c.P.CallsEverywhere(engine.Is("(*followerReplication).notifyAll"))
	c.WhoMay(rule, "call (*followerReplication).notifyAll", sites, map[string]string{
		"updateLastAppended":         "true, only reached after a successful response (S-MATCH)",
		"(*Raft).sendLatestSnapshot": "true, under resp.Success",
		"(*Raft).heartbeat":          "resp.Success of a heartbeat that returned nil",
		"(*Raft).handleStaleTerm":    "false: a newer term was seen",
	})
	for _, s := range sites {
		name := c.P.Name(s.Fn)
		arg := c.P.Arg(s.Instr, 0)
		switch name {
		case "updateLastAppended":
			c.Check(rule, name+":notifyAll-arg", c.P.InstrPos(s.Instr), "notifyAll(true)", arg == "true", "notifyAll("+arg+")", 1)
		case "(*Raft).handleStaleTerm":
			c.Check(rule, name+":notifyAll-arg", c.P.InstrPos(s.Instr), "notifyAll(false)", arg == "false", "notifyAll("+arg+")", 1)
		case "(*Raft).sendLatestSnapshot":
			r := c.Run(&engine.Automaton{Fn: s.Fn, Tracks: []engine.Track{
				predErr("rpcErr", "recv.trans.InstallSnapshot("), predRespTermNewer("newer"), predRespSuccess("success")}})
			c.RequireAt(r, rule, name+":notifyAll(true)", s.Instr, "only under InstallSnapshot nil error ∧ ¬newer term ∧ resp.Success", func(v engine.View) bool {
				return arg == "true" && v.F("rpcErr") && v.F("newer") && v.T("success")
			})
		case "(*Raft).heartbeat":
			r := c.Run(&engine.Automaton{Fn: s.Fn, Tracks: []engine.Track{
				engine.Event("rpc", c.P.IsCallTo(engine.Is("iface:Transport.AppendEntries"))),
				predErr("rpcErr", "recv.trans.AppendEntries(")}})
			c.RequireAt(r, rule, name+":notifyAll(resp.Success)", s.Instr, "argument is the Success field of the response object passed to the AppendEntries call that just returned nil", func(v engine.View) bool {
				return v.Seen("rpc") && v.F("rpcErr") && strings.HasSuffix(arg, "AppendEntriesResponse).Success")
			})
		}
	}
}
