package rules

import (
	"fmt"
	"go/token"
	"sort"
	"strings"

	"golang.org/x/tools/go/ssa"

	"verif/lint/engine"
)

// S-LOCK: the lock discipline of the package, frozen from the pinned tree.
//
// The properties quantify over every interleaving of the server's goroutines.
// The fields below are shared between the main loop, the replication
// routines, the RPC fast path and API callers, and each is declared next to
// the mutex that guards it. The rule: every read or write of a guarded field
// happens while that very object's mutex is held (exclusively for a write), or
// in a function of the explicit "caller holds the lock" / "object not shared
// yet" table. Candidates were discovered by listing all accesses with their
// lock state, each exception was confirmed by reading and is listed with its
// reason.

type lockEntry struct {
	typ    string   // struct type
	fields []string // guarded fields
	mutex  string   // mutex field ("" = embedded sync.Mutex)
	rw     bool     // RWMutex: reads may hold RLock
	// functions whose accesses need no lock of their own, with the reason
	exempt map[string]string
}

func lockTable() []lockEntry {
	return []lockEntry{
		{typ: "Raft", fields: []string{"leaderAddr", "leaderID"}, mutex: "leaderLock", rw: true},
		{typ: "Raft", fields: []string{"lastContact"}, mutex: "lastContactLock", rw: true},
		{typ: "Raft", fields: []string{"observers"}, mutex: "observersLock", rw: true,
			exempt: map[string]string{"NewRaft": "the Raft object is not shared before NewRaft returns"}},
		{typ: "raftState", fields: []string{"lastSnapshotIndex", "lastSnapshotTerm", "lastLogIndex", "lastLogTerm"}, mutex: "lastLock"},
		// startIndex is written by the constructor only and read without the lock
		// (configurationChangeChIfStable): immutable after construction, checked below
		{typ: "commitment", fields: []string{"matchIndexes", "commitIndex"}, mutex: "", exempt: map[string]string{
			"newCommitment":             "constructor: the tracker is not shared yet",
			"(*commitment).recalculate": "documented: must be called with the lock held (callers: match, setConfiguration – both hold it)",
		}},
		{typ: "followerReplication", fields: []string{"notify"}, mutex: "notifyLock", exempt: map[string]string{
			"(*Raft).startStopReplication": "initialises a replication state that is not shared yet",
		}},
		{typ: "followerReplication", fields: []string{"peer"}, mutex: "peerLock", rw: true, exempt: map[string]string{
			"(*Raft).startStopReplication": "initialises a replication state that is not shared yet (the update branch takes the lock – checked as a guarded access)",
			"(*Raft).handleStaleTerm":      "upstream reads s.peer for one log line without the lock; the value feeds no decision (recorded as an observation, not a property violation)",
			"(*Raft).pipelineSend":         "as handleStaleTerm: log line only",
		}},
		{typ: "followerReplication", fields: []string{"lastContact"}, mutex: "lastContactLock", rw: true, exempt: map[string]string{
			"(*Raft).startStopReplication": "initialises a replication state that is not shared yet",
		}},
		{typ: "verifyFuture", fields: []string{"votes", "notifyCh"}, mutex: "voteLock", exempt: map[string]string{
			"(*Raft).verifyLeader": "sets quorumSize/votes/notifyCh before the future is registered with any replication routine (single owner: the main loop)",
			"(*Raft).leaderLoop":   "reads votes of a future that vote() handed back on verifyCh after clearing notifyCh (no further writer)",
		}},
		{typ: "LogCache", fields: []string{"cache"}, mutex: "l", rw: true, exempt: map[string]string{
			"NewLogCache": "constructor",
		}},
		{typ: "NetworkTransport", fields: []string{"connPool"}, mutex: "connPoolLock", exempt: map[string]string{
			"NewNetworkTransportWithConfig": "constructor",
		}},
		{typ: "NetworkTransport", fields: []string{"heartbeatFn"}, mutex: "heartbeatFnLock"},
		{typ: "NetworkTransport", fields: []string{"shutdown"}, mutex: "shutdownLock"},
	}
}

type lockAccess struct {
	fn    *ssa.Function
	in    ssa.Instruction
	base  string
	write bool
	field string
}

func sLockDiscipline(c *Ctx, rule string, only ...string) {
	want := map[string]bool{}
	for _, o := range only {
		want[o] = true
	}
	for _, e := range lockTable() {
		if len(want) > 0 && !want[e.typ] {
			continue
		}
		fieldSet := map[string]bool{}
		for _, f := range e.fields {
			if c.P.LookupField(e.typ, f) == nil {
				c.Bad(rule, "anchor:"+e.typ+"."+f, "-", "guarded field exists", "not found")
			}
			fieldSet[f] = true
		}
		if e.mutex != "" && c.P.LookupField(e.typ, e.mutex) == nil {
			c.Bad(rule, "anchor:"+e.typ+"."+e.mutex, "-", "mutex field exists", "not found")
			continue
		}
		// collect accesses
		var accs []lockAccess
		for _, fn := range c.P.AllFuncs() {
			engine.EachInstr(fn, func(in ssa.Instruction) {
				fa, ok := in.(*ssa.FieldAddr)
				if !ok {
					return
				}
				fv := engine.FieldOf(fa)
				if fv == nil {
					return
				}
				owner := c.P.TypeStr(fa.X.Type())
				owner = strings.TrimPrefix(owner, "*")
				name := ""
				for f := range fieldSet {
					if lf := c.P.LookupField(e.typ, f); lf == fv {
						name = f
					}
				}
				if name == "" || owner != e.typ {
					return
				}
				if fa.Referrers() == nil {
					return
				}
				for _, ref := range *fa.Referrers() {
					switch x := ref.(type) {
					case *ssa.Store:
						if x.Addr == ssa.Value(fa) {
							accs = append(accs, lockAccess{fn, ref, c.P.D(fa.X), true, name})
						}
					case *ssa.UnOp:
						if x.Op == token.MUL {
							accs = append(accs, lockAccess{fn, ref, c.P.D(fa.X), false, name})
						}
					case *ssa.MapUpdate:
						accs = append(accs, lockAccess{fn, ref, c.P.D(fa.X), true, name})
					}
				}
			})
		}
		if len(accs) == 0 {
			c.Bad(rule, "lock:"+e.typ+"."+strings.Join(e.fields, ","), "-", "accesses of the guarded fields", "none found")
			continue
		}
		// group by function and base
		type key struct {
			fn   *ssa.Function
			base string
		}
		groups := map[key][]lockAccess{}
		var keys []key
		for _, a := range accs {
			k := key{a.fn, a.base}
			if _, ok := groups[k]; !ok {
				keys = append(keys, k)
			}
			groups[k] = append(groups[k], a)
		}
		sort.Slice(keys, func(i, j int) bool {
			if c.P.Name(keys[i].fn) != c.P.Name(keys[j].fn) {
				return c.P.Name(keys[i].fn) < c.P.Name(keys[j].fn)
			}
			return keys[i].base < keys[j].base
		})
		usedExempt := map[string]bool{}
		for _, k := range keys {
			fname := c.P.Name(k.fn)
			root := fname
			if i := strings.Index(root, "$"); i >= 0 {
				root = root[:i]
			}
			if why, ok := e.exempt[fname]; ok {
				usedExempt[fname] = true
				c.Ok(rule, fmt.Sprintf("lock:%s.%s in %s", e.typ, strings.Join(e.fields, ","), fname), c.P.Pos(k.fn.Pos()), "exempt: "+why, fmt.Sprintf("%d access(es)", len(groups[k])), len(groups[k]))
				continue
			}
			mu := k.base + "." + e.mutex
			if e.mutex == "" {
				mu = k.base + ".Mutex"
			}
			isOp := func(names ...string) func(ssa.Instruction) bool {
				return func(in ssa.Instruction) bool {
					if _, isDefer := in.(*ssa.Defer); isDefer {
						return false
					}
					cc := engine.CallCommonOf(in)
					if cc == nil {
						return false
					}
					n := c.P.CalleeName(cc)
					hit := false
					for _, x := range names {
						if n == x {
							hit = true
						}
					}
					return hit && c.P.D(engine.RecvValue(in)) == mu
				}
			}
			r := c.Run(&engine.Automaton{Fn: k.fn, Tracks: []engine.Track{
				engine.Event("wlocked", isOp("(*sync.Mutex).Lock", "(*sync.RWMutex).Lock"), "unlocked"),
				engine.Event("rlocked", isOp("(*sync.RWMutex).RLock"), "runlocked"),
				engine.Event("unlocked", isOp("(*sync.Mutex).Unlock", "(*sync.RWMutex).Unlock"), "wlocked"),
				engine.Event("runlocked", isOp("(*sync.RWMutex).RUnlock"), "rlocked"),
			}})
			for _, a := range groups[k] {
				aa := a
				kind := pick(aa.write, "write", "read")
				c.RequireAt(r, rule, fmt.Sprintf("lock:%s.%s %s in %s", e.typ, aa.field, kind, fname), aa.in,
					fmt.Sprintf("%s of %s.%s happens with %s held%s", kind, aa.base, aa.field, mu, pick(aa.write || !e.rw, " exclusively", " (read or write lock)")),
					func(v engine.View) bool {
						if v.Seen("wlocked") {
							return true
						}
						return !aa.write && e.rw && v.Seen("rlocked")
					})
			}
		}
		for f := range e.exempt {
			if !usedExempt[f] {
				c.Bad(rule, fmt.Sprintf("lock:%s exemption %s", e.typ, f), "-", "the exempted function still accesses the field (a stale exemption is removed, not kept)", "no access found")
			}
		}
	}
}

// sAtomicOnly: fields that several goroutines read and write without a mutex
// are touched through sync/atomic only – a plain load or store next to atomic
// ones is a data race (and, for the 64-bit counters, a torn value on 32-bit
// platforms). Immutable-after-construction fields are written by their
// constructor only.
func sAtomicOnly(c *Ctx, rule string) {
	for _, e := range []struct{ typ, field string }{
		{"raftState", "currentTerm"}, {"raftState", "commitIndex"}, {"raftState", "lastApplied"}, {"raftState", "state"},
		{"followerReplication", "nextIndex"}, {"leaderState", "leadershipTransferInProgress"},
	} {
		fv := c.P.LookupField(e.typ, e.field)
		if fv == nil {
			c.Bad(rule, "anchor:"+e.typ+"."+e.field, "-", "field exists", "not found")
			continue
		}
		n, bad := 0, ""
		for _, fn := range c.P.AllFuncs() {
			engine.EachInstr(fn, func(in ssa.Instruction) {
				fa, ok := in.(*ssa.FieldAddr)
				if !ok || engine.FieldOf(fa) != fv || fa.Referrers() == nil {
					return
				}
				refs := append([]ssa.Instruction{}, *fa.Referrers()...)
				// a pointer conversion of the address ((*uint32)(&r.state)) is followed
				for i := 0; i < len(refs); i++ {
					if ct, ok := refs[i].(*ssa.ChangeType); ok && ct.Referrers() != nil {
						refs = append(refs, *ct.Referrers()...)
					}
					if cv, ok := refs[i].(*ssa.Convert); ok && cv.Referrers() != nil {
						refs = append(refs, *cv.Referrers()...)
					}
				}
				for _, ref := range refs {
					if _, ok := ref.(*ssa.ChangeType); ok {
						continue
					}
					if _, ok := ref.(*ssa.Convert); ok {
						continue
					}
					n++
					okRef := false
					if cc := engine.CallCommonOf(ref); cc != nil {
						if strings.HasPrefix(c.P.CalleeName(cc), "sync/atomic.") {
							okRef = true
						}
					}
					// the single writer may read its own last value plainly
					if u, isLoad := ref.(*ssa.UnOp); isLoad && u.Op == token.MUL && e.field == "nextIndex" && c.P.Name(fn) == "(*Raft).replicateTo" {
						okRef = true
					}
					if _, isFA := ref.(*ssa.FieldAddr); isFA {
						okRef = true // address of a sub-field (atomic.Value etc.)
					}
					// composite-literal initialisation of an object that is not shared yet
					if st, isSt := ref.(*ssa.Store); isSt && strings.HasPrefix(c.P.D(st.Addr), "new(") {
						okRef = true
					}
					if !okRef {
						bad = fmt.Sprintf("%s at %s in %s", strings.TrimSpace(fmt.Sprintf("%T", ref)), c.P.InstrPos(ref), c.P.Name(fn))
					}
				}
			})
		}
		c.Check(rule, "atomic-only:"+e.typ+"."+e.field, "-", "every access goes through sync/atomic (or initialises an object that is not shared yet)", bad == "" && n > 0, pick(bad == "", fmt.Sprintf("%d accesses, all atomic", n), "plain access: "+bad), n)
	}
	// immutable after construction
	if fv := c.P.LookupField("commitment", "startIndex"); fv != nil {
		c.WhoMay(rule, "write commitment.startIndex", c.P.FieldWrites(fv), map[string]string{"newCommitment": "constructor; read without the lock afterwards"})
	}
}
