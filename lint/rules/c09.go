package rules

import (
	"fmt"
	"strings"

	"golang.org/x/tools/go/ssa"

	"verif/lint/engine"
)

func init() {
	register(&Property{
		ID:          "C09",
		Explanation: "Decided for all paths: a verifyFuture is answered nil only on the leaderLoop arm where votes >= quorumSize (quorumSize != 0), or directly when the voter quorum is 1; quorumSize is the voter-majority of the latest configuration (folded for 0..64 voters); votes starts at 1 and is incremented only by vote(true); vote() notifies at most once; notifyAll(true) is called only after a successful AppendEntries/InstallSnapshot response, notifyAll(false) only on a newer term; the future is registered only with replication routines of voters; notifyAll hands the waiting set over before voting; the set a request may vote for must be captured before the request is sent (R7 – violated at all four request sites on the pinned tree: known findings, reproduced).",
		NotDecided:  "wall-clock freshness beyond the structural send-after-registration condition.",
		RuleText:    "C09.R1 writer tables of votes/quorumSize; R2 guard of respond(nil); R3 guard of the registration map store; R4 notifyAll callers and arguments; R5 single notification in vote(); R6 take-before-vote in notifyAll; R7 capture-before-send at the request sites.",
		Run:         c09,
	})
}

func c09(c *Ctx) {
	// R1 writers
	if f := c.Field("R1", "verifyFuture", "votes"); f != nil {
		ws := c.P.FieldWrites(f)
		c.WhoMay("R1", "write verifyFuture.votes", ws, map[string]string{
			"(*Raft).verifyLeader": "initialised to 1 (the leader itself)",
			"(*verifyFuture).vote": "incremented on a positive acknowledgement",
		})
		for _, s := range ws {
			v, _ := c.P.StoredValue(s.Instr, f)
			d := c.P.D(v)
			switch c.P.Name(s.Fn) {
			case "(*Raft).verifyLeader":
				c.Check("R1", "verifyLeader:votes-init", c.P.InstrPos(s.Instr), "votes = 1", d == "1", "votes = "+d, 1)
			case "(*verifyFuture).vote":
				r := c.Run(&engine.Automaton{Fn: s.Fn, Tracks: []engine.Track{engine.PredBool("leader", DescIs("p1"))}})
				c.RequireAt(r, "R1", "vote:increment-only-on-ack", s.Instr, "votes = votes + 1, only when the acknowledgement is positive", func(v engine.View) bool {
					return v.T("leader") && d == "(recv.votes + 1)"
				})
			}
		}
	}
	if f := c.Field("R1", "verifyFuture", "quorumSize"); f != nil {
		ws := c.P.FieldWrites(f)
		c.WhoMay("R1", "write verifyFuture.quorumSize", ws, map[string]string{"(*Raft).verifyLeader": "from quorumSize()"})
		for _, s := range ws {
			v, _ := c.P.StoredValue(s.Instr, f)
			c.Check("R1", "verifyLeader:quorumSize-source", c.P.InstrPos(s.Instr), "quorumSize = r.quorumSize()", c.P.D(v) == "recv.quorumSize()", "= "+c.P.D(v), 1)
		}
	}
	sQuorum(c, "R1/S-QUORUM")

	// R2 success only with quorum
	respondNil := func(in ssa.Instruction) bool {
		cc := engine.CallCommonOf(in)
		return cc != nil && c.P.CalleeName(cc) == "(*deferError).respond" && c.P.Arg(in, 0) == "nil" && strings.Contains(c.P.D(engine.RecvValue(in)), "verifyCh")
	}
	if fn := c.Fn("R2", "(*Raft).leaderLoop"); fn != nil {
		v := "<-recv.verifyCh"
		r := c.Run(&engine.Automaton{Fn: fn, Tracks: []engine.Track{
			engine.PredRel("fresh", v+".quorumSize", "0", engine.EQ),
			engine.PredRel("short", v+".votes", v+".quorumSize", engine.LT),
		}})
		n := 0
		engine.EachInstr(fn, func(in ssa.Instruction) {
			if respondNil(in) {
				n++
				c.RequireAt(r, "R2", "leaderLoop:verify-respond(nil)", in, "quorumSize != 0 ∧ ¬(votes < quorumSize)", func(v engine.View) bool { return v.F("fresh") && v.F("short") })
			}
		})
		if n == 0 {
			c.Bad("R2", "leaderLoop:verify-respond(nil)", c.P.Pos(fn.Pos()), "the success answer of a verify future is in leaderLoop's verifyCh arm", "no respond(nil) on a value received from verifyCh")
		}
		// the short arm steps down and answers ErrNotLeader
		for _, s := range c.P.CallsIn(fn, engine.Is("(*deferError).respond")) {
			if c.P.Arg(s.Instr, 0) == "@ErrNotLeader" && strings.Contains(c.P.D(engine.RecvValue(s.Instr)), "verifyCh") {
				r2 := c.Run(&engine.Automaton{Fn: fn, StartAfter: nil, Tracks: []engine.Track{
					engine.PredRel("short", v+".votes", v+".quorumSize", engine.LT),
					engine.Event("stepdown", func(in ssa.Instruction) bool {
						cc := engine.CallCommonOf(in)
						return cc != nil && c.P.CalleeName(cc) == "(*Raft).setState" && c.P.Arg(in, 0) == "Follower"
					}, "short"),
				}})
				_ = r2
				c.RequireAt(r, "R2", "leaderLoop:verify-negative", s.Instr, "ErrNotLeader only on the votes < quorumSize arm", func(v engine.View) bool { return v.F("fresh") && v.T("short") })
				// that arm also gives up leadership and forgets the future
				if arms := recvArms(c, fn, "recv.verifyCh"); len(arms) == 1 {
					if ab := engine.SelectArmEntry(arms[0].sel, arms[0].k); ab != nil {
						sel := arms[0].sel
						ra := c.Run(&engine.Automaton{Fn: fn, StartBlock: ab, StopAt: func(in ssa.Instruction) bool { return in == ssa.Instruction(sel) }, Tracks: []engine.Track{
							engine.PredRel("short", v+".votes", v+".quorumSize", engine.LT),
							engine.PredRel("fresh", v+".quorumSize", "0", engine.EQ),
							engine.Event("stepdown", callWithArg0(c, "(*Raft).setState", "Follower")),
							engine.Event("forgot", func(in ssa.Instruction) bool {
								cc := engine.CallCommonOf(in)
								return cc != nil && c.P.CalleeName(cc) == "builtin:delete" && c.P.Arg(in, 0) == "recv.leaderState.notify" && c.P.Arg(in, 1) == v
							}),
							engine.Event("answered", func(in ssa.Instruction) bool {
								cc := engine.CallCommonOf(in)
								return cc != nil && c.P.CalleeName(cc) == "(*deferError).respond" && strings.HasPrefix(c.P.D(engine.RecvValue(in)), v)
							}),
							engine.Event("started", callWithArg0(c, "(*Raft).verifyLeader", v)),
						}})
						c.RequireAt(ra, "R2", "leaderLoop:verify-arm-outcomes", sel, "per verify future: fresh → verifyLeader; votes < quorum → step down, forget, answer; otherwise forget and answer", func(vw engine.View) bool {
							switch {
							case vw.T("fresh"):
								return vw.Seen("started") && !vw.Seen("answered")
							case vw.T("short"):
								return vw.Seen("stepdown") && vw.Seen("forgot") && vw.Seen("answered")
							default:
								return vw.F("short") && vw.Seen("forgot") && vw.Seen("answered") && !vw.Seen("stepdown")
							}
						})
					}
				}
			}
		}
	}
	if fn := c.Fn("R2", "(*Raft).verifyLeader"); fn != nil {
		r := c.Run(&engine.Automaton{Fn: fn, Tracks: []engine.Track{predSingleVoterQuorum()}})
		for _, s := range c.P.CallsIn(fn, engine.Is("(*deferError).respond")) {
			c.RequireAt(r, "R2", "verifyLeader:direct-answer", s.Instr, "answered directly (nil) only when the voter quorum is 1", func(v engine.View) bool {
				return v.T("single") && c.P.Arg(s.Instr, 0) == "nil"
			})
		}
		c09VerifyParked(c, "R2", fn, r)
		// R3 registration voter-only
		notify := c.Field("R3", "followerReplication", "notify")
		if notify != nil {
			var regs []engine.Site
			for _, s := range c.P.MapWrites(notify) {
				if _, ok := s.Instr.(*ssa.MapUpdate); ok {
					regs = append(regs, s)
				}
			}
			c.WhoMay("R3", "register a verify future with a replication routine (followerReplication.notify[v] = ...)", regs, map[string]string{
				"(*Raft).verifyLeader": "the only registration site",
			})
			r3 := c.Run(&engine.Automaton{Fn: fn, Tracks: []engine.Track{
				engine.PredCond("voter", func(cd engine.Cond) (bool, int) {
					if !cd.IsRel && strings.HasPrefix(cd.B, "hasVote(recv.configurations.latest, ") {
						if cd.Neg {
							return true, engine.False
						}
						return true, engine.True
					}
					// only the suffrage recorded in the latest configuration counts; a
					// value cached elsewhere (followerReplication.peer) may be stale
					isCfgSuffrage := func(d string) bool {
						return strings.HasSuffix(d, ".Suffrage") && strings.Contains(d, "recv.configurations.latest")
					}
					if cd.IsRel && (isCfgSuffrage(cd.X) || isCfgSuffrage(cd.Y)) {
						lhs := cd.X
						if isCfgSuffrage(cd.Y) {
							lhs = cd.Y
						}
						return voterCond(cd, lhs)
					}
					return false, 0
				}),
			}})
			for _, s := range regs {
				if s.Fn != fn {
					continue
				}
				c.RequireAt(r3, "R3", "verifyLeader:register-voters-only", s.Instr,
					"the replication target is a voter of the latest configuration (hasVote(latest, id) or Suffrage == Voter) on every path to the registration, so acknowledgements of non-voters cannot be counted",
					func(v engine.View) bool { return v.T("voter") })
			}
		}
	}
	// R6: one acknowledgement per registration – notifyAll takes the waiting
	// set away from the follower before voting, so a later response of the
	// same follower cannot vote on the same future again
	if fn := c.Fn("R6", "(*followerReplication).notifyAll"); fn != nil {
		notify := c.P.LookupField("followerReplication", "notify")
		var rng *ssa.Range
		engine.EachInstr(fn, func(in ssa.Instruction) {
			if r, ok := in.(*ssa.Range); ok {
				rng = r
			}
		})
		var loadIn ssa.Instruction
		if rng != nil {
			if u, ok := rng.X.(*ssa.UnOp); ok {
				loadIn = u
			}
		}
		r := c.Run(&engine.Automaton{Fn: fn, Tracks: []engine.Track{
			engine.Event("locked", c.P.IsCallTo(engine.Is("(*sync.Mutex).Lock"))),
			engine.Event("taken", func(in ssa.Instruction) bool { return loadIn != nil && in == loadIn }),
			engine.Event("reset", func(in ssa.Instruction) bool {
				if notify == nil {
					return false
				}
				v, ok := c.P.StoredValue(in, notify)
				return ok && strings.HasPrefix(c.P.D(v), "make(map[*verifyFuture]struct{}")
			}),
		}})
		votes := c.P.CallsIn(fn, engine.Is("(*verifyFuture).vote"))
		if len(votes) == 0 || loadIn == nil {
			c.Bad("R6", "notifyAll:votes", c.P.Pos(fn.Pos()), "notifyAll ranges over the waiting set and calls vote on each future", "not recognised")
		}
		okSrc := loadIn != nil && c.P.D(loadIn.(ssa.Value)) == "recv.notify"
		for _, s := range votes {
			c.RequireAt(r, "R6", "notifyAll:waiting-set-taken-before-voting", s.Instr, "the futures voted on are the follower's waiting set read under the lock, and that set was replaced by a fresh empty map before any vote is cast (each registration yields at most one acknowledgement per follower)", func(v engine.View) bool {
				return okSrc && v.Seen("locked") && v.Seen("taken") && v.Seen("reset") && c.P.Arg(s.Instr, 0) == "p1" && strings.HasPrefix(c.P.D(engine.RecvValue(s.Instr)), "key(range recv.notify)")
			})
		}
		if notify != nil {
			c.WhoMay("R6", "write followerReplication.notify", c.P.FieldWrites(notify), map[string]string{
				"(*Raft).startStopReplication":     "fresh map when replication to the peer starts",
				"(*followerReplication).notifyAll": "waiting set handed over and replaced",
			})
			var dels, adds []engine.Site
			for _, s := range c.P.MapWrites(notify) {
				if _, ok := s.Instr.(*ssa.MapUpdate); ok {
					adds = append(adds, s)
				} else {
					dels = append(dels, s)
				}
			}
			c.WhoMay("R6", "delete from followerReplication.notify", dels, map[string]string{"(*followerReplication).cleanNotify": "future resolved by the leader loop"})
			_ = adds
		}
	}
	c09R7(c, "R7")
	// R4
	sNotify(c, "R4")
	sMatch(c, "R4/S-MATCH")
	// R5 single notification
	if fn := c.Fn("R5", "(*verifyFuture).vote"); fn != nil {
		nc := c.Field("R5", "verifyFuture", "notifyCh")
		r := c.Run(&engine.Automaton{Fn: fn, Tracks: []engine.Track{
			engine.PredRel("armed", "recv.notifyCh", "nil", engine.LT|engine.GT),
			engine.Event("locked", c.P.IsCallTo(engine.Is("(*sync.Mutex).Lock"))),
			engine.Event("sent", func(in ssa.Instruction) bool { _, ok := in.(*ssa.Send); return ok }),
			engine.Event("cleared", func(in ssa.Instruction) bool {
				if nc == nil {
					return false
				}
				v, ok := c.P.StoredValue(in, nc)
				return ok && c.P.D(v) == "nil"
			}),
			engine.PredRel("quorum", "recv.votes", "recv.quorumSize", engine.GT|engine.EQ),
			engine.PredBool("leader", DescIs("p1")),
		}})
		n := 0
		engine.EachInstr(fn, func(in ssa.Instruction) {
			if _, ok := in.(*ssa.Send); ok {
				n++
				c.RequireAt(r, "R5", fmt.Sprintf("vote:send#%d", n), in, "under the lock, channel still armed, not sent before on this path, and (negative ack ∨ votes >= quorumSize)", func(v engine.View) bool {
					return v.Seen("locked") && v.T("armed") && !v.Seen("sent") && (v.F("leader") || v.T("quorum"))
				})
			}
		})
		for _, ret := range engine.ReturnsOf(fn) {
			c.RequireAt(r, "R5", "vote:disarm-after-send", ret, "every path that sent also set notifyCh = nil (at most one notification per future)", func(v engine.View) bool {
				return !v.Seen("sent") || v.Seen("cleared")
			})
		}
		if n == 0 {
			c.Bad("R5", "vote:send", c.P.Pos(fn.Pos()), "vote() notifies through notifyCh", "no send found")
		}
	}
	sLockDiscipline(c, "R8/S-LOCK", "followerReplication", "verifyFuture")
}

// c09R7: an acknowledgement may only count for a verify future if the request
// it answers was sent after the future was registered ("after the call was
// made"). Structurally: in every replication function that turns a response
// into positive votes, the set of futures that will be voted on is captured
// BEFORE the request is sent. Voting on whatever is registered when the
// response arrives attributes responses of older requests to newer calls.
func c09R7(c *Ctx, rule string) {
	isCapture := func(in ssa.Instruction) bool {
		v, ok := in.(ssa.Value)
		if !ok {
			return false
		}
		if _, isCall := in.(*ssa.Call); !isCall {
			return false
		}
		ts := c.P.TypeStr(v.Type())
		return strings.Contains(ts, "verifyFuture") && (strings.HasPrefix(ts, "map[") || strings.HasPrefix(ts, "[]"))
	}
	type site struct{ fn, rpc, what string }
	for _, s := range []site{
		{"(*Raft).heartbeat", "iface:Transport.AppendEntries", "heartbeat"},
		{"(*Raft).replicateTo", "iface:Transport.AppendEntries", "appendEntries"},
		{"(*Raft).sendLatestSnapshot", "iface:Transport.InstallSnapshot", "installSnapshot"},
		{"(*Raft).pipelineSend", "iface:AppendPipeline.AppendEntries", "pipelined appendEntries"},
	} {
		fn := c.Fn(rule, s.fn)
		if fn == nil {
			continue
		}
		resets := []string{"captured"}
		r := c.Run(&engine.Automaton{Fn: fn, Tracks: []engine.Track{
			engine.Event("loop", isSelect, resets...),
			engine.Event("captured", isCapture),
		}})
		for _, rpc := range c.P.CallsIn(fn, engine.Is(s.rpc)) {
			c.RequireAt(r, rule, s.fn+":acks-attributed-to-requests-sent-after-registration", rpc.Instr,
				"before the "+s.what+" request is sent, the replication routine captures the set of verify futures this request may vote for; futures registered later are only voted on by later requests (VerifyLeader then means: a majority answered a request sent after the call)",
				func(v engine.View) bool { return v.Seen("captured") })
		}
	}
}

// c09VerifyParked: a verify future that is NOT answered on the spot is left to
// the followers' acknowledgements, which can only complete it when somebody
// else's vote is needed: the fall-through (registration with the replication
// routines) is reached only with quorumSize != 1. With a sole voter (plus
// non-voters, which are never asked) nobody would ever answer it.
func c09VerifyParked(c *Ctx, rule string, fn *ssa.Function, r *engine.Result) {
	notify := c.P.LookupField("followerReplication", "notify")
	n := 0
	if notify != nil {
		for _, s := range c.P.MapWrites(notify) {
			if s.Fn != fn {
				continue
			}
			if _, ok := s.Instr.(*ssa.MapUpdate); !ok {
				continue
			}
			n++
			c.RequireAt(r, rule, "verifyLeader:parked-only-when-others-must-vote", s.Instr, "the future is handed to the replication routines only when the voter quorum is not 1 (a sole voter answers on the spot; nobody else would)", func(v engine.View) bool { return v.F("single") })
		}
	}
	for i, ret := range engine.RawReturnsOf(fn) {
		c.RequireAt(r, rule, fmt.Sprintf("verifyLeader:return#%d-answered-or-parked", i+1), ret, "verifyLeader returns either having answered (quorum 1) or with quorum != 1 established", func(v engine.View) bool { return !v.Unseen("single") })
	}
	if n == 0 {
		c.Bad(rule, "verifyLeader:registration", c.P.Pos(fn.Pos()), "a registration of the future with the replication routines", "none found")
	}
}

// c09R2Verify exposes the verifyLeader half of R2 to other properties (C17:
// a parked future that nobody will answer never resolves).
func c09R2Verify(c *Ctx, rule string) {
	if fn := c.Fn(rule, "(*Raft).verifyLeader"); fn != nil {
		r := c.Run(&engine.Automaton{Fn: fn, Tracks: []engine.Track{predSingleVoterQuorum()}})
		for _, s := range c.P.CallsIn(fn, engine.Is("(*deferError).respond")) {
			c.RequireAt(r, rule, "verifyLeader:direct-answer", s.Instr, "answered directly (nil) only when the voter quorum is 1", func(v engine.View) bool {
				return v.T("single") && c.P.Arg(s.Instr, 0) == "nil"
			})
		}
		c09VerifyParked(c, rule, fn, r)
	}
}

// predSingleVoterQuorum: "the voter quorum is 1", tested on the future's
// field or on the value it was just given (R1 pins that the field is written
// from quorumSize() in verifyLeader).
func predSingleVoterQuorum() engine.Track {
	a := engine.PredRel("single", "p1.quorumSize", "1", engine.EQ)
	b := engine.PredRel("single", "recv.quorumSize()", "1", engine.EQ)
	return engine.Track{Name: "single", If: func(cd engine.Cond, ifi *ssa.If) (bool, int) {
		if m, on := a.If(cd, ifi); m {
			return m, on
		}
		return b.If(cd, ifi)
	}}
}
