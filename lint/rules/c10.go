package rules

import (
	"fmt"
	"go/types"
	"strings"

	"golang.org/x/tools/go/ssa"

	"verif/lint/engine"
)

func init() {
	register(&Property{
		ID:          "C10",
		Explanation: "Decided for all paths of start-up: NewRaft reads the persisted term and last log, installs them, restores the newest usable snapshot, optionally replays the committed prefix, and replays configuration entries in that order, each error returned, all before the first goroutine starts; restoreSnapshot sets applied/snapshot position and both configurations from the very snapshot it restored and fails when snapshots exist but none restores; the configuration scan starts no later than snapshotIndex+1 for every start-up state (folded), so every configuration entry above the snapshot reaches the configuration tracker; the committed-prefix replay is clamped to the last index; the commit index is staged only immediately before a log append in the same function; no blocking send to the FSM goroutine's queue is reachable from NewRaft before that goroutine is started.",
		NotDecided:  "equality of the rebuilt FSM content with the pre-crash FSM; behaviour of the stores themselves across a crash.",
		RuleText:    "C10.R1 must-precede chain in NewRaft; R2 effect/argument rule in restoreSnapshot; R3 folded lower bound of the scan; R4 call-graph reachability of fsmMutateCh sends from NewRaft; R5 stage-then-store adjacency and clamp; R6 = C06.R6.",
		Run:         c10,
	})
}

type chainEv struct {
	name  string
	match func(in ssa.Instruction) bool
	// errPrefix: descriptor prefix of the call whose error result must have
	// been tested nil before the next event ("" = returns no error)
	errPrefix string
}

func c10(c *Ctx) {
	c10R1(c, "R1")
	c10R2(c, "R2")
	c10R3(c, "R3")
	c10R4(c, "R4")
	c10R5(c, "R5")
	c06R6(c, "R6")
	c11R1(c, "R7/C11.R1")
	sConfigClone(c, "R7/S-CFGCLONE")
	sConfigCodec(c, "R8/S-CFGCODEC")
	sState(c, "R7/S-STATE")
	c10R9(c, "R9")
	sCommitCoversConfig(c, "R10/S-COMMITCFG")
	c02R1(c, "R11/C02.R1")
	c02R2(c, "R11/C02.R2")
	// what a restart finds: the newest durable snapshot is complete and carries
	// the committed configuration of its index
	sInstallDurable(c, "R12/S-DURABLE")
	c11R4(c, "R12/C11.R4")
	// what a restart finds as the newest snapshot after a user Restore: stamped
	// with the current term, so that no older local snapshot sorts before it
	c20CreateStamp(c, "R13/C20.R4")
	// round 8: the reaper removes only snapshots beyond the newest `retain`
	// of the metadata-sorted listing (a reaped newest snapshot leaves a restart
	// with an older one and a compacted hole), and the vote check of a
	// restarted server reads the persisted vote record (S-VOTEID)
	c15R4(c, "R14/C15.R4")
	sVoteIdentity(c, "R14/S-VOTEID")
}

func c10R1(c *Ctx, rule string) {
	fn := c.Fn(rule, "NewRaft")
	if fn == nil {
		return
	}
	call := func(m func(string) bool, arg0 string) func(ssa.Instruction) bool {
		return func(in ssa.Instruction) bool {
			cc := engine.CallCommonOf(in)
			if cc == nil || !m(c.P.CalleeName(cc)) {
				return false
			}
			return arg0 == "" || c.P.Arg(in, 0) == arg0
		}
	}
	isGo := func(which string) func(ssa.Instruction) bool {
		return func(in ssa.Instruction) bool {
			cc := engine.CallCommonOf(in)
			return cc != nil && c.P.CalleeName(cc) == "(*raftState).goFunc" && strings.Contains(c.P.Arg(in, 0), which)
		}
	}
	evs := []chainEv{
		{"validate-config", call(engine.Is("ValidateConfig"), ""), "ValidateConfig("},
		{"read-term", call(engine.Is("iface:StableStore.GetUint64"), "@keyCurrentTerm"), ""},
		{"read-last-index", call(engine.Is("iface:LogStore.LastIndex"), ""), ""},
		{"install-term", call(engine.Is("(*Raft).setCurrentTerm"), ""), ""},
		{"install-last-log", call(engine.Is("(*raftState).setLastLog"), ""), ""},
		{"restore-snapshot", call(engine.Is("(*Raft).restoreSnapshot"), ""), "new(Raft).restoreSnapshot("},
		{"replay-committed-logs", call(engine.Is("(*Raft).restoreFromCommittedLogs"), ""), "new(Raft).restoreFromCommittedLogs("},
		{"heartbeat-handler", call(engine.Is("iface:Transport.SetHeartbeatHandler"), ""), ""},
		{"go-run", isGo("(*Raft).run$bound"), ""},
		{"go-runFSM", isGo("(*Raft).runFSM$bound"), ""},
		{"go-runSnapshots", isGo("(*Raft).runSnapshots$bound"), ""},
	}
	var tracks []engine.Track
	for _, e := range evs {
		tracks = append(tracks, engine.Event(e.name, e.match))
		if e.errPrefix != "" {
			tracks = append(tracks, predErr(e.name+":err", e.errPrefix))
		}
	}
	// reading the last log entry when the log is non-empty, error returned
	tracks = append(tracks,
		engine.PredRel("nonEmpty", "p3.LastIndex()#0", "0", engine.GT),
		engine.Event("read-last-entry", call(engine.Is("iface:LogStore.GetLog"), "p3.LastIndex()#0")),
		predErr("read-last-entry:err", "p3.GetLog(p3.LastIndex()#0"),
		engine.PredRel("lastIndexErr", "p3.LastIndex()#1", "nil", engine.LT|engine.GT),
		engine.Event("scan", call(engine.Is("(*Raft).processConfigurationLogEntry"), "")),
		predErr("scan:err", "new(Raft).processConfigurationLogEntry("),
	)
	r := c.Run(&engine.Automaton{Fn: fn, Tracks: tracks})
	site := func(m func(ssa.Instruction) bool) []ssa.Instruction {
		var out []ssa.Instruction
		engine.EachInstr(fn, func(in ssa.Instruction) {
			if m(in) {
				out = append(out, in)
			}
		})
		return out
	}
	for i, e := range evs {
		ss := site(e.match)
		if len(ss) == 0 {
			c.Bad(rule, "NewRaft:"+e.name, c.P.Pos(fn.Pos()), "start-up step "+e.name+" exists in NewRaft", "not found (anchor gone)")
			continue
		}
		if i == 0 {
			continue
		}
		for _, s := range ss {
			prev := evs[:i]
			c.RequireAt(r, rule, "NewRaft:"+e.name+"-after-predecessors", s, fmt.Sprintf("every earlier start-up step (%d of them, last: %s) was executed and its error, if any, tested nil", i, evs[i-1].name),
				func(v engine.View) bool {
					for _, pe := range prev {
						if !v.Seen(pe.name) {
							return false
						}
						if pe.errPrefix != "" && !v.F(pe.name+":err") {
							return false
						}
					}
					return true
				})
		}
	}
	for _, s := range site(evs[4].match) { // setLastLog
		ok := c.P.Arg(s, 0) == "var(Log)#1.Index" || strings.HasSuffix(c.P.Arg(s, 0), ".Index")
		c.RequireAt(r, rule, "NewRaft:last-log-from-store", s, "setLastLog gets Index/Term of the entry read at LastIndex(): LastIndex error returned, entry read (error returned) whenever LastIndex > 0",
			func(v engine.View) bool {
				return ok && v.F("lastIndexErr") && (v.F("nonEmpty") || (v.Seen("read-last-entry") && v.F("read-last-entry:err")))
			})
	}
	// every goroutine start also after a completed scan (scan errors returned)
	for _, e := range evs[8:] {
		for _, s := range site(e.match) {
			c.RequireAt(r, rule, "NewRaft:"+e.name+"-after-scan", s, "configuration scan finished (no processConfigurationLogEntry error pending) before the goroutine starts",
				func(v engine.View) bool { return !v.T("scan:err") })
		}
	}
}

func c10R2(c *Ctx, rule string) {
	fn := c.Fn(rule, "(*Raft).restoreSnapshot")
	if fn == nil {
		return
	}
	snap := "val(range recv.snapshots.List()#0)"
	r := c.Run(&engine.Automaton{Fn: fn, Tracks: []engine.Track{
		engine.PredBool("restored", DescIs("recv.tryRestoreSingleSnapshot("+snap+")")),
		engine.Event("applied", func(in ssa.Instruction) bool {
			cc := engine.CallCommonOf(in)
			return cc != nil && c.P.CalleeName(cc) == "(*raftState).setLastApplied" && c.P.Arg(in, 0) == snap+".Index"
		}),
		engine.Event("snappos", func(in ssa.Instruction) bool {
			cc := engine.CallCommonOf(in)
			return cc != nil && c.P.CalleeName(cc) == "(*raftState).setLastSnapshot" && c.P.Arg(in, 0) == snap+".Index" && c.P.Arg(in, 1) == snap+".Term"
		}),
		engine.Event("committedCfg", func(in ssa.Instruction) bool {
			cc := engine.CallCommonOf(in)
			return cc != nil && c.P.CalleeName(cc) == "(*Raft).setCommittedConfiguration" && strings.Contains(c.P.Arg(in, 0), snap+".Configuration") && strings.Contains(c.P.Arg(in, 1), snap+".ConfigurationIndex")
		}),
		engine.Event("latestCfg", func(in ssa.Instruction) bool {
			cc := engine.CallCommonOf(in)
			return cc != nil && c.P.CalleeName(cc) == "(*Raft).setLatestConfiguration" && strings.Contains(c.P.Arg(in, 0), snap+".Configuration") && strings.Contains(c.P.Arg(in, 1), snap+".ConfigurationIndex")
		}),
		engine.PredRel("haveSnaps", "len(recv.snapshots.List()#0)", "0", engine.GT),
		engine.PredRel("listErr", "recv.snapshots.List()#1", "nil", engine.LT|engine.GT),
	}})
	for _, name := range []string{"(*raftState).setLastApplied", "(*raftState).setLastSnapshot", "(*Raft).setCommittedConfiguration", "(*Raft).setLatestConfiguration"} {
		ss := c.P.CallsIn(fn, engine.Is(name))
		if len(ss) == 0 {
			c.Bad(rule, "restoreSnapshot:"+name, c.P.Pos(fn.Pos()), "restoreSnapshot calls "+name, "no such call")
		}
		for _, s := range ss {
			c.RequireAt(r, rule, "restoreSnapshot:"+name+":only-after-successful-restore", s.Instr, "tryRestoreSingleSnapshot of this very snapshot returned true", func(v engine.View) bool { return v.T("restored") })
		}
	}
	nilRets, errRets := 0, 0
	for _, ret := range engine.ReturnsOf(fn) {
		if len(ret.Results) != 1 {
			continue
		}
		if c.P.D(engine.ReturnValues(ret)[0]) == "nil" {
			nilRets++
			c.RequireAt(r, rule, "restoreSnapshot:return-nil", ret, "returns nil only when a snapshot was restored and all four positions were set from it (index/term/configuration arguments are that snapshot's fields), or when there are no snapshots",
				func(v engine.View) bool {
					full := v.T("restored") && v.Seen("applied") && v.Seen("snappos") && v.Seen("committedCfg") && v.Seen("latestCfg")
					none := v.F("haveSnaps") && !v.T("restored")
					return v.F("listErr") && (full || none)
				})
		} else {
			errRets++
		}
	}
	c.Check(rule, "restoreSnapshot:returns", c.P.Pos(fn.Pos()), "has nil and error returns", nilRets >= 1 && errRets >= 2, fmt.Sprintf("%d nil returns, %d error returns", nilRets, errRets), 1)
	// tryRestoreSingleSnapshot: true only after a successful FSM restore (or the explicit opt-out)
	if tf := c.Fn(rule, "(*Raft).tryRestoreSingleSnapshot"); tf != nil {
		rr := c.Run(&engine.Automaton{Fn: tf, Tracks: []engine.Track{
			engine.PredBool("optout", DescHasPrefix("recv.config().NoSnapshotRestoreOnStart")),
			engine.Event("restore", c.P.IsCallTo(engine.Is("fsmRestoreAndMeasure"))),
			predErr("restoreErr", "fsmRestoreAndMeasure("),
			predErr("openErr", "recv.snapshots.Open("),
		}})
		for _, ret := range engine.ReturnsOf(tf) {
			if len(ret.Results) == 1 && c.P.D(engine.ReturnValues(ret)[0]) == "true" {
				c.RequireAt(rr, rule, "tryRestoreSingleSnapshot:return-true", ret, "true only when NoSnapshotRestoreOnStart, or Open and the FSM restore both returned nil",
					func(v engine.View) bool {
						return v.T("optout") || (v.Seen("restore") && v.F("restoreErr") && v.F("openErr"))
					})
			}
		}
	}
}

// c10R3: the configuration scan must cover every index above the restored
// snapshot.
func c10R3(c *Ctx, rule string) {
	fn := c.Fn(rule, "NewRaft")
	if fn == nil {
		return
	}
	scans := c.P.CallsIn(fn, engine.Is("(*Raft).processConfigurationLogEntry"))
	if len(scans) == 0 {
		c.Bad(rule, "NewRaft:config-scan", c.P.Pos(fn.Pos()), "NewRaft feeds log entries to processConfigurationLogEntry", "no such call")
		return
	}
	// the entry passed is filled by LogStore.GetLog(index, &entry): find that
	// call and its index operand (a loop phi)
	entry := c.P.Arg(scans[0].Instr, 0)
	var idx *ssa.Phi
	var getLog ssa.Instruction
	for _, s := range c.P.CallsIn(fn, engine.Is("iface:LogStore.GetLog")) {
		if c.P.Arg(s.Instr, 1) == entry {
			getLog = s.Instr
			if ph, ok := engine.ArgValue(s.Instr, 0).(*ssa.Phi); ok {
				idx = ph
			}
		}
	}
	if idx == nil {
		c.Bad(rule, "NewRaft:config-scan-loop", c.P.InstrPos(scans[0].Instr), "the scanned entry is read with GetLog(index, &entry) in a counting loop", "cannot recognise the loop index")
		return
	}
	// initial value = the phi edge that is not an increment of the phi itself
	var init ssa.Value
	stepOK := true
	for _, e := range idx.Edges {
		if b, ok := e.(*ssa.BinOp); ok && b.X == ssa.Value(idx) {
			if k, ok := b.Y.(*ssa.Const); !ok || b.Op.String() != "+" || k.Int64() != 1 {
				stepOK = false
			}
			continue
		}
		init = e
	}
	c.Check(rule, "NewRaft:config-scan-step", c.P.InstrPos(getLog), "the scan index advances by exactly 1 (no entry skipped)", stepOK && init != nil, "index = "+c.P.D(idx), 1)
	if init == nil {
		return
	}
	// upper bound: the loop continues while index <= lastLog.Index
	upperOK := false
	engine.EachInstr(fn, func(in ssa.Instruction) {
		if ifi, ok := in.(*ssa.If); ok {
			cd := c.P.CondOf(ifi.Cond)
			if cd.IsRel && cd.YV == ssa.Value(idx) {
				cd = cd.Flipped()
			}
			if cd.IsRel && cd.XV == ssa.Value(idx) && cd.EdgeOrd(true) == engine.LT|engine.EQ && strings.HasSuffix(cd.Y, ".Index") {
				upperOK = true
			}
		}
	})
	c.Check(rule, "NewRaft:config-scan-upper", c.P.InstrPos(getLog), "the scan runs while index <= lastLog.Index", upperOK, pick(upperOK, "bound found", "no such loop condition"), 1)
	// fold the lower bound over a small domain: must be <= snapshotIndex+1
	f := engine.NewFolder(c.P)
	leaves := f.Leaves(init)
	var snapLeaf ssa.Value
	var others []ssa.Value
	for _, l := range leaves {
		if strings.HasSuffix(c.P.D(l), "getLastSnapshot()#0") {
			snapLeaf = l
		} else {
			others = append(others, l)
		}
	}
	escape := false
	if rf := c.P.Fn("(*Raft).restoreFromCommittedLogs"); rf != nil {
		ri := reachCalls(c, rf, 3, func(n string) bool { return n == "(*Raft).processConfigurationLogEntry" }, nil)
		escape = len(ri.hits) > 0
	}
	if snapLeaf == nil {
		c.Bad(rule, "NewRaft:config-scan-lower", c.P.InstrPos(getLog), "the scan's lower bound is computed from the restored snapshot index", "lower bound "+c.P.D(init)+" does not use getLastSnapshot()")
		return
	}
	bad := ""
	low := false
	n := 0
	var rec func(i int, env map[ssa.Value]int64)
	rec = func(i int, env map[ssa.Value]int64) {
		if bad != "" {
			return
		}
		if i == len(others) {
			for s := int64(0); s <= 4; s++ {
				env[snapLeaf] = s
				v, err := f.Eval(init, env)
				n++
				if err != nil {
					bad = "cannot fold " + c.P.D(init) + ": " + err.Error()
					return
				}
				if v < s+1 {
					bad = fmt.Sprintf("with snapshotIndex=%d the scan starts at %d: entries at or below the snapshot index may have been compacted away or – after a user Restore – never existed; GetLog fails and NewRaft panics", s, v)
					low = true
					return
				}
				if v > s+1 {
					var parts []string
					for _, o := range others {
						parts = append(parts, fmt.Sprintf("%s=%d", c.P.D(o), env[o]))
					}
					bad = fmt.Sprintf("with snapshotIndex=%d, %s the scan starts at %d: configuration entries in (%d,%d) never reach the configuration tracker", s, strings.Join(parts, ", "), v, s, v)
					return
				}
			}
			return
		}
		for x := int64(0); x <= 4; x++ {
			env[others[i]] = x
			rec(i+1, env)
		}
	}
	rec(0, map[ssa.Value]int64{})
	ok := bad == "" || (escape && !low)
	found := fmt.Sprintf("lower bound %s = snapshotIndex+1 on all %d points", c.P.D(init), n)
	if low {
		found = bad
	} else if bad != "" && escape {
		found = "lower bound may exceed snapshotIndex+1, but restoreFromCommittedLogs feeds the entries it consumes to processConfigurationLogEntry"
	} else if bad != "" {
		found = bad + " (and nothing reachable from restoreFromCommittedLogs calls processConfigurationLogEntry)"
	}
	c.Check(rule, "NewRaft:config-scan-lower", c.P.InstrPos(getLog),
		"for every start-up state the scan starts at or below snapshotIndex+1 (folded over leaves in 0..4), or the committed-log replay itself updates the configuration tracker", ok, found, n)
}

// startupReach lists functions reachable from root through direct calls
// (static callees and directly invoked function literals), without following
// function values handed to goFunc/go.
func startupReach(c *Ctx, root *ssa.Function, depth int) map[*ssa.Function]string {
	out := map[*ssa.Function]string{root: c.P.Name(root)}
	type item struct {
		fn *ssa.Function
		d  int
	}
	q := []item{{root, 0}}
	for len(q) > 0 {
		it := q[0]
		q = q[1:]
		if it.d >= depth {
			continue
		}
		engine.EachInstr(it.fn, func(in ssa.Instruction) {
			if _, isGo := in.(*ssa.Go); isGo {
				return
			}
			cc := engine.CallCommonOf(in)
			if cc == nil {
				return
			}
			f := cc.StaticCallee()
			if f == nil {
				return
			}
			if _, subj := c.P.Funcs[c.P.Name(f)]; !subj {
				return
			}
			if _, seen := out[f]; !seen {
				out[f] = out[it.fn] + " → " + c.P.Name(f)
				q = append(q, item{f, it.d + 1})
			}
		})
	}
	return out
}

func c10R4(c *Ctx, rule string) {
	fn := c.Fn(rule, "NewRaft")
	ch := c.Field(rule, "Raft", "fsmMutateCh")
	if fn == nil || ch == nil {
		return
	}
	reach := startupReach(c, fn, 6)
	nSends := 0
	for f, chain := range reach {
		c.FnsTouched[c.P.Name(f)] = true
		for _, op := range c.P.ChanOps(f) {
			if !op.IsSend || engine.ChanField(op.Chan) != ch {
				continue
			}
			nSends++
			if op.HasDefault {
				continue // non-blocking
			}
			c.Bad(rule, "pre-consumer send on fsmMutateCh in "+c.P.Name(f), c.P.InstrPos(op.Instr),
				"no blocking send on fsmMutateCh is reachable from NewRaft before goFunc(runFSM) starts the only receiver",
				"reachable: "+chain+" sends on the 128-slot fsmMutateCh; with more than 128 batches to replay NewRaft blocks for ever (the only other select case is shutdownCh)")
		}
	}
	c.Check(rule, "NewRaft:start-up call graph", c.P.Pos(fn.Pos()), "the start-up call graph was enumerated", len(reach) > 10, fmt.Sprintf("%d functions reachable from NewRaft through direct calls, %d sends on fsmMutateCh among them", len(reach), nSends), len(reach))
	// the receiver is started by NewRaft
	recvOK := false
	if rf := c.P.Fn("(*Raft).runFSM"); rf != nil {
		for _, op := range c.P.ChanOps(rf) {
			if !op.IsSend && engine.ChanField(op.Chan) == ch {
				recvOK = true
			}
		}
	}
	c.Check(rule, "runFSM:receives fsmMutateCh", "-", "runFSM is the receiver of fsmMutateCh", recvOK, pick(recvOK, "receive found", "no receive"), 1)
}

func c10R5(c *Ctx, rule string) {
	sites := c.P.CallsEverywhere(engine.Is("(*Raft).tryStageCommitIndex"))
	c.WhoMay(rule, "call (*Raft).tryStageCommitIndex", sites, map[string]string{
		"(*Raft).dispatchLogs":  "leader: stage current commit index with the append",
		"(*Raft).appendEntries": "follower: stage min(leaderCommit, last new index) with the append",
	})
	if th := c.Fn(rule, "(*Raft).tryStageCommitIndex"); th != nil {
		for _, s := range c.P.CallsIn(th, engine.Is("iface:CommitTrackingLogStore.StageCommitIndex")) {
			a := c.P.Arg(s.Instr, 0)
			c.Check(rule, "tryStageCommitIndex:passes-its-argument", c.P.InstrPos(s.Instr), "the helper stages exactly the value its caller computed", a == "p1", "stages "+a, 1)
		}
	}
	c.WhoMay(rule, "call CommitTrackingLogStore.StageCommitIndex", c.P.CallsEverywhere(engine.Is("iface:CommitTrackingLogStore.StageCommitIndex")), map[string]string{
		"(*Raft).tryStageCommitIndex": "the only staging site",
	})
	isStoreWrite := func(n string) bool {
		return n == "iface:LogStore.StoreLogs" || n == "iface:LogStore.StoreLog"
	}
	for _, s := range sites {
		name := c.P.Name(s.Fn)
		r := c.Run(&engine.Automaton{Fn: s.Fn, StartAfter: s.Instr, Tracks: []engine.Track{
			engine.Event("store", c.P.IsCallTo(isStoreWrite)),
			engine.Event("otherStoreEffect", c.P.IsCallTo(func(n string) bool {
				return n == "iface:LogStore.DeleteRange" || strings.HasPrefix(n, "iface:StableStore.Set") || n == "(*Raft).tryStageCommitIndex"
			})),
		}})
		for _, st := range c.P.CallsIn(s.Fn, isStoreWrite) {
			if r.Reached(st.Instr) {
				c.RequireAt(r, rule, name+":stage-then-store-adjacent", st.Instr, "between staging the commit index and the log append no other store effect happens", func(v engine.View) bool { return !v.Seen("otherStoreEffect") })
			}
		}
		for _, ret := range engine.ReturnsOf(s.Fn) {
			if r.Reached(ret) {
				c.RequireAt(r, rule, name+":stage-always-followed-by-store", ret, "every path from the staging call to a return performs the log append (the staged index only becomes durable together with an append)",
					func(v engine.View) bool { return v.Seen("store") })
			}
		}
	}
	// follower stages min(leaderCommit, last new index)
	if fn := c.P.Fn("(*Raft).appendEntries"); fn != nil {
		for _, s := range c.P.CallsIn(fn, engine.Is("(*Raft).tryStageCommitIndex")) {
			a := c.P.Arg(s.Instr, 0)
			ok := strings.HasPrefix(a, "min(p2.LeaderCommitIndex, ") && strings.HasSuffix(a, ".Index)")
			c.Check(rule, "appendEntries:staged-value", c.P.InstrPos(s.Instr), "staged value is min(LeaderCommitIndex, index of the last entry being appended)", ok, "staged "+a, 1)
		}
	}
	if fn := c.P.Fn("(*Raft).dispatchLogs"); fn != nil {
		for _, s := range c.P.CallsIn(fn, engine.Is("(*Raft).tryStageCommitIndex")) {
			a := c.P.Arg(s.Instr, 0)
			c.Check(rule, "dispatchLogs:staged-value", c.P.InstrPos(s.Instr), "staged value is the current commit index", a == "recv.raftState.getCommitIndex()", "staged "+a, 1)
		}
	}
	// replay clamp
	if fn := c.Fn(rule, "(*Raft).restoreFromCommittedLogs"); fn != nil {
		commit := "recv.logs.(CommitTrackingLogStore)#0.GetCommitIndex()#0"
		last := "recv.logs.LastIndex()#0"
		r := c.Run(&engine.Automaton{Fn: fn, Tracks: []engine.Track{
			engine.PredRel("beyond", commit, last, engine.GT),
			engine.PredRel("commitErr", "recv.logs.(CommitTrackingLogStore)#0.GetCommitIndex()#1", "nil", engine.LT|engine.GT),
			engine.PredRel("lastErr", "recv.logs.LastIndex()#1", "nil", engine.LT|engine.GT),
		}})
		for _, callee := range []string{"(*raftState).setCommitIndex", "(*Raft).processLogs"} {
			for _, s := range c.P.CallsIn(fn, engine.Is(callee)) {
				v := engine.ArgValue(s.Instr, 0)
				ok, diag := clampedBy(c, r, v, commit, last, "beyond")
				c.Check(rule, "restoreFromCommittedLogs:"+callee+":clamped", c.P.InstrPos(s.Instr), "the replay bound is the staged commit index clamped to LastIndex() (never beyond the log), both read without error", ok, diag, 2)
				c.RequireAt(r, rule, "restoreFromCommittedLogs:"+callee+":reads-checked", s.Instr, "GetCommitIndex and LastIndex errors returned", func(v engine.View) bool { return v.F("commitErr") && v.F("lastErr") })
			}
		}
	}
}

// clampedBy checks that value v is either `hi`, or `x` on edges where the
// track tooBig (x > hi) was last evaluated false.
func clampedBy(c *Ctx, r *engine.Result, v ssa.Value, x, hi, tooBig string) (bool, string) {
	ph, ok := v.(*ssa.Phi)
	if !ok {
		d := c.P.D(v)
		if d == "min("+x+", "+hi+")" || d == "min("+hi+", "+x+")" || d == hi {
			return true, "value " + d
		}
		return false, "value " + d + " is not clamped"
	}
	blk := ph.Block()
	for i, e := range ph.Edges {
		d := c.P.D(e)
		switch d {
		case hi:
			continue
		case x:
			pred := blk.Preds[i]
			term := pred.Instrs[len(pred.Instrs)-1]
			// states leaving pred towards blk
			for _, st := range r.StatesAt(term) {
				if _, isIf := term.(*ssa.If); isIf {
					// the edge's own polarity is applied after the terminator;
					// evaluate by which successor index blk is
					cd := c.P.CondOf(term.(*ssa.If).Cond)
					if set, ok := cd.RelOn(x, hi); ok {
						trueEdge := pred.Succs[0] == blk
						es := set
						if !trueEdge {
							es = engine.AnyOrd &^ set
						}
						if es&engine.GT != 0 {
							return false, "unclamped value " + x + " flows in on an edge where it may exceed " + hi
						}
						continue
					}
				}
				if !st.F(tooBig) {
					return false, "unclamped value " + x + " flows in although " + x + " > " + hi + " was not excluded"
				}
			}
		default:
			return false, "unexpected value " + d
		}
	}
	return true, "phi of {" + x + " when ≤, " + hi + " otherwise}"
}

var _ = types.Universe

// c10R9: RecoverCluster (the operator's recovery path) rebuilds the FSM from
// the newest usable snapshot plus every later log entry, writes a snapshot at
// the position of the newest of the two carrying the given configuration, and
// removes the log only after that snapshot is durable.
func c10R9(c *Ctx, rule string) {
	fn := c.Fn(rule, "RecoverCluster")
	if fn == nil {
		return
	}
	var create ssa.Instruction
	for _, s := range c.P.CallsIn(fn, engine.Is("iface:SnapshotStore.Create")) {
		create = s.Instr
	}
	if create == nil {
		c.Bad(rule, "RecoverCluster:create", c.P.Pos(fn.Pos()), "a SnapshotStore.Create call", "none")
		return
	}
	sink := c.CallDesc(create)
	idx, term := c.P.Arg(create, 1), c.P.Arg(create, 2)
	const snapIdx, entryIdx = "val(range p5.List()#0).Index", "var(Log).Index"
	okPos := strings.Contains(idx, snapIdx) && strings.Contains(idx, entryIdx) && strings.ReplaceAll(idx, ".Index", ".Term") == term
	// structure: the value is the replay loop's own running variable – a phi at
	// the loop test with exactly two sources: the restored snapshot's position
	// and the position of the entry read in the iteration (unconditionally)
	posPhi := func(v ssa.Value, field string) bool {
		ph, ok := v.(*ssa.Phi)
		if !ok || len(ph.Edges) != 2 {
			return false
		}
		hasLoopTest := false
		for _, in := range ph.Block().Instrs {
			if ifi, ok := in.(*ssa.If); ok {
				cd := c.P.CondOf(ifi.Cond)
				if cd.IsRel && (cd.Y == "p3.LastIndex()#0" || cd.X == "p3.LastIndex()#0") {
					hasLoopTest = true
				}
			}
		}
		snap, entry := false, false
		for _, e := range ph.Edges {
			if _, isPhi := e.(*ssa.Phi); isPhi {
				if c.P.D(e) == "phi(0 | val(range p5.List()#0)."+field+")" {
					snap = true
				}
				continue
			}
			if c.P.D(e) == "var(Log)."+field {
				entry = true
			}
		}
		return hasLoopTest && snap && entry
	}
	okPos = okPos && posPhi(engine.ArgValue(create, 1), "Index") && posPhi(engine.ArgValue(create, 2), "Term")
	c.Check(rule, "RecoverCluster:snapshot-position", c.P.InstrPos(create), "the recovery snapshot is taken at (index, term) of the last replayed log entry, or of the restored snapshot when no later entry exists – never below what the server had already recorded", okPos, "Create(_, "+idx+", "+term+", …)", 1)
	okCfg := c.P.Arg(create, 3) == "p7" && c.P.Arg(create, 4) == "1" && c.P.Arg(create, 5) == "p6"
	c.Check(rule, "RecoverCluster:snapshot-configuration", c.P.InstrPos(create), "the snapshot carries the configuration passed by the operator (configuration index 1)", okCfg, "Create(…, "+c.P.Arg(create, 3)+", "+c.P.Arg(create, 4)+", "+c.P.Arg(create, 5)+")", 1)
	r := c.Run(&engine.Automaton{Fn: fn, Tracks: []engine.Track{
		engine.PredBool("hasState", DescIs("HasExistingState(p3, p4, p5)#0")),
		predErr("stateErr", "HasExistingState(p3, p4, p5)#1"),
		predErr("lastErr", "p3.LastIndex()#1"),
		engine.Event("created", func(in ssa.Instruction) bool { return in == create }),
		predErr("createErr", sink+"#1"),
		engine.Event("persisted", func(in ssa.Instruction) bool {
			cc := engine.CallCommonOf(in)
			return cc != nil && c.P.CalleeName(cc) == "iface:FSMSnapshot.Persist" && c.P.Arg(in, 0) == sink+"#0"
		}),
		engine.PredCond("persistErr", func(cd engine.Cond) (bool, int) {
			if cd.IsRel && strings.Contains(cd.X, ".Persist(") && cd.Y == "nil" {
				if isNEc(cd) {
					return true, engine.True
				}
				return true, engine.False
			}
			return false, 0
		}),
		engine.Event("closed", func(in ssa.Instruction) bool {
			cc := engine.CallCommonOf(in)
			return cc != nil && c.P.CalleeName(cc) == "iface:io.Closer.Close" && c.P.D(engine.RecvValue(in)) == sink+"#0"
		}),
		predErr("closeErr", sink+"#0.Close()"),
		engine.Event("compacted", c.P.IsCallTo(engine.Is("iface:LogStore.DeleteRange"))),
		predErr("compactErr", "p3.DeleteRange("),
	}})
	c.RequireAt(r, rule, "RecoverCluster:needs-existing-state", create, "recovery proceeds only when HasExistingState reported state without error, and the last log index was read without error", func(v engine.View) bool {
		return v.T("hasState") && v.F("stateErr") && v.F("lastErr")
	})
	n := 0
	for _, s := range c.P.CallsIn(fn, engine.Is("iface:LogStore.DeleteRange")) {
		n++
		okArgs := c.P.Arg(s.Instr, 0) == "p3.FirstIndex()#0" && c.P.Arg(s.Instr, 1) == "p3.LastIndex()#0"
		c.RequireAt(r, rule, "RecoverCluster:log-removed-only-after-durable-snapshot", s.Instr, "the whole log (first..last) is deleted only after the recovery snapshot was created, persisted and closed without error", func(v engine.View) bool {
			return okArgs && v.Seen("created") && v.F("createErr") && v.Seen("persisted") && v.F("persistErr") && v.Seen("closed") && v.F("closeErr")
		})
	}
	if n != 1 {
		c.Bad(rule, "RecoverCluster:compaction", c.P.Pos(fn.Pos()), "one DeleteRange call", fmt.Sprintf("%d", n))
	}
	nNil := 0
	for _, ret := range engine.ReturnsOf(fn) {
		if c.P.D(engine.ReturnValues(ret)[0]) != "nil" {
			continue
		}
		nNil++
		c.RequireAt(r, rule, "RecoverCluster:success", ret, "nil only after snapshot durable and log compaction succeeded", func(v engine.View) bool {
			return v.Seen("closed") && v.F("closeErr") && v.Seen("compacted") && v.F("compactErr")
		})
	}
	if nNil == 0 {
		c.Bad(rule, "RecoverCluster:success", c.P.Pos(fn.Pos()), "a nil return", "none")
	}
	// replay: every entry after the restored snapshot up to the last index, commands applied
	okLoop := false
	var loopD string
	engine.EachInstr(fn, func(in ssa.Instruction) {
		if ifi, ok := in.(*ssa.If); ok {
			cd := c.P.CondOf(ifi.Cond)
			cd, _ = cd.WithY(func(d string) bool { return d == "p3.LastIndex()#0" })
			if cd.IsRel && cd.Y == "p3.LastIndex()#0" && strings.HasPrefix(cd.X, "phi(") {
				loopD = cd.String()
				okLoop = cd.EdgeOrd(true) == engine.LT|engine.EQ && strings.Contains(cd.X, "("+"phi(0 | "+snapIdx+") + 1)") && strings.Contains(cd.X, "(↺ + 1)")
			}
		}
	})
	c.Check(rule, "RecoverCluster:replays-every-later-entry", c.P.Pos(fn.Pos()), "the replay loop runs from restored snapshot index + 1 in steps of one while index <= LastIndex()", okLoop, "loop test "+loopD, 1)
	for _, s := range c.P.CallsIn(fn, engine.Is("iface:LogStore.GetLog")) {
		ok := strings.HasPrefix(c.P.Arg(s.Instr, 0), "phi(") && c.P.Arg(s.Instr, 1) == "var(Log)"
		c.Check(rule, "RecoverCluster:reads-loop-index", c.P.InstrPos(s.Instr), "each iteration reads the entry at the loop index", ok, "GetLog("+c.P.Arg(s.Instr, 0)+", "+c.P.Arg(s.Instr, 1)+")", 1)
	}
	ra := c.Run(&engine.Automaton{Fn: fn, Tracks: []engine.Track{
		engine.PredRel("isCmd", "var(Log).Type", "LogCommand", engine.EQ),
		predErr("getErr", "p3.GetLog("),
	}})
	na := 0
	for _, s := range c.P.CallsIn(fn, engine.Is("iface:FSM.Apply")) {
		na++
		c.RequireAt(ra, rule, "RecoverCluster:applies-commands", s.Instr, "the entry just read (without error) is applied when it is a command", func(v engine.View) bool {
			return v.T("isCmd") && v.F("getErr") && c.P.Arg(s.Instr, 0) == "var(Log)"
		})
	}
	if na != 1 {
		c.Bad(rule, "RecoverCluster:applies-commands", c.P.Pos(fn.Pos()), "one FSM.Apply call in the replay loop", fmt.Sprintf("%d", na))
	}
}
