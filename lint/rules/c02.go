package rules

import (
	"fmt"
	"go/types"
	"sort"
	"strings"

	"golang.org/x/tools/go/ssa"

	"verif/lint/engine"
)

func init() {
	register(&Property{
		ID:          "C02",
		Explanation: "Decided for all paths: FSM.Apply/ApplyBatch/StoreConfiguration/Restore/Snapshot are invoked only by the FSM goroutine's closures (plus start-up restore before any goroutine exists and the RecoverCluster override); the FSM queue has three frozen senders and one receiver and every dynamic type sent has a case in the receiver's type switch; processLogs returns early for indexes already applied, walks lastApplied+1..index in steps of one, panics on a log read error (never skips), forwards every prepared entry to a batch, flushes the last batch and only then publishes lastApplied=index; every processLogs call passes an index that was just published as commit index (follower: min(leaderCommit,lastIndex) after the previous-entry check; leader: only in-flight indexes not beyond the tracker's commit index; start-up: clamped staged index); InstallSnapshot updates applied/snapshot position only after the snapshot is durable and the FSM restored it; prepareLog has a case for every LogType and hands only Command/Barrier/Configuration entries to the FSM.",
		NotDecided:  "that entries at one index are identical across servers (that is C03/C04 behaviourally) and that a restored snapshot's content equals the agreed history; (R4 now requires the follower's commit bound to be the last index the accepted request covered – defect F9, fixed in 36fc10b.)",
		RuleText:    "C02.R1 who-may tables of the FSM interface methods; R2 sender/receiver tables and type agreement on fsmMutateCh; R3 loop-shape rules in processLogs; R4 provenance/guard of every processLogs argument; R5 = C04.R1; R6 install ordering; R7 LogType exhaustiveness in prepareLog.",
		Run:         c02,
	})
}

func c02(c *Ctx) {
	c02R1(c, "R1")
	c02R2(c, "R2")
	c02R3(c, "R3")
	c02R4(c, "R4")
	sMatch(c, "R4/S-MATCH")
	c04R1(c, "R5/C04.R1")
	sInstallDurable(c, "R6/S-DURABLE")
	c10R2(c, "R6/C10.R2")
	c02R7(c, "R7")
	sState(c, "R8/S-STATE")
	coreCommitBundle(c, "R9", "S-MATCH")
	c11R4(c, "R10/C11.R4")
	// entries replayed into the FSM at start-up (RestoreCommittedLogs) are the
	// ones whose commit was staged: never the follower's own unreplicated tail
	c10R5(c, "R11/C10.R5")
	// a leader whose local write failed must step down and drop the in-flight
	// futures: otherwise the next entries reuse the indexes and the leader's FSM
	// is handed the payload of the failed command (round-7 seed C02-N)
	sDurable(c, "R12/S-DURABLE")
	// what processLogs hands to the FSM is what GetLog returns: with a LogCache
	// in front of the store the cache invariant (C19) is part of this property
	// (round-8 seed C02-P: a read-through fill re-inserted a truncated entry)
	c19p(c, "R13/C19.")
}

func c02R1(c *Ctx, rule string) {
	c.WhoMay(rule, "call FSM.Apply", c.P.CallsEverywhere(engine.Is("iface:FSM.Apply")), map[string]string{
		"(*Raft).runFSM$applySingle": "the FSM goroutine",
		"RecoverCluster":             "operator override, no Raft instance running",
	})
	c.WhoMay(rule, "call BatchingFSM.ApplyBatch", c.P.CallsEverywhere(engine.Is("iface:BatchingFSM.ApplyBatch")), map[string]string{
		"(*Raft).runFSM$applyBatch": "the FSM goroutine",
	})
	c.WhoMay(rule, "call ConfigurationStore.StoreConfiguration", c.P.CallsEverywhere(engine.Is("iface:ConfigurationStore.StoreConfiguration")), map[string]string{
		"(*Raft).runFSM$applySingle": "the FSM goroutine",
	})
	c.WhoMay(rule, "call FSM.Restore", c.P.CallsEverywhere(engine.Is("iface:FSM.Restore")), map[string]string{
		"fsmRestoreAndMeasure": "shared restore helper",
		"RecoverCluster":       "operator override",
	})
	c.WhoMay(rule, "call fsmRestoreAndMeasure", c.P.CallsEverywhere(engine.Is("fsmRestoreAndMeasure")), map[string]string{
		"(*Raft).runFSM$restore":           "the FSM goroutine, on a restoreFuture",
		"(*Raft).tryRestoreSingleSnapshot": "start-up, before runFSM is started (C10.R1)",
	})
	c.WhoMay(rule, "call (*Raft).tryRestoreSingleSnapshot", c.P.CallsEverywhere(engine.Is("(*Raft).tryRestoreSingleSnapshot")), map[string]string{"(*Raft).restoreSnapshot": "start-up"})
	c.WhoMay(rule, "call (*Raft).restoreSnapshot", c.P.CallsEverywhere(engine.Is("(*Raft).restoreSnapshot")), map[string]string{"NewRaft": "start-up"})
	c.WhoMay(rule, "call FSM.Snapshot", c.P.CallsEverywhere(engine.Is("iface:FSM.Snapshot")), map[string]string{
		"(*Raft).runFSM$snapshot": "the FSM goroutine, between applies",
		"RecoverCluster":          "operator override",
	})
	// the closures are invoked only from runFSM (and applySingle from applyBatch)
	c.WhoMay(rule, "call runFSM$applySingle", c.P.CallsEverywhere(engine.Is("(*Raft).runFSM$applySingle")), map[string]string{"(*Raft).runFSM$applyBatch": "non-batching path"})
	for _, cl := range []string{"applyBatch", "restore", "snapshot"} {
		c.WhoMay(rule, "call runFSM$"+cl, c.P.CallsEverywhere(engine.Is("(*Raft).runFSM$"+cl)), map[string]string{"(*Raft).runFSM": "the FSM goroutine's loop"})
	}
	c.WhoMay(rule, "start (*Raft).runFSM", func() []engine.Site {
		var out []engine.Site
		for _, fn := range c.P.AllFuncs() {
			engine.EachInstr(fn, func(in ssa.Instruction) {
				if cc := engine.CallCommonOf(in); cc != nil {
					for _, a := range cc.Args {
						if strings.Contains(c.P.D(a), "(*Raft).runFSM$bound") {
							out = append(out, engine.Site{Fn: fn, Instr: in})
						}
					}
					if c.P.CalleeName(cc) == "(*Raft).runFSM" {
						out = append(out, engine.Site{Fn: fn, Instr: in})
					}
				}
			})
		}
		return out
	}(), map[string]string{"NewRaft": "exactly one FSM goroutine per Raft"})
}

func c02R2(c *Ctx, rule string) {
	ch := c.Field(rule, "Raft", "fsmMutateCh")
	if ch == nil {
		return
	}
	var sends, recvs []engine.Site
	sentTypes := map[string]string{}
	for _, fn := range c.P.AllFuncs() {
		for _, op := range c.P.ChanOps(fn) {
			if engine.ChanField(op.Chan) != ch {
				continue
			}
			if op.IsSend {
				sends = append(sends, engine.Site{Fn: fn, Instr: op.Instr})
				t := op.Send
				if mi, ok := t.(*ssa.MakeInterface); ok {
					t = mi.X
				}
				sentTypes[c.P.TypeStr(t.Type())] = c.P.Name(fn)
			} else {
				recvs = append(recvs, engine.Site{Fn: fn, Instr: op.Instr})
			}
		}
	}
	c.WhoMay(rule, "send on fsmMutateCh", sends, map[string]string{
		"(*Raft).processLogs$applyBatch": "committed entries, in index order",
		"(*Raft).restoreUserSnapshot":    "user restore",
		"(*Raft).installSnapshot":        "snapshot installed by the leader",
	})
	c.WhoMay(rule, "receive from fsmMutateCh", recvs, map[string]string{"(*Raft).runFSM": "single consumer: FIFO order is apply order"})
	// the channel field is written once
	c.WhoMay(rule, "write Raft.fsmMutateCh", c.P.FieldWrites(ch), map[string]string{"NewRaft": "created once"})
	// receiver's type switch covers what is sent
	handled := map[string]bool{}
	if fn := c.Fn(rule, "(*Raft).runFSM"); fn != nil {
		engine.EachInstr(fn, func(in ssa.Instruction) {
			if ta, ok := in.(*ssa.TypeAssert); ok && c.P.D(ta.X) == "<-recv.fsmMutateCh" {
				handled[c.P.TypeStr(ta.AssertedType)] = true
			}
		})
	}
	var ts []string
	for t := range sentTypes {
		ts = append(ts, t)
	}
	sort.Strings(ts)
	for _, t := range ts {
		c.Check(rule, "fsmMutateCh:type "+t+" handled by runFSM", "-", "every dynamic type sent on fsmMutateCh has a case in runFSM's type switch (anything else panics the FSM goroutine)", handled[t], pick(handled[t], "case present", "sent by "+sentTypes[t]+" but no case"), 1)
	}
	if len(ts) < 2 {
		c.Bad(rule, "fsmMutateCh:sent-types", "-", "[]*commitTuple and *restoreFuture are sent", fmt.Sprintf("found %v", ts))
	}
	// the consumer handles each received item exactly once, in receive order:
	// per loop iteration one receive, dispatched to exactly one closure with
	// the received value; batches are walked front to back
	if fn := c.P.Fn("(*Raft).runFSM"); fn != nil {
		sel := loopSelect(c, fn)
		if sel == nil {
			c.Bad(rule, "runFSM:select", c.P.Pos(fn.Pos()), "the FSM goroutine's select", "none")
		} else {
			for k, st := range sel.States {
				if st.Dir != types.RecvOnly {
					continue
				}
				chd := c.P.D(st.Chan)
				if chd != "recv.fsmMutateCh" && chd != "recv.fsmSnapshotCh" {
					continue
				}
				arm := engine.SelectArmEntry(sel, k)
				if arm == nil {
					continue
				}
				r := c.Run(&engine.Automaton{Fn: fn, StartBlock: arm, StopAt: func(in ssa.Instruction) bool { return in == ssa.Instruction(sel) }, Tracks: []engine.Track{
					engine.Event("batch", func(in ssa.Instruction) bool {
						cc := engine.CallCommonOf(in)
						return cc != nil && c.P.CalleeName(cc) == "(*Raft).runFSM$applyBatch" && strings.HasPrefix(c.P.Arg(in, 0), "<-"+chd+".(")
					}),
					engine.Event("restore", func(in ssa.Instruction) bool {
						cc := engine.CallCommonOf(in)
						return cc != nil && c.P.CalleeName(cc) == "(*Raft).runFSM$restore" && strings.HasPrefix(c.P.Arg(in, 0), "<-"+chd+".(")
					}),
					engine.Event("snapshot", func(in ssa.Instruction) bool {
						cc := engine.CallCommonOf(in)
						return cc != nil && c.P.CalleeName(cc) == "(*Raft).runFSM$snapshot" && c.P.Arg(in, 0) == "<-"+chd
					}),
				}})
				c.RequireAt(r, rule, "runFSM:"+strings.TrimPrefix(chd, "recv.")+"-handled-once", sel, "each received item is handed to exactly one of applyBatch / restore / snapshot before the next receive (anything else panics)", func(v engine.View) bool {
					n := 0
					for _, e := range []string{"batch", "restore", "snapshot"} {
						if v.Seen(e) {
							n++
						}
					}
					return n == 1
				})
			}
		}
	}
	if ab := c.P.Fn("(*Raft).runFSM$applyBatch"); ab != nil {
		rangeBodyAlways(c, rule, ab, "runFSM/applyBatch:every-tuple-applied-in-order", "cp1", func(in ssa.Instruction) bool {
			cc := engine.CallCommonOf(in)
			if cc == nil {
				return false
			}
			n := c.P.CalleeName(cc)
			return (n == "(*Raft).runFSM$applySingle" && c.P.Arg(in, 0) == "val(range cp1)") || (n == "(*Raft).runFSM$applyBatch$shouldSend" && c.P.Arg(in, 0) == "val(range cp1).log")
		}, "the batch is walked front to back and every tuple is applied (non-batching) or classified for ApplyBatch (batching)")
	}
}

func c02R3(c *Ctx, rule string) {
	fn := c.Fn(rule, "(*Raft).processLogs")
	if fn == nil {
		return
	}
	applied := "recv.raftState.getLastApplied()"
	// loop variable
	var idx *ssa.Phi
	var hdr *ssa.If
	engine.EachInstr(fn, func(in ssa.Instruction) {
		if ifi, ok := in.(*ssa.If); ok {
			cd := c.P.CondOf(ifi.Cond)
			cd, _ = cd.WithY(func(d string) bool { return d == "p1" })
			if cd.IsRel && cd.Y == "p1" && cd.EdgeOrd(true) == engine.LT|engine.EQ {
				if ph, ok := cd.XV.(*ssa.Phi); ok {
					idx, hdr = ph, ifi
				}
			}
		}
	})
	if idx == nil {
		c.Bad(rule, "processLogs:loop", c.P.Pos(fn.Pos()), "a loop `for idx := …; idx <= index; idx++`", "not recognised")
		return
	}
	startOK, stepOK := false, false
	for _, e := range idx.Edges {
		if b, ok := e.(*ssa.BinOp); ok && b.X == ssa.Value(idx) {
			if k, ok := b.Y.(*ssa.Const); ok && b.Op.String() == "+" && k.Int64() == 1 {
				stepOK = true
			}
			continue
		}
		if c.P.D(e) == "("+applied+" + 1)" {
			startOK = true
		}
	}
	c.Check(rule, "processLogs:from-lastApplied+1-step-1", c.P.InstrPos(hdr), "the walk starts at getLastApplied()+1 and advances by exactly 1 while idx <= index (no entry skipped or repeated)", startOK && stepOK && len(idx.Edges) == 2, "idx = "+c.P.D(idx), 1)
	idxD := c.P.D(idx)
	isFlush := c.P.IsCallTo(engine.Is("(*Raft).processLogs$applyBatch"))
	tracks := []engine.Track{
		engine.PredRel("old", "p1", applied, engine.LT|engine.EQ),
		{Name: "iter", If: func(cd engine.Cond, ifi *ssa.If) (bool, int) {
			if ifi == hdr {
				return true, engine.True
			}
			return false, 0
		}, Kills: []string{"read", "readErr", "flushed"}},
		engine.Event("read", func(in ssa.Instruction) bool {
			cc := engine.CallCommonOf(in)
			return cc != nil && c.P.CalleeName(cc) == "iface:LogStore.GetLog" && c.P.Arg(in, 0) == idxD
		}),
		predErr("readErr", "recv.logs.GetLog("),
		engine.Event("flushed", isFlush),
		engine.PredCond("pending", func(cd engine.Cond) (bool, int) {
			if cd.IsRel && strings.HasPrefix(cd.X, "len(") && cd.Y == "0" && strings.Contains(cd.X, "commitTuple") {
				s := cd.EdgeOrd(true)
				if isNEc(cd) {
					return true, engine.True
				}
				if s == engine.EQ {
					return true, engine.False
				}
			}
			return false, 0
		}),
	}
	r := c.Run(&engine.Automaton{Fn: fn, Tracks: tracks})
	sets := c.P.CallsIn(fn, engine.Is("(*raftState).setLastApplied"))
	if len(sets) != 1 {
		c.Bad(rule, "processLogs:setLastApplied", c.P.Pos(fn.Pos()), "exactly one setLastApplied", fmt.Sprintf("%d", len(sets)))
	}
	for _, s := range sets {
		c.RequireAt(r, rule, "processLogs:publish-applied-last", s.Instr, "setLastApplied(index) only for index > lastApplied, after the loop ended and a non-empty last batch was flushed", func(v engine.View) bool {
			return c.P.Arg(s.Instr, 0) == "p1" && v.F("old") && v.F("iter") && (v.F("pending") || (v.T("pending") && v.Seen("flushed")))
		})
	}
	for _, s := range c.P.CallsIn(fn, engine.Is("(*Raft).processLogs$applyBatch")) {
		c.RequireAt(r, rule, "processLogs:nothing-sent-for-old-index", s.Instr, "nothing is handed to the FSM when index <= lastApplied", func(v engine.View) bool { return v.F("old") })
	}
	// per iteration
	body := hdr.Block().Succs[0]
	prepared := engine.PredCond("prepared", func(cd engine.Cond) (bool, int) {
		if cd.IsRel && strings.Contains(cd.X, "recv.prepareLog(") && cd.Y == "nil" {
			s := cd.EdgeOrd(true)
			if isNE(s) {
				return true, engine.True
			}
			if s == engine.EQ {
				return true, engine.False
			}
		}
		return false, 0
	})
	rb := c.Run(&engine.Automaton{Fn: fn, StartBlock: body, StopAt: func(in ssa.Instruction) bool { return in == ssa.Instruction(hdr) }, Tracks: []engine.Track{
		engine.PredBool("haveFuture", DescIs("p2["+idxD+"]#1")),
		engine.Event("read", func(in ssa.Instruction) bool {
			cc := engine.CallCommonOf(in)
			return cc != nil && c.P.CalleeName(cc) == "iface:LogStore.GetLog" && c.P.Arg(in, 0) == idxD
		}),
		predErr("readErr", "recv.logs.GetLog("),
		engine.Event("prep", c.P.IsCallTo(engine.Is("(*Raft).prepareLog"))),
		prepared,
		engine.Event("batched", func(in ssa.Instruction) bool {
			cc := engine.CallCommonOf(in)
			return cc != nil && c.P.CalleeName(cc) == "builtin:append" && strings.Contains(c.P.TypeStr(cc.Args[0].Type()), "commitTuple")
		}),
		engine.Event("answered", func(in ssa.Instruction) bool {
			cc := engine.CallCommonOf(in)
			return cc != nil && c.P.CalleeName(cc) == "(*deferError).respond" && c.P.Arg(in, 0) == "nil"
		}),
	}})
	c.RequireAt(rb, rule, "processLogs:every-index-handled", hdr,
		"each iteration takes the entry of exactly this index from the in-flight future or from GetLog(idx) (read error ⇒ panic, never continue), prepares it, and a prepared entry is always added to the batch; an unprepared one with a future is answered",
		func(v engine.View) bool {
			src := v.T("haveFuture") || (v.F("haveFuture") && v.Seen("read") && v.F("readErr"))
			if !src || !v.Seen("prep") {
				return false
			}
			if v.T("prepared") {
				return v.Seen("batched")
			}
			if v.F("prepared") && v.T("haveFuture") {
				return v.Seen("answered")
			}
			return v.F("prepared")
		})
	// who is answered "applied" here: only the future of the loop's own index,
	// inside the loop, when the entry needs no FSM round trip. A future answered
	// nil anywhere else (e.g. "complete the ones at or below lastApplied") tells
	// a caller its command was applied although no FSM was ever given it.
	for _, s := range c.P.CallsIn(fn, engine.Is("(*deferError).respond")) {
		recv := c.P.D(engine.RecvValue(s.Instr))
		arg := c.P.Arg(s.Instr, 0)
		inLoop := engine.Reaches(body, s.Instr.Block()) && engine.Reaches(s.Instr.Block(), hdr.Block())
		own := strings.HasPrefix(recv, "p2["+idxD+"]#0")
		c.RequireAt(rb, rule, "processLogs:answers-only-own-index", s.Instr, "processLogs answers nil only the in-flight future of the index it is visiting, and only for an entry that is not handed to the FSM", func(v engine.View) bool {
			return arg == "nil" && inLoop && own && v.T("haveFuture") && v.F("prepared")
		})
		if !inLoop || !own {
			c.Bad(rule, "processLogs:answer-outside-the-apply-loop", c.P.InstrPos(s.Instr), "every respond in processLogs is the loop's answer for its own index", "respond("+arg+") on "+recv+pick(inLoop, "", " outside the loop"))
		}
	}
	// after a batch was handed over inside the loop, the accumulator restarts
	// empty (otherwise the same entries would be sent to the FSM again)
	{
		rr := c.Run(&engine.Automaton{Fn: fn, Tracks: []engine.Track{
			{Name: "iter", If: func(cd engine.Cond, ifi *ssa.If) (bool, int) { return ifi == hdr, engine.True }, Kills: []string{"flushed"}},
			engine.Event("flushed", isFlush),
		}})
		bad := ""
		n := 0
		engine.EachInstr(fn, func(in ssa.Instruction) {
			ph, ok := in.(*ssa.Phi)
			if !ok || !strings.Contains(c.P.TypeStr(ph.Type()), "commitTuple") {
				return
			}
			for i, e := range ph.Edges {
				for _, st := range rr.EdgeStates(ph.Block().Preds[i], ph.Block()) {
					if !st.Seen("flushed") {
						continue
					}
					n++
					if _, isPhi := e.(*ssa.Phi); isPhi {
						continue // judged at the inner phi
					}
					if _, isMake := e.(*ssa.MakeSlice); !isMake {
						bad = "after applyBatch(batch) in the loop the accumulator continues as " + c.P.D(e) + " instead of a fresh empty slice"
					}
				}
			}
		})
		c.Check(rule, "processLogs:batch-restarts-empty-after-flush", c.P.InstrPos(hdr), "a batch handed to the FSM inside the loop is replaced by a fresh empty slice before more entries are collected (no entry is sent twice)", bad == "" && n > 0, pick(bad == "" && n > 0, fmt.Sprintf("%d edge states after a flush carry a fresh slice", n), pick(bad != "", bad, "no flush inside the loop found")), n)
	}
	// prepared entry really is what gets appended: the varargs element is the prepareLog result
	okElem := false
	engine.EachInstr(fn, func(in ssa.Instruction) {
		if st, ok := in.(*ssa.Store); ok && strings.Contains(c.P.D(st.Val), "recv.prepareLog(") && strings.HasPrefix(c.P.D(st.Addr), "new([1]*commitTuple)") {
			okElem = true
		}
	})
	c.Check(rule, "processLogs:batch-holds-prepared-entries", c.P.InstrPos(hdr), "what is appended to the batch is the prepareLog result of this iteration", okElem, pick(okElem, "ok", "appended element is something else"), 1)
	// prepareLog arguments: the future's own log, or the log just read
	for _, s := range c.P.CallsIn(fn, engine.Is("(*Raft).prepareLog")) {
		a0, a1 := c.P.Arg(s.Instr, 0), c.P.Arg(s.Instr, 1)
		ok := (a0 == "p2["+idxD+"]#0.log" && a1 == "p2["+idxD+"]#0") || (strings.HasPrefix(a0, "new(Log)") && a1 == "nil")
		c.Check(rule, "processLogs:prepareLog-args", c.P.InstrPos(s.Instr), "prepareLog(&future.log, future) for the in-flight future of this index, or prepareLog(entry read from the store, nil)", ok, "prepareLog("+a0+", "+a1+")", 1)
	}
}

func c02R4(c *Ctx, rule string) {
	sites := c.P.CallsEverywhere(engine.Is("(*Raft).processLogs"))
	c.WhoMay(rule, "call (*Raft).processLogs", sites, map[string]string{
		"(*Raft).appendEntries":            "follower, after publishing the new commit index",
		"(*Raft).leaderLoop":               "leader, for in-flight entries not beyond the commit index",
		"(*Raft).restoreFromCommittedLogs": "start-up replay (C10.R5)",
	})
	for _, s := range sites {
		name := c.P.Name(s.Fn)
		arg := c.P.Arg(s.Instr, 0)
		switch name {
		case "(*Raft).appendEntries", "(*Raft).restoreFromCommittedLogs":
			r := c.Run(&engine.Automaton{Fn: s.Fn, Tracks: []engine.Track{
				engine.Event("published", func(in ssa.Instruction) bool {
					cc := engine.CallCommonOf(in)
					return cc != nil && c.P.CalleeName(cc) == "(*raftState).setCommitIndex" && c.P.Arg(in, 0) == arg
				}),
			}})
			c.RequireAt(r, rule, name+":apply-up-to-published-commit", s.Instr, "processLogs(x) is called with the very value just passed to setCommitIndex", func(v engine.View) bool { return v.Seen("published") })
			if name == "(*Raft).appendEntries" {
				okB, whyB := followerCommitBound(c, s.Fn, engine.ArgValue(s.Instr, 0))
				c.Check(rule, name+":commit-clamped", c.P.InstrPos(s.Instr), "x = min(a.LeaderCommitIndex, last index covered by this request): only entries this request verified against the leader are handed to the FSM (defect F9)", okB, whyB, 2)
				c.Check(rule, name+":no-futures", c.P.InstrPos(s.Instr), "followers pass no futures", c.P.Arg(s.Instr, 1) == "nil", "futures = "+c.P.Arg(s.Instr, 1), 1)
			}
		case "(*Raft).leaderLoop":
			commit := "recv.leaderState.commitment.getCommitIndex()"
			r := c.Run(&engine.Automaton{Fn: s.Fn, Tracks: []engine.Track{
				engine.Event("loop", isSelect, "published", "beyond", "ready"),
				engine.Event("published", func(in ssa.Instruction) bool {
					cc := engine.CallCommonOf(in)
					return cc != nil && c.P.CalleeName(cc) == "(*raftState).setCommitIndex" && c.P.Arg(in, 0) == commit
				}),
				engine.PredCond("beyond", func(cd engine.Cond) (bool, int) {
					cd, _ = cd.WithY(func(d string) bool { return d == commit })
					if cd.IsRel && strings.HasSuffix(cd.X, ".log.Index") && cd.Y == commit {
						s := cd.EdgeOrd(true)
						if s == engine.GT {
							return true, engine.True
						}
						if s == engine.LT|engine.EQ {
							return true, engine.False
						}
					}
					return false, 0
				}),
				engine.PredCond("ready", func(cd engine.Cond) (bool, int) {
					if cd.IsRel && strings.HasPrefix(cd.X, "len(") && strings.Contains(cd.X, "list.Element") && cd.Y == "0" {
						s := cd.EdgeOrd(true)
						if isNEc(cd) {
							return true, engine.True
						}
						if s == engine.EQ {
							return true, engine.False
						}
					}
					return false, 0
				}),
			}})
			c.RequireAt(r, rule, name+":apply-after-publish", s.Instr, "in this iteration the tracker's commit index was published and at least one in-flight entry is ready", func(v engine.View) bool { return v.Seen("published") && v.T("ready") })
			// provenance of the index argument
			ph, ok := engine.ArgValue(s.Instr, 0).(*ssa.Phi)
			if !ok {
				c.Bad(rule, name+":index-provenance", c.P.InstrPos(s.Instr), "the index passed is the last in-flight index that passed the commit test", "argument "+arg)
				continue
			}
			bad := ""
			n := 0
			var walk func(p *ssa.Phi, depth int)
			seen := map[*ssa.Phi]bool{}
			walk = func(p *ssa.Phi, depth int) {
				if seen[p] || depth > 4 {
					return
				}
				seen[p] = true
				for i, e := range p.Edges {
					switch x := e.(type) {
					case *ssa.Const:
					case *ssa.Phi:
						walk(x, depth+1)
					default:
						d := c.P.D(e)
						if !strings.HasSuffix(d, ".Value.(*logFuture).log.Index") {
							bad = "index taken from " + d
							continue
						}
						pred := p.Block().Preds[i]
						for _, v := range r.EdgeStates(pred, p.Block()) {
							n++
							if !v.F("beyond") {
								bad = "an in-flight index flows in without having passed `idx > commitIndex → break`: {" + v.String() + "}"
							}
						}
						// the same block also records the element as ready
						hasAppend := false
						for _, in := range pred.Instrs {
							if cc := engine.CallCommonOf(in); cc != nil && c.P.CalleeName(cc) == "builtin:append" && strings.Contains(c.P.TypeStr(cc.Args[0].Type()), "list.Element") {
								hasAppend = true
							}
						}
						if !hasAppend {
							bad = "index assigned in a block that does not add the element to the ready group"
						}
					}
				}
			}
			walk(ph, 0)
			c.Check(rule, name+":index-provenance", c.P.InstrPos(s.Instr), "lastIdxInGroup is only ever assigned the index of an in-flight future that passed ¬(idx > commitIndex), in the block that adds it to the ready group", bad == "" && n > 0, pick(bad == "" && n > 0, fmt.Sprintf("%d edge states", n), bad), n)
		}
	}
}

func c02R7(c *Ctx, rule string) {
	fn := c.Fn(rule, "(*Raft).prepareLog")
	lt := c.P.LookupType("LogType")
	if fn == nil || lt == nil {
		if lt == nil {
			c.Bad(rule, "anchor:LogType", "-", "type LogType exists", "not found")
		}
		return
	}
	var consts []string
	sc := c.P.Pkg.Types.Scope()
	for _, nm := range sc.Names() {
		if k, ok := sc.Lookup(nm).(*types.Const); ok && types.Identical(k.Type(), lt) {
			consts = append(consts, nm)
		}
	}
	sort.Strings(consts)
	cases := map[string]bool{}
	var tracks []engine.Track
	for _, k := range consts {
		k := k
		tracks = append(tracks, engine.PredRel("is"+k, "p1.Type", k, engine.EQ))
	}
	engine.EachInstr(fn, func(in ssa.Instruction) {
		if ifi, ok := in.(*ssa.If); ok {
			cd := c.P.CondOf(ifi.Cond)
			if cd.IsRel && cd.X == "p1.Type" && cd.EdgeOrd(true) == engine.EQ {
				cases[cd.Y] = true
			}
		}
	})
	for _, k := range consts {
		c.Check(rule, "prepareLog:case "+k, c.P.Pos(fn.Pos()), "every LogType constant has a case in prepareLog (unknown types panic)", cases[k], pick(cases[k], "case present", "no case: entries of this type would panic the main loop"), 1)
	}
	if len(consts) < 6 {
		c.Bad(rule, "LogType:constants", "-", "the six LogType constants", fmt.Sprintf("%v", consts))
	}
	r := c.Run(&engine.Automaton{Fn: fn, Tracks: tracks})
	for i, ret := range engine.ReturnsOf(fn) {
		d := c.P.D(engine.ReturnValues(ret)[0])
		if d == "nil" {
			c.RequireAt(r, rule, fmt.Sprintf("prepareLog:return-nil#%d", i+1), ret, "nil (not sent to the FSM) only for recognised non-FSM types or pre-v3 configuration entries; an unrecognised type never returns", func(v engine.View) bool {
				return v.T("isLogNoop") || v.T("isLogAddPeerDeprecated") || v.T("isLogRemovePeerDeprecated") || v.T("isLogConfiguration")
			})
		} else {
			c.RequireAt(r, rule, fmt.Sprintf("prepareLog:return-tuple#%d", i+1), ret, "a tuple (sent to the FSM goroutine, which answers the future) only for LogCommand, LogBarrier, LogConfiguration", func(v engine.View) bool {
				return v.T("isLogCommand") || v.T("isLogBarrier") || v.T("isLogConfiguration")
			})
		}
	}
	// tuple fields
	for _, f := range [][2]string{{"log", "p1"}, {"future", "p2"}} {
		if fv := c.Field(rule, "commitTuple", f[0]); fv != nil {
			for _, s := range c.P.FieldWritesIn(fn, fv) {
				v, _ := c.P.StoredValue(s.Instr, fv)
				c.Check(rule, "prepareLog:tuple."+f[0], c.P.InstrPos(s.Instr), "the tuple pairs the entry with its own future", c.P.D(v) == f[1], "= "+c.P.D(v), 1)
			}
		}
	}
}
