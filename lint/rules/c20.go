package rules

import (
	"fmt"
	"go/types"
	"strings"

	"golang.org/x/tools/go/ssa"

	"verif/lint/engine"
)

func init() {
	register(&Property{
		ID:          "C20",
		Explanation: "Decided for all paths: restoreUserSnapshot performs no effect (cancelling in-flight futures, creating a snapshot, asking the FSM to restore, moving positions, removing logs) before the snapshot-version check and the committedIndex == latestIndex check passed; it runs only on the leader loop's userRestoreCh arm after the leadership-transfer refusal, followers and candidates answer ErrNotLeader; the cancellation loop answers ErrAbortedByRestore to and removes the front in-flight future until the list is empty; the burned index is max(getLastIndex(), meta.Index)+1 (phi-edge provenance) and that one value, with the current term, is what the snapshot is created at and what lastLog, lastApplied and lastSnapshot are set to, the snapshot carrying the latest (= committed) configuration; a failed or short copy cancels the sink, positions move only after Close()==nil and a successful FSM restore (a failed restore panics), log removal is last and only on monotonic stores; Raft.Restore returns the restore future's error, otherwise enqueues a LogNoop and returns its outcome, each enqueue racing the timer and shutdown.",
		NotDecided:  "that followers eventually hold the restored state (liveness; see C12 and its known finding) and that the FSM content equals the supplied snapshot bytes.",
		RuleText:    "C20.R1 guard formula at every effect; R2 arm tables of userRestoreCh; R3 loop shape of the cancellation; R4 phi-edge provenance + descriptor flow of the burned index; R5 success-checked must-precede chain; R6 shape of Raft.Restore.",
		Run:         c20,
	})
}

func c20(c *Ctx) {
	c20R1345(c)
	c20R2(c, "R2")
	sTransferFlag(c, "R2/S-TRANSFER")
	c20R6(c, "R6")
	c11R4(c, "R7/C11.R4")
	c10R3(c, "R8/C10.R3")
	// the burned index must stay a gap: it is what forces followers onto InstallSnapshot
	sStoreWriters(c, "R9/S-WRITERS")
	sSendsNewestSnapshot(c, "R10")
}

// sSendsNewestSnapshot: the only way across the index gap a user Restore (or
// a compaction) leaves is the newest snapshot of the store. sendLatestSnapshot
// asks the store for its listing in this very call and opens entry 0 of it –
// never an ID remembered from earlier: the store is also written by
// installSnapshot and by the snapshot goroutine (round-8 seed C20-O: a cached
// ID made a new leader ship its pre-restore snapshot for ever).
func sSendsNewestSnapshot(c *Ctx, rule string) {
	fn := c.Fn(rule, "(*Raft).sendLatestSnapshot")
	if fn == nil {
		return
	}
	opens := c.P.CallsIn(fn, engine.Is("iface:SnapshotStore.Open"))
	if len(opens) == 0 {
		c.Bad(rule, "sendLatestSnapshot:open", c.P.Pos(fn.Pos()), "a SnapshotStore.Open call", "none")
		return
	}
	r := c.Run(&engine.Automaton{Fn: fn, Tracks: []engine.Track{
		engine.Event("listed", c.P.IsCallTo(engine.Is("iface:SnapshotStore.List"))),
		predErr("listErr", "recv.snapshots.List()"),
		engine.PredRel("none", "len(recv.snapshots.List()#0)", "0", engine.EQ),
	}})
	for _, s := range opens {
		a := c.P.Arg(s.Instr, 0)
		c.RequireAt(r, rule, "sendLatestSnapshot:opens-newest-of-a-fresh-listing", s.Instr, "Open(List()[0].ID) with List() called in this invocation, checked for error and emptiness", func(v engine.View) bool {
			return a == "recv.snapshots.List()#0[0].ID" && v.Seen("listed") && v.F("listErr") && v.F("none")
		})
	}
}

func c20R1345(c *Ctx) {
	fn := c.Fn("R1", "(*Raft).restoreUserSnapshot")
	if fn == nil {
		return
	}
	create := c.FirstCall(fn, engine.Is("iface:SnapshotStore.Create"))
	if create == nil {
		c.Bad("R1", "restoreUserSnapshot:create", c.P.Pos(fn.Pos()), "creates a snapshot", "no SnapshotStore.Create call")
		return
	}
	sink := c.CallDesc(create)
	tracks := append(sinkTracks(c, sink),
		engine.PredRel("verLow", "p1.Version", "SnapshotVersionMin", engine.LT),
		engine.PredRel("verHigh", "p1.Version", "1", engine.GT),
		engine.PredRel("unsettled", "recv.configurations.committedIndex", "recv.configurations.latestIndex", engine.LT|engine.GT),
		engine.Event("copied", c.P.IsCallTo(engine.Is("io.Copy"))),
		engine.PredCond("copyErr", func(cd engine.Cond) (bool, int) {
			if cd.IsRel && strings.HasPrefix(cd.X, "io.Copy(") && strings.HasSuffix(cd.X, "#1") && cd.Y == "nil" {
				if isNEc(cd) {
					return true, engine.True
				}
				return true, engine.False
			}
			return false, 0
		}),
		engine.PredCond("short", func(cd engine.Cond) (bool, int) {
			cd, _ = cd.WithY(func(d string) bool { return d == "p1.Size" })
			if cd.IsRel && strings.HasPrefix(cd.X, "io.Copy(") && strings.HasSuffix(cd.X, "#0") && cd.Y == "p1.Size" {
				if isNEc(cd) {
					return true, engine.True
				}
				return true, engine.False
			}
			return false, 0
		}),
		engine.Event("sent", func(in ssa.Instruction) bool {
			sel, ok := in.(*ssa.Select)
			if !ok {
				return false
			}
			for _, st := range sel.States {
				if st.Dir == types.SendOnly && c.P.D(st.Chan) == "recv.fsmMutateCh" {
					return true
				}
			}
			return false
		}),
		engine.Event("waited", func(in ssa.Instruction) bool {
			cc := engine.CallCommonOf(in)
			return cc != nil && c.P.CalleeName(cc) == "(*deferError).Error" && strings.Contains(c.P.D(engine.RecvValue(in)), "restoreFuture")
		}),
		engine.PredCond("restoreErr", errNotNil("new(restoreFuture).deferError.Error(")),
		engine.Event("lastLog", c.P.IsCallTo(engine.Is("(*raftState).setLastLog"))),
		engine.Event("applied", c.P.IsCallTo(engine.Is("(*raftState).setLastApplied"))),
		engine.Event("snappos", c.P.IsCallTo(engine.Is("(*raftState).setLastSnapshot"))),
		engine.PredBool("isMonoStore", DescIs("recv.logs.(MonotonicLogStore)#1")),
		engine.PredBool("isMono", DescIs("recv.logs.(MonotonicLogStore)#0.IsMonotonic()")),
	)
	r := c.Run(&engine.Automaton{Fn: fn, Tracks: tracks})
	admitted := func(v engine.View) bool { return v.F("verLow") && v.F("verHigh") && v.F("unsettled") }
	durable := func(v engine.View) bool {
		return admitted(v) && v.Seen("create") && v.F("createErr") && v.Seen("copied") && v.F("copyErr") && v.F("short") && v.Seen("close") && v.F("closeErr")
	}
	restored := func(v engine.View) bool { return durable(v) && v.Seen("sent") && v.Seen("waited") && v.F("restoreErr") }

	// the sink is finalized (and so becomes a listed snapshot) only once the
	// stream is known to be complete: Cancel after Close removes nothing
	nClose := 0
	engine.EachInstr(fn, func(in ssa.Instruction) {
		cc := engine.CallCommonOf(in)
		if cc == nil || !cc.IsInvoke() || cc.Method.Name() != "Close" || !strings.HasPrefix(c.P.D(cc.Value), sink) {
			return
		}
		if _, isDefer := in.(*ssa.Defer); isDefer {
			return
		}
		nClose++
		c.RequireAt(r, "R2", "restoreUserSnapshot:close-only-after-size-verified", in, "the local snapshot is closed (published) only after the copy returned without error and the byte count equals meta.Size; a refused restore is cancelled, never published", func(v engine.View) bool {
			return v.Seen("copied") && v.F("copyErr") && v.F("short")
		})
	})
	if nClose == 0 {
		c.Bad("R2", "restoreUserSnapshot:close", c.P.Pos(fn.Pos()), "a Close of the created sink", "none")
	}

	// R1: every effect after the two refusals
	n := 0
	engine.EachInstr(fn, func(in ssa.Instruction) {
		what := ""
		if cc := engine.CallCommonOf(in); cc != nil {
			if _, isDefer := in.(*ssa.Defer); isDefer {
				return
			}
			nm := c.P.CalleeName(cc)
			switch {
			case handlerEffect(nm):
				what = "call " + nm
			case nm == "(*deferError).respond", nm == "(*container/list.List).Remove":
				what = "call " + nm
			}
		}
		if sel, ok := in.(*ssa.Select); ok {
			for _, st := range sel.States {
				if st.Dir == types.SendOnly {
					what = "send on " + c.P.D(st.Chan)
				}
			}
		}
		if what == "" {
			return
		}
		n++
		c.RequireAt(r, "R1", "restoreUserSnapshot:"+what+":refusals-first", in, "supported snapshot version ∧ committedIndex == latestIndex were established before this effect (a refused restore has no effect at all)", admitted)
	})
	if n < 8 {
		c.Bad("R1", "restoreUserSnapshot:effects", c.P.Pos(fn.Pos()), "at least 8 effect sites (cancel, create, restore request, three positions, removal …)", fmt.Sprintf("%d recognised", n))
	}

	// R3: cancellation loop
	front := "recv.leaderState.inflight.Front()"
	frontIsNilOnTrue := true
	var loopIf *ssa.If
	engine.EachInstr(fn, func(in ssa.Instruction) {
		if ifi, ok := in.(*ssa.If); ok {
			cdl := c.P.CondOf(ifi.Cond)
			if s, ok := cdl.RelOn(front, "nil"); ok && (s == engine.EQ || s == engine.LT|engine.GT) {
				loopIf = ifi
				frontIsNilOnTrue = s == engine.EQ
			} else if ph, isPhi := cdl.XV.(*ssa.Phi); isPhi && cdl.IsRel && cdl.Y == "nil" && len(ph.Edges) == 2 && c.P.D(ph.Edges[0]) == front && c.P.D(ph.Edges[1]) == front {
				// for e := Front(); e != nil; e = Front() { … }
				loopIf = ifi
				frontIsNilOnTrue = cdl.EdgeOrd(true) == engine.EQ
				front = c.P.D(ph)
			}
		}
	})
	if loopIf == nil {
		c.Bad("R3", "restoreUserSnapshot:cancel-loop", c.P.Pos(fn.Pos()), "a loop `e := inflight.Front(); if e == nil {break}`", "not found")
	} else {
		body := loopIf.Block().Succs[1]
		if !frontIsNilOnTrue {
			body = loopIf.Block().Succs[0]
		}
		rb := c.Run(&engine.Automaton{Fn: fn, StartBlock: body, StopAt: func(in ssa.Instruction) bool { return in == ssa.Instruction(loopIf) }, Tracks: []engine.Track{
			engine.Event("answered", func(in ssa.Instruction) bool {
				cc := engine.CallCommonOf(in)
				return cc != nil && c.P.CalleeName(cc) == "(*deferError).respond" && c.P.Arg(in, 0) == "@ErrAbortedByRestore" && strings.HasPrefix(c.P.D(engine.RecvValue(in)), front+".Value.(*logFuture)")
			}),
			engine.Event("removed", func(in ssa.Instruction) bool {
				cc := engine.CallCommonOf(in)
				return cc != nil && c.P.CalleeName(cc) == "(*container/list.List).Remove" && c.P.Arg(in, 0) == front
			}),
		}})
		c.RequireAt(rb, "R3", "restoreUserSnapshot:cancel-loop-body", loopIf, "each iteration answers the front in-flight future with ErrAbortedByRestore and removes that element", func(v engine.View) bool { return v.Seen("answered") && v.Seen("removed") })
		// everything after the loop is reached only with the list empty
		c.RequireAt(r, "R3", "restoreUserSnapshot:create-after-all-cancelled", create, "the snapshot is created only after the loop saw an empty in-flight list", func(v engine.View) bool {
			// the loop test's true edge (Front()==nil) is the only way out
			return engine.Reaches(loopIf.Block().Succs[0], create.Block()) && !reachesAvoiding(body, create.Block(), loopIf.Block())
		})
	}

	// R4: burned index
	idxV := engine.ArgValue(create, 1)
	idxD := c.P.D(idxV)
	okBurn := false
	why := idxD
	if b, ok := idxV.(*ssa.BinOp); ok && b.Op.String() == "+" {
		if k, ok := b.Y.(*ssa.Const); ok && k.Int64() == 1 {
			// max(getLastIndex(), meta.Index) spelled with the package's max
			// helper (its body is checked over the three orderings by C05) or
			// with the builtin
			if call, ok := b.X.(*ssa.Call); ok {
				n := c.P.CalleeName(call.Common())
				if (n == "max" || n == "builtin:max") && len(call.Call.Args) == 2 {
					a0, a1 := c.P.D(call.Call.Args[0]), c.P.D(call.Call.Args[1])
					if (a0 == "p1.Index" && a1 == "recv.raftState.getLastIndex()") || (a1 == "p1.Index" && a0 == "recv.raftState.getLastIndex()") {
						okBurn = true
					}
				}
			}
			if ph, ok := b.X.(*ssa.Phi); ok && len(ph.Edges) == 2 {
				rr := c.Run(&engine.Automaton{Fn: fn, Tracks: []engine.Track{engine.PredRel("snapAhead", "p1.Index", "recv.raftState.getLastIndex()", engine.GT)}})
				okBurn = true
				for i, e := range ph.Edges {
					d := c.P.D(e)
					for _, st := range rr.EdgeStates(ph.Block().Preds[i], ph.Block()) {
						switch d {
						case "p1.Index":
							if !st.T("snapAhead") {
								okBurn, why = false, "meta.Index used although it is not > getLastIndex()"
							}
						case "recv.raftState.getLastIndex()":
							if !st.F("snapAhead") {
								okBurn, why = false, "getLastIndex() used although meta.Index is larger"
							}
						default:
							okBurn, why = false, "unexpected source "+d
						}
					}
				}
			}
		}
	}
	c.Check("R4", "restoreUserSnapshot:burned-index", c.P.InstrPos(create), "new index = max(getLastIndex(), meta.Index) + 1: above the snapshot's index and every earlier index", okBurn, pick(okBurn, idxD, why), 2)
	term := c.P.Arg(create, 2)
	c.Check("R4", "restoreUserSnapshot:create-args", c.P.InstrPos(create), "Create(meta.Version, burned index, getCurrentTerm(), configurations.latest, configurations.latestIndex, trans)",
		c.P.Arg(create, 0) == "p1.Version" && term == curTerm && c.P.Arg(create, 3) == "recv.configurations.latest" && c.P.Arg(create, 4) == "recv.configurations.latestIndex",
		"Create("+c.P.Arg(create, 0)+", …, "+term+", "+c.P.Arg(create, 3)+", "+c.P.Arg(create, 4)+")", 1)
	for _, pc := range []struct {
		callee string
		args   []string
	}{
		{"(*raftState).setLastLog", []string{idxD, curTerm}},
		{"(*raftState).setLastApplied", []string{idxD}},
		{"(*raftState).setLastSnapshot", []string{idxD, curTerm}},
	} {
		ss := c.P.CallsIn(fn, engine.Is(pc.callee))
		if len(ss) != 1 {
			c.Bad("R4", "restoreUserSnapshot:"+pc.callee, c.P.Pos(fn.Pos()), "exactly one call of "+pc.callee, fmt.Sprintf("%d", len(ss)))
		}
		for _, s := range ss {
			ok := true
			var got []string
			for i, want := range pc.args {
				got = append(got, c.P.Arg(s.Instr, i))
				if c.P.Arg(s.Instr, i) != want {
					ok = false
				}
			}
			c.Check("R4", "restoreUserSnapshot:"+pc.callee+"-args", c.P.InstrPos(s.Instr), pc.callee+" gets the burned index (and current term) the snapshot was created at", ok, "("+strings.Join(got, ", ")+")", 1)
			// R5 ordering
			c.RequireAt(r, "R5", "restoreUserSnapshot:"+pc.callee+"-after-restore", s.Instr, "snapshot durable (copy complete, size equal, Close()==nil) and FSM restore succeeded before positions move", restored)
		}
	}
	// R5: cancel on copy failure; restore request only for a durable snapshot; removal last
	for i, ret := range engine.ReturnsOf(fn) {
		c.RequireAt(r, "R5", fmt.Sprintf("restoreUserSnapshot:return#%d", i+1), ret, "a failed or short copy cancels the sink; nil is returned only after restore and all three positions", func(v engine.View) bool {
			if v.T("copyErr") || (v.F("copyErr") && v.T("short")) {
				return v.Seen("cancel")
			}
			if c.P.D(engine.ReturnValues(ret)[0]) == "nil" {
				return restored(v) && v.Seen("lastLog") && v.Seen("applied") && v.Seen("snappos")
			}
			return true
		})
	}
	engine.EachInstr(fn, func(in ssa.Instruction) {
		if sel, ok := in.(*ssa.Select); ok {
			for _, st := range sel.States {
				if st.Dir == types.SendOnly && c.P.D(st.Chan) == "recv.fsmMutateCh" {
					c.RequireAt(r, "R5", "restoreUserSnapshot:restore-request-after-durable-snapshot", in, "the FSM is asked to restore only a durable snapshot", durable)
					okID := false
					if f := c.P.LookupField("restoreFuture", "ID"); f != nil {
						for _, w := range c.P.FieldWritesIn(fn, f) {
							v, _ := c.P.StoredValue(w.Instr, f)
							okID = c.P.D(v) == sink+"#0.ID()"
						}
					}
					c.Check("R5", "restoreUserSnapshot:restore-request-names-this-snapshot", c.P.InstrPos(in), "the restore request carries the ID of the sink just closed", okID, pick(okID, "ID = sink.ID()", "different ID"), 1)
				}
			}
		}
	})
	for _, s := range c.P.CallsIn(fn, engine.Is("(*Raft).removeOldLogs")) {
		c.RequireAt(r, "R5", "restoreUserSnapshot:log-removal-last", s.Instr, "old logs are removed only after all positions moved, on monotonic stores", func(v engine.View) bool {
			return restored(v) && v.Seen("lastLog") && v.Seen("applied") && v.Seen("snappos") && v.T("isMonoStore") && v.T("isMono")
		})
	}
}

// reachesAvoiding reports whether to is reachable from from without passing
// through block avoid.
func reachesAvoiding(from, to, avoid *ssa.BasicBlock) bool {
	seen := map[*ssa.BasicBlock]bool{avoid: true}
	var dfs func(b *ssa.BasicBlock) bool
	dfs = func(b *ssa.BasicBlock) bool {
		if b == to {
			return true
		}
		if seen[b] {
			return false
		}
		seen[b] = true
		for _, s := range b.Succs {
			if dfs(s) {
				return true
			}
		}
		return false
	}
	return dfs(from)
}

func c20R2(c *Ctx, rule string) {
	c.WhoMay(rule, "call (*Raft).restoreUserSnapshot", c.P.CallsEverywhere(engine.Is("(*Raft).restoreUserSnapshot")), map[string]string{"(*Raft).leaderLoop": "the userRestoreCh arm"})
	ch := c.Field(rule, "Raft", "userRestoreCh")
	if ch == nil {
		return
	}
	var recvs []engine.Site
	for _, fn := range c.P.AllFuncs() {
		for _, op := range c.P.ChanOps(fn) {
			if !op.IsSend && engine.ChanField(op.Chan) == ch {
				recvs = append(recvs, engine.Site{Fn: fn, Instr: op.Instr})
			}
		}
	}
	c.WhoMay(rule, "receive from userRestoreCh", recvs, map[string]string{
		"(*Raft).runFollower":  "ErrNotLeader",
		"(*Raft).runCandidate": "ErrNotLeader",
		"(*Raft).leaderLoop":   "restore",
	})
	fut := "<-recv.userRestoreCh"
	for _, name := range []string{"(*Raft).runFollower", "(*Raft).runCandidate"} {
		fn := c.P.Fn(name)
		if fn == nil {
			continue
		}
		n := 0
		for _, s := range c.P.CallsIn(fn, engine.Is("(*deferError).respond")) {
			if strings.HasPrefix(c.P.D(engine.RecvValue(s.Instr)), fut) {
				n++
				c.Check(rule, name+":restore-refused", c.P.InstrPos(s.Instr), "non-leaders answer a restore request with ErrNotLeader", c.P.Arg(s.Instr, 0) == "@ErrNotLeader", "answers "+c.P.Arg(s.Instr, 0), 1)
			}
		}
		if n != 1 {
			c.Bad(rule, name+":restore-refused", c.P.Pos(fn.Pos()), "exactly one answer to the received restore future", fmt.Sprintf("%d", n))
		}
	}
	if fn := c.P.Fn("(*Raft).leaderLoop"); fn != nil {
		r := c.Run(&engine.Automaton{Fn: fn, Tracks: []engine.Track{
			engine.Event("loop", isSelect, "transfer"),
			engine.PredBool("transfer", DescIs("recv.getLeadershipTransferInProgress()")),
		}})
		for _, s := range c.P.CallsIn(fn, engine.Is("(*Raft).restoreUserSnapshot")) {
			ok := c.P.Arg(s.Instr, 0) == fut+".meta" && c.P.Arg(s.Instr, 1) == fut+".reader"
			c.RequireAt(r, rule, "leaderLoop:restore-not-during-transfer", s.Instr, "refused while a leadership transfer is in progress; meta/reader come from the received future", func(v engine.View) bool { return v.F("transfer") && ok })
		}
		for _, s := range c.P.CallsIn(fn, engine.Is("(*deferError).respond")) {
			if strings.HasPrefix(c.P.D(engine.RecvValue(s.Instr)), fut) {
				a := c.P.Arg(s.Instr, 0)
				ok := a == "@ErrLeadershipTransferInProgress" || strings.HasPrefix(a, "recv.restoreUserSnapshot(")
				c.Check(rule, "leaderLoop:restore-answer", c.P.InstrPos(s.Instr), "the future is answered with the refusal or with restoreUserSnapshot's own result", ok, "answers "+a, 1)
			}
		}
	}
}

func c20R6(c *Ctx, rule string) {
	fn := c.Fn(rule, "(*Raft).Restore")
	if fn == nil {
		return
	}
	var sels []*ssa.Select
	engine.EachInstr(fn, func(in ssa.Instruction) {
		if s, ok := in.(*ssa.Select); ok {
			sels = append(sels, s)
		}
	})
	if len(sels) != 2 {
		c.Bad(rule, "Restore:selects", c.P.Pos(fn.Pos()), "two enqueue selects (restore request, follow-up no-op)", fmt.Sprintf("%d", len(sels)))
		return
	}
	want := []string{"recv.userRestoreCh", "recv.applyCh"}
	for i, s := range sels {
		timer, shut, send := false, false, ""
		for _, st := range s.States {
			d := c.P.D(st.Chan)
			switch {
			case st.Dir == types.SendOnly:
				send = d
			case d == "recv.shutdownCh":
				shut = true
			case strings.Contains(d, "time.After("):
				timer = true
			}
		}
		c.Check(rule, fmt.Sprintf("Restore:enqueue#%d", i+1), c.P.InstrPos(s), "blocking select: send on "+want[i]+" racing the caller's timer and shutdownCh", s.Blocking && timer && shut && send == want[i], fmt.Sprintf("send on %s, timer=%v shutdown=%v", send, timer, shut), 1)
	}
	r := c.Run(&engine.Automaton{Fn: fn, Tracks: []engine.Track{
		engine.Event("asked", func(in ssa.Instruction) bool { return in == ssa.Instruction(sels[0]) }),
		engine.PredCond("restoreErr", errNotNil("new(userRestoreFuture).deferError.Error(")),
		engine.Event("noop", func(in ssa.Instruction) bool { return in == ssa.Instruction(sels[1]) }),
	}})
	c.RequireAt(r, rule, "Restore:noop-only-after-successful-restore", sels[1], "the follow-up no-op is enqueued only after the restore future resolved without error", func(v engine.View) bool { return v.Seen("asked") && v.F("restoreErr") })
	isNoop := false
	if lt := c.P.LookupField("Log", "Type"); lt != nil {
		for _, w := range c.P.FieldWritesIn(fn, lt) {
			v, _ := c.P.StoredValue(w.Instr, lt)
			if c.P.D(v) == "LogNoop" {
				isNoop = true
			}
		}
	}
	c.Check(rule, "Restore:follow-up-is-noop", c.P.Pos(fn.Pos()), "the follow-up entry is a LogNoop", isNoop, pick(isNoop, "LogNoop", "other type"), 1)
	nilRet := 0
	for i, ret := range engine.RawReturnsOf(fn) {
		d := c.P.D(engine.ReturnValues(ret)[0])
		switch d {
		case "@ErrEnqueueTimeout", "@ErrRaftShutdown":
			c.Ok(rule, fmt.Sprintf("Restore:return#%d", i+1), c.P.InstrPos(ret), "enqueue escapes", "returns "+d, 1)
		case "new(userRestoreFuture).deferError.Error()":
			c.RequireAt(r, rule, fmt.Sprintf("Restore:return#%d", i+1), ret, "the restore future's error is returned as is", func(v engine.View) bool { return v.T("restoreErr") })
		case "new(logFuture).deferError.Error()":
			nilRet++
			c.RequireAt(r, rule, fmt.Sprintf("Restore:return#%d", i+1), ret, "success is the no-op's outcome (committed ⇒ followers have been sent the snapshot)", func(v engine.View) bool { return v.Seen("noop") && v.F("restoreErr") })
		default:
			if strings.HasPrefix(d, "errors.New(") || strings.HasPrefix(d, "fmt.Errorf(") {
				// an argument check: refusing before anything was enqueued has no effect at all
				c.RequireAt(r, rule, fmt.Sprintf("Restore:return#%d", i+1), ret, "a freshly built error is returned only before the restore was enqueued (a refusal without effect)", func(v engine.View) bool { return !v.Seen("asked") && !v.Seen("noop") })
				continue
			}
			// any other error value returned before anything was enqueued (an
			// argument check done by a helper) is a refusal without effect too
			c.RequireAt(r, rule, fmt.Sprintf("Restore:return#%d", i+1), ret, "an error other than the documented outcomes is returned only before the restore was enqueued (a refusal without effect); returns "+d, func(v engine.View) bool { return !v.Seen("asked") && !v.Seen("noop") })
		}
	}
	if nilRet != 1 {
		c.Bad(rule, "Restore:success-path", c.P.Pos(fn.Pos()), "exactly one success return (the no-op's Error())", fmt.Sprintf("%d", nilRet))
	}
}

// c20CreateStamp: the snapshot a user Restore writes is stamped with the
// leader's CURRENT term (and the burned index), never with the backup's own
// term – the snapshot store orders by term first, so a backup term would let
// an older local snapshot shadow the restored one at the next start
// (shared into C10).
func c20CreateStamp(c *Ctx, rule string) {
	fn := c.Fn(rule, "(*Raft).restoreUserSnapshot")
	if fn == nil {
		return
	}
	ss := c.P.CallsIn(fn, engine.Is("iface:SnapshotStore.Create"))
	if len(ss) != 1 {
		c.Bad(rule, "restoreUserSnapshot:create", c.P.Pos(fn.Pos()), "one SnapshotStore.Create call", fmt.Sprintf("%d", len(ss)))
		return
	}
	idx := c.P.Arg(ss[0].Instr, 1)
	c.Check(rule, "restoreUserSnapshot:create-index-above-the-log", c.P.InstrPos(ss[0].Instr), "the restored snapshot's index is computed from getLastIndex() and meta.Index (+1): above every entry the log holds, applied or not – cancelled in-flight entries stay in the log",
		strings.Contains(idx, "recv.raftState.getLastIndex()") && strings.Contains(idx, "p1.Index") && strings.HasSuffix(idx, "+ 1)") && !strings.Contains(idx, "getLastApplied"), "Create(_, "+idx+", …)", 1)
	term := c.P.Arg(ss[0].Instr, 2)
	c.Check(rule, "restoreUserSnapshot:create-term", c.P.InstrPos(ss[0].Instr), "the restored snapshot is created under getCurrentTerm()", term == "recv.raftState.getCurrentTerm()", "Create(_, _, "+term+", …)", 1)
	for _, callee := range []string{"(*raftState).setLastLog", "(*raftState).setLastSnapshot"} {
		for _, s := range c.P.CallsIn(fn, engine.Is(callee)) {
			t := c.P.Arg(s.Instr, 1)
			c.Check(rule, "restoreUserSnapshot:"+callee+"-term", c.P.InstrPos(s.Instr), "positions after a user restore carry the current term", t == "recv.raftState.getCurrentTerm()", callee+"(_, "+t+")", 1)
		}
	}
}
