package rules

import (
	"fmt"
	"strings"

	"golang.org/x/tools/go/ssa"

	"verif/lint/engine"
)

func init() {
	register(&Property{
		ID:          "C15",
		Explanation: "Decided for all paths (every crash point is a program point between two of these calls): FileSnapshotSink.Close is idempotent and performs finalize (flush, fsync unless noSync, close state file, record size and CRC of the very hash that saw every written byte) ≺ writeMeta (encode, flush, fsync) ≺ rename of the .tmp directory to its final name ≺ fsync of the parent directory ≺ reaping, each step only after the previous one returned nil, a failed finalize removing the temporary directory; nil is returned only after the rename; Create hands out a buffered writer over io.MultiWriter(state file, hash) into a directory whose name ends in .tmp; getSnapshots lists only directories that are not .tmp, whose metadata decodes and has a supported version, sorted by sort.Reverse of a Less that is ascending lexicographic on (Term, Index, ID) for all 27 orderings; List stops at the retain count; ReapSnapshots removes only entries from position retain onwards of that order; Open returns a reader only after the stored CRC equals the checksum of the whole state file read from the same handle and a successful Seek(0,0), closing the handle on every error path; Cancel finalizes then removes the temporary directory.",
		NotDecided:  "what the operating system persists for a directory entry without an fsync of the containing directory (the snapshot directory itself is never fsynced before the rename – recorded as an assumption), byte-identity of contents beyond the CRC, and behaviour on Windows (the parent fsync is compiled out there).",
		Assumptions: []string{"os.Rename of a directory is atomic; fsync on a file/directory makes it and its entries durable", "CRC-64 equality is taken as content equality"},
		RuleText:    "C15.R1/R2/R6 success-checked must-precede chains; R3 guard of the listing append + ordering-oracle evaluation of Less over 3^3 orderings + sort.Reverse; R4 loop-shape rule of the reaper; R5 guard and provenance at Open's success return; R7 who-may tables of rename/remove.",
		Run:         c15,
	})
}

func c15(c *Ctx) {
	c15R1(c, "R1")
	c15R2(c, "R2")
	c15R3(c, "R3")
	c15R4(c, "R4")
	c15R5(c, "R5")
	c15R6(c, "R6")
	c15R7(c, "R7")
}

// sliceLit returns the descriptors of the elements stored into the array
// backing a slice literal / varargs slice.
func sliceLit(c *Ctx, fn *ssa.Function, v ssa.Value) []string {
	sl, ok := v.(*ssa.Slice)
	if !ok {
		return nil
	}
	var out []string
	engine.EachInstr(fn, func(in ssa.Instruction) {
		st, ok := in.(*ssa.Store)
		if !ok {
			return
		}
		ia, ok := st.Addr.(*ssa.IndexAddr)
		if !ok || ia.X != sl.X {
			return
		}
		k, ok := ia.Index.(*ssa.Const)
		if !ok {
			return
		}
		for int(k.Int64()) >= len(out) {
			out = append(out, "")
		}
		out[k.Int64()] = c.P.D(st.Val)
	})
	return out
}

func c15R1(c *Ctx, rule string) {
	fn := c.Fn(rule, "(*FileSnapshotSink).Close")
	if fn == nil {
		return
	}
	tracks := []engine.Track{
		engine.PredBool("closed", DescIs("recv.closed")),
		engine.Event("mark", func(in ssa.Instruction) bool {
			st, ok := in.(*ssa.Store)
			return ok && c.P.D(st.Addr) == "recv.closed" && c.P.D(st.Val) == "true"
		}),
		engine.Event("finalize", c.P.IsCallTo(engine.Is("(*FileSnapshotSink).finalize"))),
		predErr("finErr", "recv.finalize("),
		engine.Event("cleanup", callWithArg0(c, "os.RemoveAll", "recv.dir")),
		engine.Event("meta", c.P.IsCallTo(engine.Is("(*FileSnapshotSink).writeMeta"))),
		predErr("metaErr", "recv.writeMeta("),
		engine.Event("rename", c.P.IsCallTo(engine.Is("os.Rename"))),
		predErr("renameErr", "os.Rename("),
		engine.PredBool("noSync", DescIs("recv.noSync")),
		engine.Event("openParent", callWithArg0(c, "os.Open", "recv.parentDir")),
		engine.PredRel("openErr", "os.Open(recv.parentDir)#1", "nil", engine.LT|engine.GT),
		engine.Event("syncParent", func(in ssa.Instruction) bool {
			cc := engine.CallCommonOf(in)
			return cc != nil && c.P.CalleeName(cc) == "(*os.File).Sync" && c.P.D(engine.RecvValue(in)) == "os.Open(recv.parentDir)#0"
		}),
		predErr("syncErr", "os.Open(recv.parentDir)#0.Sync("),
		engine.Event("reap", c.P.IsCallTo(engine.Is("(*FileSnapshotStore).ReapSnapshots"))),
		predErr("reapErr", "recv.store.ReapSnapshots("),
	}
	// an error variable that is returned may have been re-used for a second
	// call: `if err = cleanup(); err != nil {log}; return err` returns nil when
	// the cleanup worked. Every returned error value gets a track; a return
	// reached with that value established nil is a nil return.
	retTrack := map[string]string{}
	for _, ret := range engine.ReturnsOf(fn) {
		d := c.P.D(engine.ReturnValues(ret)[0])
		if d == "nil" || retTrack[d] != "" {
			continue
		}
		name := fmt.Sprintf("ret%d", len(retTrack))
		retTrack[d] = name
		tracks = append(tracks, engine.PredRel(name, d, "nil", engine.LT|engine.GT))
	}
	r := c.Run(&engine.Automaton{Fn: fn, Tracks: tracks})
	written := func(v engine.View) bool {
		return v.F("closed") && v.Seen("mark") && v.Seen("finalize") && v.F("finErr") && v.Seen("meta") && v.F("metaErr")
	}
	moved := func(v engine.View) bool { return written(v) && v.Seen("rename") && v.F("renameErr") }
	synced := func(v engine.View) bool {
		return moved(v) && (v.T("noSync") || (v.Seen("openParent") && v.F("openErr") && v.Seen("syncParent") && v.F("syncErr")))
	}
	for _, s := range c.P.CallsIn(fn, engine.Is("(*FileSnapshotSink).finalize")) {
		c.RequireAt(r, rule, "Close:idempotent", s.Instr, "a second Close does nothing: the closed flag is tested first and set before any work", func(v engine.View) bool { return v.F("closed") && v.Seen("mark") })
	}
	for _, s := range c.P.CallsIn(fn, engine.Is("(*FileSnapshotSink).writeMeta")) {
		c.RequireAt(r, rule, "Close:meta-after-finalize", s.Instr, "metadata (with size and CRC) is written only after finalize returned nil", func(v engine.View) bool { return v.Seen("finalize") && v.F("finErr") })
	}
	renames := c.P.CallsIn(fn, engine.Is("os.Rename"))
	if len(renames) != 1 {
		c.Bad(rule, "Close:rename", c.P.Pos(fn.Pos()), "exactly one os.Rename", fmt.Sprintf("%d", len(renames)))
	}
	for _, s := range renames {
		a0, a1 := c.P.Arg(s.Instr, 0), c.P.Arg(s.Instr, 1)
		c.RequireAt(r, rule, "Close:rename-after-data-and-meta-durable", s.Instr, "the .tmp directory is renamed (s.dir → s.dir without the .tmp suffix) only after state and metadata were written and fsynced", func(v engine.View) bool {
			return written(v) && a0 == "recv.dir" && a1 == `strings.TrimSuffix(recv.dir, ".tmp")`
		})
	}
	for _, s := range c.P.CallsIn(fn, engine.Is("(*FileSnapshotStore).ReapSnapshots")) {
		c.RequireAt(r, rule, "Close:reap-after-new-snapshot-durable", s.Instr, "older snapshots are reaped only after the new one is renamed and the parent directory fsynced (unless noSync)", synced)
	}
	nilRets := 0
	for i, ret := range engine.ReturnsOf(fn) {
		d := c.P.D(engine.ReturnValues(ret)[0])
		if d == "nil" {
			nilRets++
			c.RequireAt(r, rule, fmt.Sprintf("Close:return-nil#%d", nilRets), ret, "nil means: already closed, or finalize ≺ writeMeta ≺ rename ≺ parent fsync ≺ reap all succeeded", func(v engine.View) bool {
				return v.T("closed") || (synced(v) && v.Seen("reap") && v.F("reapErr"))
			})
			continue
		}
		c.RequireAt(r, rule, fmt.Sprintf("Close:return-err#%d", i+1), ret, "a failed finalize removes the temporary directory before the error is returned; a returned error value that the path established to be nil counts as a nil return (complete success only)", func(v engine.View) bool {
			if v.F(retTrack[d]) && !(v.T("closed") || (synced(v) && v.Seen("reap") && v.F("reapErr"))) {
				return false
			}
			if v.T("finErr") {
				return v.Seen("cleanup")
			}
			return true
		})
	}
	if nilRets < 2 {
		c.Bad(rule, "Close:nil-returns", c.P.Pos(fn.Pos()), "at least two nil returns (already closed / complete success), each checked above", fmt.Sprintf("%d", nilRets))
	}
}

func c15R2(c *Ctx, rule string) {
	if fn := c.Fn(rule, "(*FileSnapshotSink).finalize"); fn != nil {
		size := c.P.LookupField("SnapshotMeta", "Size")
		crc := c.P.LookupField("fileSnapshotMeta", "CRC")
		r := c.Run(&engine.Automaton{Fn: fn, Tracks: []engine.Track{
			engine.Event("flush", func(in ssa.Instruction) bool {
				cc := engine.CallCommonOf(in)
				return cc != nil && c.P.CalleeName(cc) == "(*bufio.Writer).Flush" && c.P.D(engine.RecvValue(in)) == "recv.buffered"
			}),
			predErr("flushErr", "recv.buffered.Flush("),
			engine.PredBool("noSync", DescIs("recv.noSync")),
			engine.Event("sync", func(in ssa.Instruction) bool {
				cc := engine.CallCommonOf(in)
				return cc != nil && c.P.CalleeName(cc) == "(*os.File).Sync" && c.P.D(engine.RecvValue(in)) == "recv.stateFile"
			}),
			predErr("syncErr", "recv.stateFile.Sync("),
			engine.Event("close", func(in ssa.Instruction) bool {
				cc := engine.CallCommonOf(in)
				return cc != nil && c.P.CalleeName(cc) == "(*os.File).Close" && c.P.D(engine.RecvValue(in)) == "recv.stateFile"
			}),
			predErr("closeErr", "recv.stateFile.Close("),
			engine.PredRel("statErr", "recv.stateFile.Stat()#1", "nil", engine.LT|engine.GT),
			engine.Event("size", func(in ssa.Instruction) bool {
				if size == nil {
					return false
				}
				v, ok := c.P.StoredValue(in, size)
				return ok && c.P.D(v) == "recv.stateFile.Stat()#0.Size()"
			}),
			engine.Event("crc", func(in ssa.Instruction) bool {
				if crc == nil {
					return false
				}
				v, ok := c.P.StoredValue(in, crc)
				return ok && c.P.D(v) == "recv.stateHash.Sum(nil)"
			}),
		}})
		n := 0
		for _, ret := range engine.ReturnsOf(fn) {
			if c.P.D(engine.ReturnValues(ret)[0]) != "nil" {
				continue
			}
			n++
			c.RequireAt(r, rule, "finalize:return-nil", ret, "nil only after: buffered.Flush ok ≺ (noSync ∨ stateFile.Sync ok) ≺ stateFile.Close ok ≺ Stat ok, with meta.Size = Stat().Size() and meta.CRC = stateHash.Sum(nil) recorded", func(v engine.View) bool {
				return v.Seen("flush") && v.F("flushErr") && (v.T("noSync") || (v.Seen("sync") && v.F("syncErr"))) && v.Seen("close") && v.F("closeErr") && v.F("statErr") && v.Seen("size") && v.Seen("crc")
			})
		}
		if n < 1 {
			c.Bad(rule, "finalize:return-nil", c.P.Pos(fn.Pos()), "a success return", fmt.Sprintf("%d", n))
		}
		engine.EachInstr(fn, func(in ssa.Instruction) {
			if crc == nil {
				return
			}
			if _, ok := c.P.StoredValue(in, crc); ok {
				c.RequireAt(r, rule, "finalize:crc-after-flush", in, "the checksum is taken only after the buffered writer was flushed (so it covers every byte of the state file)", func(v engine.View) bool { return v.Seen("flush") && v.F("flushErr") })
			}
		})
		for _, s := range c.P.CallsIn(fn, engine.Is("(*os.File).Sync")) {
			c.RequireAt(r, rule, "finalize:sync-after-flush", s.Instr, "fsync of the state file comes after the buffered writer was flushed into it", func(v engine.View) bool { return v.Seen("flush") && v.F("flushErr") })
		}
		for _, s := range c.P.CallsIn(fn, engine.Is("(*os.File).Close")) {
			c.RequireAt(r, rule, "finalize:close-after-sync", s.Instr, "the state file is closed only after flush and (unless noSync) fsync", func(v engine.View) bool {
				return v.Seen("flush") && v.F("flushErr") && (v.T("noSync") || (v.Seen("sync") && v.F("syncErr")))
			})
		}
	}
	if fn := c.Fn(rule, "(*FileSnapshotSink).writeMeta"); fn != nil {
		var fh string
		for _, s := range c.P.CallsIn(fn, engine.Is("os.Create")) {
			fh = c.CallDesc(s.Instr)
			elems := sliceLit(c, fn, engine.CallCommonOf(c.FirstCall(fn, engine.Is("path/filepath.Join"))).Args[0])
			ok := len(elems) == 2 && elems[0] == "recv.dir" && strings.Contains(elems[1], "meta.json")
			c.Check(rule, "writeMeta:path", c.P.InstrPos(s.Instr), "metadata goes to <s.dir>/meta.json", ok, fmt.Sprintf("Join(%v)", elems), 1)
		}
		r := c.Run(&engine.Automaton{Fn: fn, Tracks: []engine.Track{
			engine.Event("create", c.P.IsCallTo(engine.Is("os.Create"))),
			engine.PredRel("createErr", fh+"#1", "nil", engine.LT|engine.GT),
			engine.Event("encode", func(in ssa.Instruction) bool {
				cc := engine.CallCommonOf(in)
				return cc != nil && c.P.CalleeName(cc) == "(*encoding/json.Encoder).Encode" && c.P.Arg(in, 0) == "recv.meta" && strings.Contains(c.P.D(engine.RecvValue(in)), "bufio.NewWriter("+fh+"#0)")
			}),
			engine.PredCond("encodeErr", func(cd engine.Cond) (bool, int) {
				if cd.IsRel && strings.HasSuffix(cd.X, ".Encode(recv.meta)") && cd.Y == "nil" {
					if isNEc(cd) {
						return true, engine.True
					}
					return true, engine.False
				}
				return false, 0
			}),
			engine.Event("flush", c.P.IsCallTo(engine.Is("(*bufio.Writer).Flush"))),
			engine.PredCond("flushErr", func(cd engine.Cond) (bool, int) {
				if cd.IsRel && strings.HasSuffix(cd.X, ".Flush()") && cd.Y == "nil" {
					if isNEc(cd) {
						return true, engine.True
					}
					return true, engine.False
				}
				return false, 0
			}),
			engine.PredBool("noSync", DescIs("recv.noSync")),
			engine.Event("sync", func(in ssa.Instruction) bool {
				cc := engine.CallCommonOf(in)
				return cc != nil && c.P.CalleeName(cc) == "(*os.File).Sync" && c.P.D(engine.RecvValue(in)) == fh+"#0"
			}),
			predErr("syncErr", fh+"#0.Sync("),
		}})
		n := 0
		for _, ret := range engine.ReturnsOf(fn) {
			if c.P.D(engine.ReturnValues(ret)[0]) != "nil" {
				continue
			}
			n++
			c.RequireAt(r, rule, "writeMeta:return-nil", ret, "nil only after: Create ok ≺ Encode(&s.meta) ok ≺ Flush ok ≺ (noSync ∨ fh.Sync ok) on that file", func(v engine.View) bool {
				return v.Seen("create") && v.F("createErr") && v.Seen("encode") && v.F("encodeErr") && v.Seen("flush") && v.F("flushErr") && (v.T("noSync") || (v.Seen("sync") && v.F("syncErr")))
			})
		}
		if n < 1 {
			c.Bad(rule, "writeMeta:return-nil", c.P.Pos(fn.Pos()), "a success return", fmt.Sprintf("%d", n))
		}
	}
	// readMeta is writeMeta's sibling: same file name under the snapshot's
	// directory, same codec, same struct; any open/decode error is returned.
	if fn := c.Fn(rule, "(*FileSnapshotStore).readMeta"); fn != nil {
		var fh string
		for _, s := range c.P.CallsIn(fn, engine.Is("os.Open")) {
			fh = c.CallDesc(s.Instr)
			elems := sliceLit(c, fn, engine.CallCommonOf(c.FirstCall(fn, engine.Is("path/filepath.Join"))).Args[0])
			ok := len(elems) == 3 && elems[0] == "recv.path" && elems[1] == "p1" && strings.Contains(elems[2], "meta.json")
			c.Check(rule, "readMeta:path", c.P.InstrPos(s.Instr), "metadata is read from <store path>/<name>/meta.json – the file writeMeta wrote before the rename", ok, fmt.Sprintf("Join(%v)", elems), 1)
		}
		decT := ""
		var decD string
		for _, s := range c.P.CallsIn(fn, engine.Is("(*encoding/json.Decoder).Decode")) {
			if mi, ok := engine.ArgValue(s.Instr, 0).(*ssa.MakeInterface); ok {
				decT = c.P.TypeStr(mi.X.Type())
			}
			decD = c.P.D(engine.RecvValue(s.Instr))
		}
		encT := ""
		if wf := c.P.Fn("(*FileSnapshotSink).writeMeta"); wf != nil {
			for _, s := range c.P.CallsIn(wf, engine.Is("(*encoding/json.Encoder).Encode")) {
				if mi, ok := engine.ArgValue(s.Instr, 0).(*ssa.MakeInterface); ok {
					encT = c.P.TypeStr(mi.X.Type())
				}
			}
		}
		c.Check(rule, "readMeta:same-codec-and-type", c.P.Pos(fn.Pos()), "the reader decodes, with encoding/json from the opened file, the struct type the writer encoded", decT != "" && decT == encT && strings.Contains(decD, fh+"#0"), "writer "+encT+" / reader "+decT, 1)
		r := c.Run(&engine.Automaton{Fn: fn, Tracks: []engine.Track{
			engine.PredRel("openErr", fh+"#1", "nil", engine.LT|engine.GT),
			engine.Event("decoded", c.P.IsCallTo(engine.Is("(*encoding/json.Decoder).Decode"))),
			engine.PredCond("decErr", func(cd engine.Cond) (bool, int) {
				if cd.IsRel && strings.Contains(cd.X, ".Decode(") && cd.Y == "nil" {
					if isNEc(cd) {
						return true, engine.True
					}
					return true, engine.False
				}
				return false, 0
			}),
		}})
		n := 0
		for i, ret := range engine.ReturnsOf(fn) {
			vals := engine.ReturnValues(ret)
			if len(vals) != 2 {
				continue
			}
			m, e := c.P.D(vals[0]), c.P.D(vals[1])
			if m == "new(*fileSnapshotMeta)" && e == "new(error)" {
				continue // recover block of the deferred close: named results as last stored
			}
			n++
			c.RequireAt(r, rule, fmt.Sprintf("readMeta:return#%d", i+1), ret, "metadata is returned with a nil error only after open and decode both succeeded; every failure returns (nil, that error), so getSnapshots skips the directory", func(v engine.View) bool {
				if e == "nil" {
					return v.F("openErr") && v.Seen("decoded") && v.F("decErr") && m == "new(fileSnapshotMeta)"
				}
				return m == "nil" && (strings.HasPrefix(e, "os.Open(") || strings.Contains(e, ".Decode("))
			})
		}
		if n < 3 {
			c.Bad(rule, "readMeta:returns", c.P.Pos(fn.Pos()), "three classified returns", fmt.Sprintf("%d", n))
		}
	}
	if fn := c.Fn(rule, "(*FileSnapshotStore).Create"); fn != nil {
		// directory name ends in .tmp
		var mk ssa.Instruction
		for _, s := range c.P.CallsIn(fn, engine.Is("os.MkdirAll")) {
			mk = s.Instr
		}
		okTmp := false
		var dirD string
		if mk != nil {
			dirD = c.P.Arg(mk, 0)
			if jc, ok := engine.ArgValue(mk, 0).(*ssa.Call); ok {
				elems := sliceLit(c, fn, jc.Common().Args[0])
				okTmp = len(elems) == 2 && elems[0] == "recv.path" && elems[1] == `(snapshotName(p3, p2) + ".tmp")`
				dirD = fmt.Sprintf("Join(%v)", elems)
			}
		}
		c.Check(rule, "Create:temporary-directory", c.P.Pos(fn.Pos()), "the snapshot is built in <store path>/<name>.tmp (never listed until renamed)", okTmp, dirD, 1)
		// writer chain
		buffered := c.P.LookupField("FileSnapshotSink", "buffered")
		okW := false
		var wd string
		if buffered != nil {
			for _, w := range c.P.FieldWritesIn(fn, buffered) {
				v, _ := c.P.StoredValue(w.Instr, buffered)
				wd = c.P.D(v)
				if call, ok := v.(*ssa.Call); ok && c.P.CalleeName(call.Common()) == "bufio.NewWriter" {
					if mw, ok := call.Common().Args[0].(*ssa.Call); ok && c.P.CalleeName(mw.Common()) == "io.MultiWriter" {
						elems := sliceLit(c, fn, mw.Common().Args[0])
						okW = len(elems) == 2 && elems[0] == "new(FileSnapshotSink).stateFile" && elems[1] == "new(FileSnapshotSink).stateHash"
						wd = fmt.Sprintf("bufio.NewWriter(io.MultiWriter(%v))", elems)
					}
				}
			}
		}
		c.Check(rule, "Create:every-byte-hashed-and-written", c.P.Pos(fn.Pos()), "the sink's writer is a bufio.Writer over io.MultiWriter(stateFile, stateHash): what is hashed is exactly what is written", okW, wd, 1)
		sf := c.P.LookupField("FileSnapshotSink", "stateFile")
		if sf != nil {
			for _, w := range c.P.FieldWritesIn(fn, sf) {
				v, _ := c.P.StoredValue(w.Instr, sf)
				c.Check(rule, "Create:state-file", c.P.InstrPos(w.Instr), "the state file is the file just created inside the temporary directory", strings.HasPrefix(c.P.D(v), "os.Create("), "= "+c.P.D(v), 1)
			}
		}
		for _, f := range []string{"stateFile", "stateHash", "buffered"} {
			if fv := c.P.LookupField("FileSnapshotSink", f); fv != nil {
				c.WhoMay(rule, "write FileSnapshotSink."+f, c.P.FieldWrites(fv), map[string]string{"(*FileSnapshotStore).Create": "set up once per sink"})
			}
		}
		for _, pair := range [][2]string{{"Index", "p2"}, {"Term", "p3"}, {"Configuration", "p4"}, {"ConfigurationIndex", "p5"}} {
			if fv := c.P.LookupField("SnapshotMeta", pair[0]); fv != nil {
				for _, w := range c.P.FieldWritesIn(fn, fv) {
					v, _ := c.P.StoredValue(w.Instr, fv)
					c.Check(rule, "Create:meta."+pair[0], c.P.InstrPos(w.Instr), "metadata records the caller's "+pair[0], c.P.D(v) == pair[1], "= "+c.P.D(v), 1)
				}
			}
		}
	}
	if fn := c.Fn(rule, "(*FileSnapshotSink).Write"); fn != nil {
		for _, ret := range engine.ReturnsOf(fn) {
			d := c.P.D(engine.ReturnValues(ret)[0])
			c.Check(rule, "Write:through-hashing-writer", c.P.InstrPos(ret), "Write goes through s.buffered", d == "recv.buffered.Write(p1)#0", "returns "+d, 1)
		}
	}
}

func c15R3(c *Ctx, rule string) {
	fn := c.Fn(rule, "(*FileSnapshotStore).getSnapshots")
	if fn == nil {
		return
	}
	ent := "val(range os.ReadDir(recv.path)#0)"
	meta := "recv.readMeta(" + ent + ".Name())"
	r := c.Run(&engine.Automaton{Fn: fn, Tracks: []engine.Track{
		{Name: "iter", If: func(cd engine.Cond, _ *ssa.If) (bool, int) { return cd.IsRel && cd.X == "idx(range)", engine.True }, Kills: []string{"isDir", "tmp", "metaErr", "low", "high"}},
		engine.PredBool("isDir", DescIs(ent+".IsDir()")),
		engine.PredBool("tmp", DescIs(`strings.HasSuffix(`+ent+`.Name(), ".tmp")`)),
		engine.PredRel("metaErr", meta+"#1", "nil", engine.LT|engine.GT),
		engine.PredRel("low", meta+"#0.SnapshotMeta.Version", "SnapshotVersionMin", engine.LT),
		engine.PredRel("high", meta+"#0.SnapshotMeta.Version", "1", engine.GT),
	}})
	n := 0
	var listed ssa.Value
	engine.EachInstr(fn, func(in ssa.Instruction) {
		cc := engine.CallCommonOf(in)
		if cc == nil || c.P.CalleeName(cc) != "builtin:append" || !strings.Contains(c.P.TypeStr(cc.Args[0].Type()), "fileSnapshotMeta") {
			return
		}
		n++
		elems := sliceLit(c, fn, cc.Args[1])
		c.RequireAt(r, rule, "getSnapshots:listing-filter", in, "an entry is listed only if it is a directory, its name does not end in .tmp, its metadata decoded without error and its version is supported; the listed value is that metadata", func(v engine.View) bool {
			return v.T("isDir") && v.F("tmp") && v.F("metaErr") && v.F("low") && v.F("high") && len(elems) == 1 && elems[0] == meta+"#0"
		})
		if v, ok := in.(ssa.Value); ok {
			listed = v
		}
	})
	if n != 1 {
		c.Bad(rule, "getSnapshots:append", c.P.Pos(fn.Pos()), "exactly one append to the listing", fmt.Sprintf("%d", n))
	}
	// an unusable entry is skipped, it never aborts the listing: one
	// half-removed or corrupt directory must not hide the complete snapshots
	for i, ret := range engine.ReturnsOf(fn) {
		c.RequireAt(r, rule, fmt.Sprintf("getSnapshots:bad-entry-skipped-not-fatal#%d", i+1), ret, "no return is reached from an iteration that found a .tmp directory, undecodable metadata or an unsupported version (such entries are skipped and the scan continues)", func(v engine.View) bool {
			return !v.T("metaErr") && !v.T("tmp") && !v.T("low") && !v.T("high") && !v.F("isDir")
		})
	}
	// sorted newest first
	sorted := false
	var lessType string
	for _, s := range c.P.CallsIn(fn, engine.Is("sort.Sort")) {
		arg := engine.CallCommonOf(s.Instr).Args[0]
		if rc, ok := arg.(*ssa.Call); ok && c.P.CalleeName(rc.Common()) == "sort.Reverse" {
			inner := rc.Common().Args[0]
			if mi, ok := inner.(*ssa.MakeInterface); ok {
				lessType = c.P.TypeStr(mi.X.Type())
				sorted = strings.Contains(c.P.D(mi.X), "fileSnapshotMeta") || c.P.TypeStr(mi.X.Type()) == "snapMetaSlice"
			}
		}
	}
	c.Check(rule, "getSnapshots:sorted-descending", c.P.Pos(fn.Pos()), "the listing is sorted with sort.Sort(sort.Reverse(snapMetaSlice(…))): newest first", sorted && lessType == "snapMetaSlice", "sort type "+lessType, 1)
	for _, ret := range engine.ReturnsOf(fn) {
		vals := engine.ReturnValues(ret)
		if c.P.D(vals[1]) == "nil" {
			rr := c.Run(&engine.Automaton{Fn: fn, Tracks: []engine.Track{engine.Event("sorted", c.P.IsCallTo(engine.Is("sort.Sort")))}})
			c.RequireAt(rr, rule, "getSnapshots:return-sorted", ret, "the listing is returned only after sorting", func(v engine.View) bool { return v.Seen("sorted") })
		}
	}
	_ = listed
	sortSupportSound(c, rule, "snapMetaSlice")
	// Less: ascending lexicographic on (Term, Index, ID), all 27 orderings
	if lf := c.Fn(rule, "(snapMetaSlice).Less"); lf != nil {
		keys := []string{"Term", "Index", "ID"}
		a := func(k string) string { return "recv[p1].SnapshotMeta." + k }
		b := func(k string) string { return "recv[p2].SnapshotMeta." + k }
		bad := ""
		n := 0
		ords := []engine.OrdSet{engine.LT, engine.EQ, engine.GT}
		for _, o0 := range ords {
			for _, o1 := range ords {
				for _, o2 := range ords {
					o := map[string]engine.OrdSet{"Term": o0, "Index": o1, "ID": o2}
					want := o0 == engine.LT || (o0 == engine.EQ && (o1 == engine.LT || (o1 == engine.EQ && o2 == engine.LT)))
					resolve := func(cd engine.Cond) (bool, bool) {
						for _, k := range keys {
							if s, ok := cd.RelOn(a(k), b(k)); ok {
								return o[k]&s != 0, true
							}
						}
						return false, false
					}
					rr := c.Run(&engine.Automaton{Fn: lf, Oracle: func(ifi *ssa.If, cd engine.Cond) engine.EdgeChoice {
						if t, ok := resolve(cd); ok {
							if t {
								return engine.TrueOnly
							}
							return engine.FalseOnly
						}
						return engine.Both
					}})
					got, found := false, 0
					for _, ret := range engine.ReturnsOf(lf) {
						if !rr.Reached(ret) {
							continue
						}
						found++
						cd := c.P.CondOf(engine.ReturnValues(ret)[0])
						t, ok := resolve(cd)
						if !ok {
							bad = "unrecognised result " + cd.String()
						}
						got = t
					}
					n++
					if found != 1 {
						bad = fmt.Sprintf("ordering (%s,%s,%s): %d reachable returns", ordNames[o0], ordNames[o1], ordNames[o2], found)
					} else if got != want && bad == "" {
						bad = fmt.Sprintf("Less with Term%s Index%s ID%s returns %v, lexicographic (Term,Index,ID) order needs %v", ordNames[o0], ordNames[o1], ordNames[o2], got, want)
					}
				}
			}
		}
		c.Check(rule, "snapMetaSlice.Less:lexicographic-term-index-id", c.P.Pos(lf.Pos()), "Less(i,j) is true exactly when (Term,Index,ID) of i is lexicographically smaller, for all 27 orderings of the three key pairs", bad == "", pick(bad == "", fmt.Sprintf("verified on %d orderings", n), bad), n)
	}
	// List stops at retain
	if lf := c.Fn(rule, "(*FileSnapshotStore).List"); lf != nil {
		okStop := false
		engine.EachInstr(lf, func(in ssa.Instruction) {
			if ifi, ok := in.(*ssa.If); ok {
				cd := c.P.CondOf(ifi.Cond)
				cd, _ = cd.WithY(func(d string) bool { return d == "recv.retain" })
				if cd.IsRel && strings.HasPrefix(cd.X, "len(") && cd.Y == "recv.retain" && cd.EdgeOrd(true) == engine.EQ {
					// true edge must leave the loop
					okStop = !engine.Reaches(ifi.Block().Succs[0], ifi.Block())
				}
			}
		})
		c.Check(rule, "List:bounded-by-retain", c.P.Pos(lf.Pos()), "List stops collecting once it holds `retain` snapshots", okStop, pick(okStop, "len(result) == retain → break", "no such bound"), 1)
		src := ""
		for _, s := range c.P.CallsIn(lf, engine.Is("(*FileSnapshotStore).getSnapshots")) {
			src = c.CallDesc(s.Instr)
		}
		c.Check(rule, "List:from-filtered-sorted-listing", c.P.Pos(lf.Pos()), "List takes its entries, in order, from getSnapshots()", src != "", "source "+src, 1)
	}
}

func c15R4(c *Ctx, rule string) {
	fn := c.Fn(rule, "(*FileSnapshotStore).ReapSnapshots")
	if fn == nil {
		return
	}
	removes := c.P.CallsIn(fn, engine.Is("os.RemoveAll"))
	if len(removes) != 1 {
		c.Bad(rule, "ReapSnapshots:remove", c.P.Pos(fn.Pos()), "exactly one os.RemoveAll", fmt.Sprintf("%d", len(removes)))
		return
	}
	// the path removed is Join(f.path, snapshots[i].ID) with i the loop variable
	var idx *ssa.Phi
	okPath := false
	var pathD string
	if jc, ok := engine.ArgValue(removes[0].Instr, 0).(*ssa.Call); ok {
		elems := sliceLit(c, fn, jc.Common().Args[0])
		pathD = fmt.Sprintf("Join(%v)", elems)
		okPath = len(elems) == 2 && elems[0] == "recv.path" && strings.HasPrefix(elems[1], "recv.getSnapshots()#0[") && strings.HasSuffix(elems[1], ".ID")
	}
	engine.EachInstr(fn, func(in ssa.Instruction) {
		if ifi, ok := in.(*ssa.If); ok {
			cd := c.P.CondOf(ifi.Cond)
			cd, _ = cd.WithY(func(d string) bool { return d == "len(recv.getSnapshots()#0)" })
			if cd.IsRel && cd.Y == "len(recv.getSnapshots()#0)" && cd.EdgeOrd(true) == engine.LT {
				if ph, ok := cd.XV.(*ssa.Phi); ok {
					idx = ph
				}
			}
		}
	})
	startOK, stepOK := false, false
	if idx != nil {
		for _, e := range idx.Edges {
			if b, ok := e.(*ssa.BinOp); ok && b.X == ssa.Value(idx) {
				if k, ok := b.Y.(*ssa.Const); ok && b.Op.String() == "+" && k.Int64() == 1 {
					stepOK = true
				}
				continue
			}
			if c.P.D(e) == "recv.retain" {
				startOK = true
			}
		}
		okPath = okPath && strings.Contains(pathD, "["+c.P.D(idx)+"]")
	}
	idxD := "?"
	if idx != nil {
		idxD = c.P.D(idx)
	}
	rangeForm := false
	if jc, ok := engine.ArgValue(removes[0].Instr, 0).(*ssa.Call); ok {
		elems := sliceLit(c, fn, jc.Common().Args[0])
		if len(elems) == 2 && elems[0] == "recv.path" && (elems[1] == "val(range recv.getSnapshots()#0).ID" || elems[1] == "val(range recv.getSnapshots()#0).SnapshotMeta.ID") {
			// for i, s := range snapshots { if i < f.retain { continue }; remove(s.ID) }
			rr := c.Run(&engine.Automaton{Fn: fn, Tracks: []engine.Track{
				{Name: "iter", If: func(cd engine.Cond, _ *ssa.If) (bool, int) {
					return cd.IsRel && cd.X == "idx(range)" && cd.Y == "len(recv.getSnapshots()#0)", engine.True
				}, Kills: []string{"below"}},
				engine.PredRel("below", "idx(range)", "recv.retain", engine.LT),
			}})
			rangeForm = true
			c.RequireAt(rr, rule, "ReapSnapshots:only-beyond-retain", removes[0].Instr, "removal walks the newest-first listing and removes <path>/<that snapshot's ID> only for positions >= retain (never the newest `retain` snapshots)", func(v engine.View) bool { return v.F("below") })
		}
	}
	if !rangeForm {
		c.Check(rule, "ReapSnapshots:only-beyond-retain", c.P.InstrPos(removes[0].Instr), "removal walks the newest-first listing from position `retain` upwards (never the newest `retain` snapshots) and removes <path>/<that snapshot's ID>", idx != nil && startOK && stepOK && okPath, "index "+idxD+", path "+pathD, 1)
	}
	r := c.Run(&engine.Automaton{Fn: fn, Tracks: []engine.Track{predErr("listErr", "recv.getSnapshots()#1")}})
	c.RequireAt(r, rule, "ReapSnapshots:listing-read", removes[0].Instr, "nothing is removed when the listing could not be read", func(v engine.View) bool { return v.F("listErr") })
	c.WhoMay(rule, "call (*FileSnapshotStore).ReapSnapshots", c.P.CallsEverywhere(engine.Is("(*FileSnapshotStore).ReapSnapshots")), map[string]string{"(*FileSnapshotSink).Close": "after the new snapshot is in place"})
	if f := c.Field(rule, "FileSnapshotStore", "retain"); f != nil {
		c.WhoMay(rule, "write FileSnapshotStore.retain", c.P.FieldWrites(f), map[string]string{"NewFileSnapshotStoreWithLogger": "validated (>= 1) at construction"})
		if nf := c.P.Fn("NewFileSnapshotStoreWithLogger"); nf != nil {
			rr := c.Run(&engine.Automaton{Fn: nf, Tracks: []engine.Track{engine.PredRel("tooFew", "p2", "0", engine.LT|engine.EQ)}})
			for _, w := range c.P.FieldWritesIn(nf, f) {
				c.RequireAt(rr, rule, "NewFileSnapshotStore:retain-at-least-one", w.Instr, "retain >= 1", func(v engine.View) bool { return v.F("tooFew") })
			}
		}
	}
}

func c15R5(c *Ctx, rule string) {
	fn := c.Fn(rule, "(*FileSnapshotStore).Open")
	if fn == nil {
		return
	}
	var fh string
	for _, s := range c.P.CallsIn(fn, engine.Is("os.Open")) {
		fh = c.CallDesc(s.Instr)
		if jc, ok := engine.ArgValue(s.Instr, 0).(*ssa.Call); ok {
			elems := sliceLit(c, fn, jc.Common().Args[0])
			ok := len(elems) == 3 && elems[0] == "recv.path" && elems[1] == "p1" && strings.Contains(elems[2], "state.bin")
			c.Check(rule, "Open:state-path", c.P.InstrPos(s.Instr), "opens <path>/<id>/state.bin", ok, fmt.Sprintf("Join(%v)", elems), 1)
		}
	}
	hash := "hash/crc64.New(hash/crc64.MakeTable(14514072000185962306))"
	r := c.Run(&engine.Automaton{Fn: fn, Tracks: []engine.Track{
		predErr("metaErr", "recv.readMeta(p1)#1"),
		engine.PredRel("openErr", fh+"#1", "nil", engine.LT|engine.GT),
		engine.Event("hashed", func(in ssa.Instruction) bool {
			cc := engine.CallCommonOf(in)
			return cc != nil && c.P.CalleeName(cc) == "io.Copy" && c.P.Arg(in, 0) == hash && c.P.Arg(in, 1) == fh+"#0"
		}),
		engine.PredCond("copyErr", func(cd engine.Cond) (bool, int) {
			if cd.IsRel && strings.HasPrefix(cd.X, "io.Copy(") && strings.HasSuffix(cd.X, "#1") && cd.Y == "nil" {
				if isNEc(cd) {
					return true, engine.True
				}
				return true, engine.False
			}
			return false, 0
		}),
		engine.PredBool("crcOK", func(d string) bool {
			return d == "bytes.Equal(recv.readMeta(p1)#0.CRC, "+hash+".Sum(nil))" || d == "bytes.Equal("+hash+".Sum(nil), recv.readMeta(p1)#0.CRC)"
		}),
		engine.Event("rewound", func(in ssa.Instruction) bool {
			cc := engine.CallCommonOf(in)
			return cc != nil && c.P.CalleeName(cc) == "(*os.File).Seek" && c.P.D(engine.RecvValue(in)) == fh+"#0" && c.P.Arg(in, 0) == "0" && c.P.Arg(in, 1) == "0"
		}),
		engine.PredCond("seekErr", func(cd engine.Cond) (bool, int) {
			if cd.IsRel && strings.Contains(cd.X, ".Seek(0, 0)#1") && cd.Y == "nil" {
				if isNEc(cd) {
					return true, engine.True
				}
				return true, engine.False
			}
			return false, 0
		}),
		engine.Event("closed", func(in ssa.Instruction) bool {
			cc := engine.CallCommonOf(in)
			return cc != nil && c.P.CalleeName(cc) == "(*os.File).Close" && c.P.D(engine.RecvValue(in)) == fh+"#0"
		}),
	}})
	okRet := 0
	for i, ret := range engine.ReturnsOf(fn) {
		vals := engine.ReturnValues(ret)
		if len(vals) != 3 {
			continue
		}
		if c.P.D(vals[2]) == "nil" {
			okRet++
			c.RequireAt(r, rule, "Open:success-needs-verified-checksum", ret, "a reader is returned only after the whole state file was hashed from this handle, the stored CRC equals the computed one, and the handle was rewound to 0", func(v engine.View) bool {
				return v.F("metaErr") && v.F("openErr") && v.Seen("hashed") && v.F("copyErr") && v.T("crcOK") && v.Seen("rewound") && v.F("seekErr") && c.P.D(vals[0]) == "recv.readMeta(p1)#0.SnapshotMeta"
			})
			continue
		}
		c.RequireAt(r, rule, fmt.Sprintf("Open:error-return#%d", i+1), ret, "an error return hands out no reader and closes the state file if it was opened", func(v engine.View) bool {
			if c.P.D(vals[1]) != "nil" {
				return false
			}
			if v.F("openErr") {
				return v.Seen("closed")
			}
			return true
		})
	}
	if okRet != 1 {
		c.Bad(rule, "Open:success-return", c.P.Pos(fn.Pos()), "one success return", fmt.Sprintf("%d", okRet))
	}
	// the reader wraps the same handle
	bf := c.P.LookupField("bufferedFile", "fh")
	if bf != nil {
		for _, w := range c.P.FieldWritesIn(fn, bf) {
			v, _ := c.P.StoredValue(w.Instr, bf)
			c.Check(rule, "Open:reader-is-the-verified-handle", c.P.InstrPos(w.Instr), "the returned reader reads from the handle whose content was just verified", c.P.D(v) == fh+"#0", "= "+c.P.D(v), 1)
		}
	}
	if bh := c.P.LookupField("bufferedFile", "bh"); bh != nil {
		for _, w := range c.P.FieldWritesIn(fn, bh) {
			v, _ := c.P.StoredValue(w.Instr, bh)
			c.Check(rule, "Open:buffer-over-the-verified-handle", c.P.InstrPos(w.Instr), "the buffered reader handed out wraps that same handle", c.P.D(v) == "bufio.NewReader("+fh+"#0)", "= "+c.P.D(v), 1)
		}
	}
	if rf := c.Fn(rule, "(*bufferedFile).Read"); rf != nil {
		ok := false
		d := ""
		for _, ret := range engine.ReturnsOf(rf) {
			vals := engine.ReturnValues(ret)
			d = c.P.D(vals[0]) + ", " + c.P.D(vals[1])
			ok = d == "recv.bh.Read(p1)#0, recv.bh.Read(p1)#1"
		}
		c.Check(rule, "bufferedFile.Read:passes-through", c.P.Pos(rf.Pos()), "Read returns exactly what the buffered reader over the verified handle returned", ok, "returns "+d, 1)
	}
}

func c15R6(c *Ctx, rule string) {
	fn := c.Fn(rule, "(*FileSnapshotSink).Cancel")
	if fn == nil {
		return
	}
	r := c.Run(&engine.Automaton{Fn: fn, Tracks: []engine.Track{
		engine.PredBool("closed", DescIs("recv.closed")),
		engine.Event("mark", func(in ssa.Instruction) bool {
			st, ok := in.(*ssa.Store)
			return ok && c.P.D(st.Addr) == "recv.closed" && c.P.D(st.Val) == "true"
		}),
		engine.Event("finalize", c.P.IsCallTo(engine.Is("(*FileSnapshotSink).finalize"))),
		predErr("finErr", "recv.finalize("),
	}})
	n := 0
	for _, s := range c.P.CallsIn(fn, engine.Is("os.RemoveAll")) {
		n++
		c.RequireAt(r, rule, "Cancel:remove-temporary-directory", s.Instr, "Cancel marks the sink closed, finalizes (closes the state file) and then removes the .tmp directory", func(v engine.View) bool {
			return v.F("closed") && v.Seen("mark") && v.Seen("finalize") && v.F("finErr") && c.P.Arg(s.Instr, 0) == "recv.dir"
		})
	}
	if n != 1 {
		c.Bad(rule, "Cancel:remove", c.P.Pos(fn.Pos()), "one RemoveAll(s.dir)", fmt.Sprintf("%d", n))
	}
	// nothing renames in Cancel
	c.Check(rule, "Cancel:never-publishes", c.P.Pos(fn.Pos()), "Cancel never renames the directory or writes final metadata", len(c.P.CallsIn(fn, engine.Is("os.Rename", "(*FileSnapshotSink).writeMeta"))) == 0, "no rename/writeMeta", 1)
}

func c15R7(c *Ctx, rule string) {
	inFile := func(ss []engine.Site) []engine.Site {
		var out []engine.Site
		for _, s := range ss {
			if strings.HasPrefix(c.P.InstrPos(s.Instr), "file_snapshot.go") {
				out = append(out, s)
			}
		}
		return out
	}
	c.WhoMay(rule, "call os.Rename (file snapshot store)", inFile(c.P.CallsEverywhere(engine.Is("os.Rename"))), map[string]string{"(*FileSnapshotSink).Close": "publish a finished snapshot"})
	c.WhoMay(rule, "call os.RemoveAll (file snapshot store)", inFile(c.P.CallsEverywhere(engine.Is("os.RemoveAll"))), map[string]string{
		"(*FileSnapshotSink).Close":          "failed finalize: drop the temporary directory",
		"(*FileSnapshotSink).Cancel":         "cancelled snapshot",
		"(*FileSnapshotStore).ReapSnapshots": "retention",
	})
	c.WhoMay(rule, "call os.Remove (file snapshot store)", inFile(c.P.CallsEverywhere(engine.Is("os.Remove"))), map[string]string{"(*FileSnapshotStore).testPermissions": "permission probe file"})
	if f := c.Field(rule, "FileSnapshotSink", "dir"); f != nil {
		c.WhoMay(rule, "write FileSnapshotSink.dir", c.P.FieldWrites(f), map[string]string{"(*FileSnapshotStore).Create": "the .tmp directory"})
	}
}
