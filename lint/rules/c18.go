package rules

import (
	"fmt"
	"go/types"
	"strings"

	"golang.org/x/tools/go/ssa"

	"verif/lint/engine"
)

func init() {
	register(&Property{
		ID:          "C18",
		Explanation: "Decided for all paths: only runLeader (true, first thing on entry) and its deferred exit function (false) write to leaderCh and send on the configured NotifyCh; the deferred function is registered on every path that reaches leaderLoop and both sides use the channel value read once from the configuration; on the NotifyCh the blocking send may only be abandoned through shutdownCh, and then a non-blocking attempt is still made; runLeader runs only in state Leader and the only way into that state is the vote-winning arm (C01.R1); every state change clears the advertised leader first; a non-empty leader is advertised only by the winner itself and by AppendEntries/InstallSnapshot handlers after the stale-term test (so it names a server that sent a leader RPC of a term >= ours, which S-HIGHER then makes equal to ours); leaving leadership clears the advertisement only if it still names this server; overrideNotifyBool either sends, or drains one value and sends (panic otherwise), so the channel always ends up holding the latest value.",
		NotDecided:  "what a slow or absent NotifyCh consumer observes around shutdown, and 'ends up holding the most recent' under concurrent readers of LeaderCh.",
		RuleText:    "C18.R1 sender tables; R2 pairing/ordering in runLeader and its deferred function; R3 = C01.R1/R5 excerpts; R4 setState/setLeader call sites with guards; R5 shape of overrideNotifyBool.",
		Run:         c18,
	})
}

func c18(c *Ctx) {
	c18R1(c, "R1")
	c18R2(c, "R2")
	c01R1(c, "R3/C01.R1")
	if fn := c.Fn("R3", "(*Raft).run"); fn != nil {
		r := c.Run(&engine.Automaton{Fn: fn, Tracks: []engine.Track{engine.PredRel("isLeader", "recv.raftState.getState()", "Leader", engine.EQ)}})
		for _, s := range c.P.CallsIn(fn, engine.Is("(*Raft).runLeader")) {
			c.RequireAt(r, "R3", "run:runLeader-only-as-leader", s.Instr, "getState() == Leader", func(v engine.View) bool { return v.T("isLeader") })
		}
		c.WhoMay("R3", "call (*Raft).runLeader", c.P.CallsEverywhere(engine.Is("(*Raft).runLeader")), map[string]string{"(*Raft).run": "state dispatch"})
	}
	c18R4(c, "R4")
	c18R5(c, "R5")
	sLockDiscipline(c, "R6/S-LOCK", "Raft")
	// followers advertise whoever sends them AppendEntries of the current term:
	// only replication routines started by the winner of a term send, with the
	// term frozen when they were started (round-7 seed C18-M: a leftover
	// heartbeat routine re-stamping its request with the live term makes
	// followers advertise a server that never led that term)
	c01R5(c, "R7/C01.R5")
}

func c18R1(c *Ctx, rule string) {
	c.WhoMay(rule, "call overrideNotifyBool", c.P.CallsEverywhere(engine.Is("overrideNotifyBool")), map[string]string{
		"(*Raft).runLeader":       "gained leadership (true)",
		"(*Raft).runLeader$defer": "lost leadership (false)",
	})
	lc := c.Field(rule, "Raft", "leaderCh")
	if lc != nil {
		var ops []engine.Site
		for _, fn := range c.P.AllFuncs() {
			for _, op := range c.P.ChanOps(fn) {
				if engine.ChanField(op.Chan) == lc {
					ops = append(ops, engine.Site{Fn: fn, Instr: op.Instr})
				}
			}
		}
		c.Check(rule, "leaderCh:no-direct-channel-ops", "-", "nobody sends/receives on r.leaderCh directly (only through overrideNotifyBool; readers get it via LeaderCh())", len(ops) == 0, fmt.Sprintf("%d direct operations", len(ops)), 1)
		c.WhoMay(rule, "write Raft.leaderCh", c.P.FieldWrites(lc), map[string]string{"NewRaft": "created once, capacity 1"})
		for _, s := range c.P.FieldWrites(lc) {
			v, _ := c.P.StoredValue(s.Instr, lc)
			c.Check(rule, "leaderCh:capacity", c.P.InstrPos(s.Instr), "leaderCh has capacity 1 (overrideNotifyBool relies on it)", c.P.D(v) == "make(chan bool, 1)", "= "+c.P.D(v), 1)
		}
	}
	// sends of booleans on a chan<- bool taken from the config
	var sends []engine.Site
	for _, fn := range c.P.AllFuncs() {
		for _, op := range c.P.ChanOps(fn) {
			if op.IsSend && strings.HasSuffix(c.P.D(op.Chan), ".NotifyCh") {
				sends = append(sends, engine.Site{Fn: fn, Instr: op.Instr})
			}
		}
	}
	c.WhoMay(rule, "send on Config.NotifyCh", sends, map[string]string{
		"(*Raft).runLeader":       "true on entry",
		"(*Raft).runLeader$defer": "false on exit",
	})
	for _, args := range [][2]string{{"(*Raft).runLeader", "true"}, {"(*Raft).runLeader$defer", "false"}} {
		fn := c.P.Fn(args[0])
		if fn == nil {
			continue
		}
		for _, s := range c.P.CallsIn(fn, engine.Is("overrideNotifyBool")) {
			ok := c.P.Arg(s.Instr, 0) == "recv.leaderCh" && c.P.Arg(s.Instr, 1) == args[1]
			c.Check(rule, args[0]+":leaderCh-value", c.P.InstrPos(s.Instr), "overrideNotifyBool(r.leaderCh, "+args[1]+")", ok, "("+c.P.Arg(s.Instr, 0)+", "+c.P.Arg(s.Instr, 1)+")", 1)
		}
		for _, op := range c.P.ChanOps(fn) {
			if op.IsSend && strings.HasSuffix(c.P.D(op.Chan), ".NotifyCh") {
				c.Check(rule, args[0]+":notify-value", c.P.InstrPos(op.Instr), "sends "+args[1], c.P.D(op.Send) == args[1], "sends "+c.P.D(op.Send), 1)
			}
		}
	}
}

func c18R2(c *Ctx, rule string) {
	fn := c.Fn(rule, "(*Raft).runLeader")
	def := c.Fn(rule, "(*Raft).runLeader$defer")
	if fn == nil || def == nil {
		return
	}
	isNotifySend := func(blocking bool) func(ssa.Instruction) bool {
		return func(in ssa.Instruction) bool {
			sel, ok := in.(*ssa.Select)
			if !ok || sel.Blocking != blocking {
				return false
			}
			for _, st := range sel.States {
				if st.Dir == types.SendOnly && strings.HasSuffix(c.P.D(st.Chan), ".NotifyCh") {
					return true
				}
			}
			return false
		}
	}
	first := true
	firstOK := false
	engine.EachInstr(fn, func(in ssa.Instruction) {
		cc := engine.CallCommonOf(in)
		if cc == nil {
			return
		}
		n := c.P.CalleeName(cc)
		if strings.Contains(n, "hclog") || strings.Contains(n, "metrics") {
			return
		}
		if first {
			first = false
			firstOK = n == "overrideNotifyBool"
		}
	})
	c.Check(rule, "runLeader:notify-first", c.P.Pos(fn.Pos()), "the first effect of runLeader is overrideNotifyBool(leaderCh, true)", firstOK, pick(firstOK, "first call", "something else comes first"), 1)
	r := c.Run(&engine.Automaton{Fn: fn, Tracks: []engine.Track{
		engine.Event("told", callWithArg0(c, "overrideNotifyBool", "recv.leaderCh")),
		engine.PredRel("haveNotify", "recv.config().NotifyCh", "nil", engine.LT|engine.GT),
		engine.Event("tried", isNotifySend(true)),
		engine.Event("deferred", func(in ssa.Instruction) bool {
			d, ok := in.(*ssa.Defer)
			return ok && c.P.CalleeName(d.Common()) == "(*Raft).runLeader$defer"
		}),
		engine.Event("setup", c.P.IsCallTo(engine.Is("(*Raft).setupLeaderState"))),
	}})
	for _, s := range c.P.CallsIn(fn, engine.Is("(*Raft).leaderLoop", "(*Raft).startStopReplication", "(*Raft).dispatchLogs")) {
		c.RequireAt(r, rule, "runLeader:"+s.Note+"-after-notify-and-defer", s.Instr, "leadership was announced (leaderCh, and NotifyCh when configured) and the exit function is registered before the leader does anything", func(v engine.View) bool {
			return v.Seen("told") && v.Seen("deferred") && v.Seen("setup") && (v.F("haveNotify") || v.Seen("tried"))
		})
	}
	// once leadership was announced, every way out of runLeader goes through the
	// deferred exit function (which announces the loss): no return between the
	// announcement and the defer statement
	for i, ret := range engine.ReturnsOf(fn) {
		c.RequireAt(r, rule, fmt.Sprintf("runLeader:no-exit-between-announcement-and-defer#%d", i+1), ret, "a return of runLeader after leaderCh/NotifyCh were told 'true' happens only with the exit function already deferred", func(v engine.View) bool {
			return !(v.Seen("told") || v.Seen("tried")) || v.Seen("deferred")
		})
	}
	// channel identity: both functions use the channel read once from config
	var cell string
	engine.EachInstr(fn, func(in ssa.Instruction) {
		if st, ok := in.(*ssa.Store); ok && c.P.D(st.Val) == "recv.config().NotifyCh" {
			cell = c.P.D(st.Addr)
		}
	})
	sameCh := true
	nSends := 0
	for _, f := range []*ssa.Function{fn, def} {
		for _, op := range c.P.ChanOps(f) {
			if op.IsSend && strings.HasSuffix(c.P.D(op.Chan), ".NotifyCh") {
				nSends++
				// the operand is a load of the captured cell (descriptor resolves through the single store)
				if c.P.D(op.Chan) != "recv.config().NotifyCh" {
					sameCh = false
				}
			}
		}
	}
	c.Check(rule, "runLeader:same-notify-channel", c.P.Pos(fn.Pos()), "gain and loss are sent on the one channel value read from the configuration at entry (captured by the deferred function)", sameCh && nSends == 4 && cell != "", fmt.Sprintf("%d sends, captured in %s", nSends, cell), nSends)
	// abandon only through shutdown, then best effort
	for _, f := range []*ssa.Function{fn, def} {
		name := c.P.Name(f)
		engine.EachInstr(f, func(in ssa.Instruction) {
			if !isNotifySend(true)(in) {
				return
			}
			sel := in.(*ssa.Select)
			others := []string{}
			for _, st := range sel.States {
				if st.Dir == types.RecvOnly {
					others = append(others, c.P.D(st.Chan))
				}
			}
			ok := len(sel.States) == 2 && len(others) == 1 && others[0] == "recv.shutdownCh"
			c.Check(rule, name+":blocking-notify-escape", c.P.InstrPos(in), "the blocking send on NotifyCh can only be abandoned through shutdownCh (no default, no timeout: a notification is never dropped while running)", ok, fmt.Sprintf("other cases: %v", others), 1)
			// best effort after shutdown
			k := -1
			for i, st := range sel.States {
				if st.Dir == types.RecvOnly {
					k = i
				}
			}
			if arm := engine.SelectArmEntry(sel, k); arm != nil {
				has := false
				for _, i2 := range arm.Instrs {
					if isNotifySend(false)(i2) {
						has = true
					}
				}
				c.Check(rule, name+":best-effort-on-shutdown", c.P.InstrPos(in), "on shutdown a non-blocking send is still attempted", has, pick(has, "present", "missing"), 1)
			}
		})
	}
	// deferred function: false notification on every path, after clearing leader state
	rd := c.Run(&engine.Automaton{Fn: def, Tracks: []engine.Track{
		engine.Event("told", callWithArg0(c, "overrideNotifyBool", "recv.leaderCh")),
		engine.PredRel("haveNotify", "recv.config().NotifyCh", "nil", engine.LT|engine.GT),
		engine.Event("tried", isNotifySend(true)),
	}})
	// the non-blocking leaderCh is updated before the NotifyCh send that may
	// block on a slow consumer (else LeaderCh keeps saying "leader" while the
	// server already follows)
	for _, pr := range []struct {
		f *ssa.Function
		r *engine.Result
	}{{fn, r}, {def, rd}} {
		name := c.P.Name(pr.f)
		engine.EachInstr(pr.f, func(in ssa.Instruction) {
			if isNotifySend(true)(in) {
				c.RequireAt(pr.r, rule, name+":leaderCh-before-blocking-notify", in, "leaderCh already holds the new value when the (possibly blocking) NotifyCh send starts", func(v engine.View) bool { return v.Seen("told") })
			}
		})
	}
	for i, ret := range engine.ReturnsOf(def) {
		c.RequireAt(rd, rule, fmt.Sprintf("runLeader$defer:return#%d", i+1), ret, "every exit from leadership writes false to leaderCh and, when configured, attempts the NotifyCh send", func(v engine.View) bool {
			return v.Seen("told") && (v.F("haveNotify") || v.Seen("tried"))
		})
	}
}

func c18R4(c *Ctx, rule string) {
	if fn := c.Fn(rule, "(*Raft).setState"); fn != nil {
		r := c.Run(&engine.Automaton{Fn: fn, Tracks: []engine.Track{
			engine.Event("cleared", func(in ssa.Instruction) bool {
				cc := engine.CallCommonOf(in)
				return cc != nil && c.P.CalleeName(cc) == "(*Raft).setLeader" && c.P.Arg(in, 0) == `""` && c.P.Arg(in, 1) == `""`
			}),
		}})
		for i, ret := range engine.ReturnsOf(fn) {
			c.RequireAt(r, rule, fmt.Sprintf("setState:always-clears-leader#%d", i+1), ret, "every call of setState forgets the advertised leader – also when the role does not change (a follower that adopts a newer term calls setState(Follower) again and must stop naming the old term's leader)", func(v engine.View) bool { return v.Seen("cleared") })
		}
		for _, s := range c.P.CallsIn(fn, engine.Is("(*raftState).setState")) {
			c.RequireAt(r, rule, "setState:clears-leader-first", s.Instr, "setLeader(\"\", \"\") precedes the role change, with the role passed through unchanged", func(v engine.View) bool {
				return v.Seen("cleared") && c.P.Arg(s.Instr, 0) == "p1"
			})
		}
	}
	// leader advertisements
	var nonEmpty []engine.Site
	for _, s := range c.P.CallsEverywhere(engine.Is("(*Raft).setLeader")) {
		if c.P.Arg(s.Instr, 0) != `""` {
			nonEmpty = append(nonEmpty, s)
		}
	}
	c.WhoMay(rule, "advertise a leader (setLeader with a non-empty address)", nonEmpty, map[string]string{
		"(*Raft).runCandidate":    "the winner advertises itself",
		"(*Raft).appendEntries":   "the sender of a non-stale AppendEntries",
		"(*Raft).installSnapshot": "the sender of a non-stale InstallSnapshot",
	})
	for _, s := range nonEmpty {
		name := c.P.Name(s.Fn)
		a0, a1 := c.P.Arg(s.Instr, 0), c.P.Arg(s.Instr, 1)
		switch name {
		case "(*Raft).runCandidate":
			r := c.Run(&engine.Automaton{Fn: s.Fn, Tracks: []engine.Track{
				engine.Event("loop", isSelect, "leader"),
				engine.Event("leader", callWithArg0(c, "(*Raft).setState", "Leader")),
			}})
			c.RequireAt(r, rule, name+":advertise-self-after-winning", s.Instr, "setLeader(localAddr, localID) right after setState(Leader) (which clears the old advertisement)", func(v engine.View) bool {
				return v.Seen("leader") && a0 == "recv.localAddr" && a1 == "recv.localID"
			})
		default:
			rt := reqTermOf(c, s.Fn)
			r := c.Run(&engine.Automaton{Fn: s.Fn, Tracks: []engine.Track{engine.PredRel("stale", rt, curTerm, engine.LT)}})
			okArgs := strings.HasPrefix(a0, "recv.trans.DecodePeer(p2.") && a1 == "p2.RPCHeader.ID"
			c.RequireAt(r, rule, name+":advertise-sender-of-current-term-rpc", s.Instr, "only after ¬(req.Term < currentTerm); address and ID are the request's", func(v engine.View) bool { return v.F("stale") && okArgs })
		}
	}
	// direct writes of the leader fields
	for _, f := range []string{"leaderAddr", "leaderID"} {
		fv := c.Field(rule, "Raft", f)
		if fv == nil {
			continue
		}
		c.WhoMay(rule, "write Raft."+f, c.P.FieldWrites(fv), map[string]string{
			"(*Raft).setLeader":       "the setter",
			"(*Raft).runLeader$defer": "clears only when it still names this server",
		})
	}
	if def := c.P.Fn("(*Raft).runLeader$defer"); def != nil {
		r := c.Run(&engine.Automaton{Fn: def, Tracks: []engine.Track{
			engine.PredRel("addrSelf", "recv.leaderAddr", "recv.localAddr", engine.EQ),
			engine.PredRel("idSelf", "recv.leaderID", "recv.localID", engine.EQ),
			engine.Event("locked", c.P.IsCallTo(engine.Is("(*sync.RWMutex).Lock"))),
		}})
		for _, f := range []string{"leaderAddr", "leaderID"} {
			fv := c.P.LookupField("Raft", f)
			for _, s := range c.P.FieldWritesIn(def, fv) {
				v, _ := c.P.StoredValue(s.Instr, fv)
				c.RequireAt(r, rule, "runLeader$defer:clear-"+f+"-only-if-self", s.Instr, "cleared (to \"\") only while the advertisement still names this server, under leaderLock (an RPC that already named the new leader is not overwritten)", func(vw engine.View) bool {
					return vw.T("addrSelf") && vw.T("idSelf") && vw.Seen("locked") && c.P.D(v) == `""`
				})
			}
		}
	}
	// accessors return the fields
	if fn := c.Fn(rule, "(*Raft).LeaderWithID"); fn != nil {
		for _, ret := range engine.ReturnsOf(fn) {
			vals := engine.ReturnValues(ret)
			ok := len(vals) == 2 && c.P.D(vals[0]) == "recv.leaderAddr" && c.P.D(vals[1]) == "recv.leaderID"
			c.Check(rule, "LeaderWithID:returns-fields", c.P.InstrPos(ret), "returns (leaderAddr, leaderID)", ok, "returns "+c.P.D(vals[0]), 1)
		}
	}
	if fn := c.Fn(rule, "(*Raft).Leader"); fn != nil {
		for _, ret := range engine.ReturnsOf(fn) {
			d := c.P.D(engine.ReturnValues(ret)[0])
			c.Check(rule, "Leader:returns-field", c.P.InstrPos(ret), "returns leaderAddr", d == "recv.leaderAddr", "returns "+d, 1)
		}
	}
}

func c18R5(c *Ctx, rule string) {
	fn := c.Fn(rule, "overrideNotifyBool")
	if fn == nil {
		return
	}
	var sels []*ssa.Select
	engine.EachInstr(fn, func(in ssa.Instruction) {
		if s, ok := in.(*ssa.Select); ok {
			sels = append(sels, s)
		}
	})
	if len(sels) != 2 {
		c.Bad(rule, "overrideNotifyBool:shape", c.P.Pos(fn.Pos()), "two selects (send-or-drain, then send-or-panic)", fmt.Sprintf("%d selects", len(sels)))
		return
	}
	outer, inner := sels[0], sels[1]
	if !outer.Blocking {
		outer, inner = inner, outer
	}
	okOuter := outer.Blocking && len(outer.States) == 2
	sendOK, recvOK := false, false
	for _, st := range outer.States {
		if st.Dir == types.SendOnly && c.P.D(st.Chan) == "p1" && c.P.D(st.Send) == "p2" {
			sendOK = true
		}
		if st.Dir == types.RecvOnly && c.P.D(st.Chan) == "p1" {
			recvOK = true
		}
	}
	c.Check(rule, "overrideNotifyBool:outer-select", c.P.InstrPos(outer), "blocking select with exactly: send v on ch / receive (drain) from ch", okOuter && sendOK && recvOK, fmt.Sprintf("blocking=%v states=%d send=%v drain=%v", outer.Blocking, len(outer.States), sendOK, recvOK), 1)
	okInner := !inner.Blocking && len(inner.States) == 1 && inner.States[0].Dir == types.SendOnly && c.P.D(inner.States[0].Chan) == "p1" && c.P.D(inner.States[0].Send) == "p2"
	c.Check(rule, "overrideNotifyBool:inner-select", c.P.InstrPos(inner), "after draining: non-blocking send of v on ch", okInner, fmt.Sprintf("blocking=%v states=%d", inner.Blocking, len(inner.States)), 1)
	// every normal return happened after a successful send
	r := c.Run(&engine.Automaton{Fn: fn, Tracks: []engine.Track{
		engine.PredCond("outerSent", func(cd engine.Cond) (bool, int) { return false, 0 }),
		{Name: "sent", If: func(cd engine.Cond, ifi *ssa.If) (bool, int) {
			sel, k, ok := engine.SelectArmIndex(cd, ifi)
			if !ok {
				return false, 0
			}
			if k < len(sel.States) && sel.States[k].Dir == types.SendOnly {
				return true, engine.True
			}
			return false, 0
		}},
	}})
	for i, ret := range engine.ReturnsOf(fn) {
		c.RequireAt(r, rule, fmt.Sprintf("overrideNotifyBool:return#%d", i+1), ret, "returns only after one of the two sends was the chosen case (the failed inner send panics)", func(v engine.View) bool { return v.T("sent") })
	}
}
