package rules

import (
	"fmt"
	"go/types"
	"sort"
	"strings"

	"golang.org/x/tools/go/ssa"

	"verif/lint/engine"
)

const curTerm = "recv.raftState.getCurrentTerm()"

// reqTermOf returns the descriptor "<param>.Term" of the request parameter of
// an RPC handler (the parameter whose type name ends in "Request").
func reqTermOf(c *Ctx, fn *ssa.Function) string {
	for _, pr := range fn.Params {
		if strings.HasSuffix(c.P.TypeStr(pr.Type()), "Request") {
			return c.P.D(pr) + ".Term"
		}
	}
	return ""
}

// isSelect matches select instructions (used to reset per-iteration tracks in
// event loops).
func isSelect(in ssa.Instruction) bool { _, ok := in.(*ssa.Select); return ok }

// callWithArg0 matches calls of callee whose first non-receiver argument has
// the given descriptor ("" = any).
func callWithArg0(c *Ctx, callee, arg0 string) func(ssa.Instruction) bool {
	return func(in ssa.Instruction) bool {
		cc := engine.CallCommonOf(in)
		if cc == nil || c.P.CalleeName(cc) != callee {
			return false
		}
		return arg0 == "" || c.P.Arg(in, 0) == arg0
	}
}

// ---------------------------------------------------------------------------
// S-STALE: a request of an older term has no effect.
// ---------------------------------------------------------------------------

var handlerResp = map[string][2]string{
	"(*Raft).appendEntries":   {"AppendEntriesResponse", "Success"},
	"(*Raft).requestVote":     {"RequestVoteResponse", "Granted"},
	"(*Raft).requestPreVote":  {"RequestPreVoteResponse", "Granted"},
	"(*Raft).installSnapshot": {"InstallSnapshotResponse", "Success"},
}

func handlerEffect(n string) bool {
	if stateChanging(n) {
		return true
	}
	switch n {
	case "(*Raft).processLogs", "(*Raft).processConfigurationLogEntry", "(*Raft).compactLogs", "(*Raft).removeOldLogs", "(*Raft).tryStageCommitIndex":
		return true
	}
	return false
}

func sStale(c *Ctx, rule string, handlers ...string) {
	if len(handlers) == 0 {
		handlers = []string{"(*Raft).appendEntries", "(*Raft).requestVote", "(*Raft).requestPreVote", "(*Raft).installSnapshot"}
	}
	for _, h := range handlers {
		fn := c.Fn(rule, h)
		if fn == nil {
			continue
		}
		rt := reqTermOf(c, fn)
		if rt == "" {
			c.Bad(rule, h+":request-param", c.P.Pos(fn.Pos()), "handler has a *...Request parameter", "none")
			continue
		}
		r := c.Run(&engine.Automaton{Fn: fn, Tracks: []engine.Track{engine.PredRel("stale", rt, curTerm, engine.LT)}})
		n := 0
		check := func(in ssa.Instruction, what string) {
			n++
			c.RequireAt(r, rule, h+":"+what, in, "¬(req.Term < currentTerm) was established before this effect (a stale request changes nothing)", func(v engine.View) bool { return v.F("stale") })
		}
		engine.EachInstr(fn, func(in ssa.Instruction) {
			if cc := engine.CallCommonOf(in); cc != nil {
				if _, isDefer := in.(*ssa.Defer); isDefer {
					return
				}
				n := c.P.CalleeName(cc)
				if handlerEffect(n) {
					check(in, "call "+n)
				}
			}
			if s, ok := in.(*ssa.Send); ok {
				check(in, "send on "+c.P.D(s.Chan))
			}
			if sel, ok := in.(*ssa.Select); ok {
				for _, st := range sel.States {
					if st.Dir == types.SendOnly {
						check(in, "send on "+c.P.D(st.Chan))
					}
				}
			}
		})
		rf := handlerResp[h]
		if f := c.Field(rule, rf[0], rf[1]); f != nil {
			for _, s := range c.StoresOfConst(fn, f, true) {
				check(s.Instr, "store "+rf[0]+"."+rf[1]+"=true")
			}
		}
		if n == 0 {
			c.Bad(rule, h+":effects", c.P.Pos(fn.Pos()), "handler has effects to guard", "none recognised")
		}
	}
}

// ---------------------------------------------------------------------------
// S-HIGHER: a higher term seen anywhere forces follower state and term update.
// ---------------------------------------------------------------------------

func sHigher(c *Ctx, rule string) {
	for _, h := range []string{"(*Raft).appendEntries", "(*Raft).requestVote", "(*Raft).installSnapshot"} {
		fn := c.Fn(rule, h)
		if fn == nil {
			continue
		}
		rt := reqTermOf(c, fn)
		rf := handlerResp[h]
		respTerm := c.Field(rule, rf[0], "Term")
		tracks := []engine.Track{
			engine.PredRel("newer", rt, curTerm, engine.GT),
			engine.Event("follower", callWithArg0(c, "(*Raft).setState", "Follower")),
			engine.Event("setTerm", callWithArg0(c, "(*Raft).setCurrentTerm", rt)),
			engine.Event("respTerm", func(in ssa.Instruction) bool {
				if respTerm == nil {
					return false
				}
				v, ok := c.P.StoredValue(in, respTerm)
				return ok && c.P.D(v) == rt
			}),
		}
		r := c.Run(&engine.Automaton{Fn: fn, Tracks: tracks})
		// checkpoint: every effect after the term checks and every return
		var sites []ssa.Instruction
		for _, ret := range engine.ReturnsOf(fn) {
			sites = append(sites, ret)
		}
		if f := c.Field(rule, rf[0], rf[1]); f != nil {
			for _, s := range c.StoresOfConst(fn, f, true) {
				sites = append(sites, s.Instr)
			}
		}
		for i, s := range sites {
			c.RequireAt(r, rule, fmt.Sprintf("%s:exit#%d", h, i+1), s,
				"if req.Term > currentTerm was observed then setState(Follower), setCurrentTerm(req.Term) and resp.Term = req.Term happened before this point",
				func(v engine.View) bool {
					return !v.T("newer") || (v.Seen("follower") && v.Seen("setTerm") && v.Seen("respTerm"))
				})
		}
		// and the comparison exists at all
		seen := false
		engine.EachInstr(fn, func(in ssa.Instruction) {
			if ifi, ok := in.(*ssa.If); ok {
				if s, ok := c.P.CondOf(ifi.Cond).RelOn(rt, curTerm); ok && (s == engine.GT || s == engine.LT|engine.EQ) {
					seen = true
				}
			}
		})
		c.Check(rule, h+":compares-term", c.P.Pos(fn.Pos()), "handler compares req.Term > currentTerm", seen, pick(seen, "comparison present", "no such comparison"), 1)
	}
	// candidate: both result arms
	if fn := c.Fn(rule, "(*Raft).runCandidate"); fn != nil {
		sites := c.P.CallsIn(fn, engine.Is("(*Raft).setCurrentTerm"))
		// for each result channel arm there must be a newer-term test whose
		// true edge reaches setState(Follower)+setCurrentTerm(thatTerm)+return
		for _, suffix := range []string{".RequestVoteResponse.Term", ".RequestPreVoteResponse.Term"} {
			var termDesc string
			engine.EachInstr(fn, func(in ssa.Instruction) {
				if ifi, ok := in.(*ssa.If); ok {
					cd := c.P.CondOf(ifi.Cond)
					cd, _ = cd.With(func(d string) bool { return strings.HasSuffix(d, suffix) && strings.HasPrefix(d, "<-") })
					if cd.IsRel && strings.HasSuffix(cd.X, suffix) && strings.HasPrefix(cd.X, "<-") {
						termDesc = cd.X
					}
				}
			})
			if termDesc == "" {
				c.Bad(rule, "runCandidate:newer-term-test"+suffix, c.P.Pos(fn.Pos()), "the result arm compares the response term with the current term", "no comparison on a received "+suffix)
				continue
			}
			r := c.Run(&engine.Automaton{Fn: fn, Tracks: []engine.Track{
				engine.Event("loop", isSelect, "newer", "follower", "setTerm"),
				engine.PredCond("newer", func(cd engine.Cond) (bool, int) {
					for _, rhs := range []string{curTerm, "(" + curTerm + " + 1)"} {
						if set, ok := cd.RelOn(termDesc, rhs); ok {
							if set == engine.GT {
								return true, engine.True
							}
							if set == engine.LT|engine.EQ {
								return true, engine.False
							}
						}
					}
					return false, 0
				}),
				engine.Event("follower", callWithArg0(c, "(*Raft).setState", "Follower")),
				engine.Event("setTerm", callWithArg0(c, "(*Raft).setCurrentTerm", termDesc)),
			}})
			// at every return, and at every next loop iteration (the select)
			var cps []ssa.Instruction
			for _, ret := range engine.ReturnsOf(fn) {
				cps = append(cps, ret)
			}
			engine.EachInstr(fn, func(in ssa.Instruction) {
				if isSelect(in) {
					cps = append(cps, in)
				}
				if cc := engine.CallCommonOf(in); cc != nil && c.P.CalleeName(cc) == "(*Raft).setState" && c.P.Arg(in, 0) == "Leader" {
					cps = append(cps, in)
				}
			})
			for i, cp := range cps {
				c.RequireAt(r, rule, fmt.Sprintf("runCandidate%s:checkpoint#%d", suffix, i+1), cp,
					"a response with a newer term leads to setState(Follower) and setCurrentTerm(that term) before the loop continues, returns or wins",
					func(v engine.View) bool { return !v.T("newer") || (v.Seen("follower") && v.Seen("setTerm")) })
			}
		}
		_ = sites
	}
	sHigherLeaderSide(c, rule)
}

// sHigherLeaderSide: a leader that sees a higher term in a response stops
// replicating and steps down.
func sHigherLeaderSide(c *Ctx, rule string) {
	// leader side
	for _, h := range []string{"(*Raft).replicateTo", "(*Raft).sendLatestSnapshot", "(*Raft).pipelineDecode"} {
		fn := c.Fn(rule, h)
		if fn == nil {
			continue
		}
		tracks := []engine.Track{predRespTermNewer("newer"), engine.Event("stale", c.P.IsCallTo(engine.Is("(*Raft).handleStaleTerm")))}
		if h == "(*Raft).pipelineDecode" {
			tracks = append(tracks, engine.Event("loop", isSelect, "newer", "stale"))
		}
		r := c.Run(&engine.Automaton{Fn: fn, Tracks: tracks})
		has := false
		engine.EachInstr(fn, func(in ssa.Instruction) {
			if ifi, ok := in.(*ssa.If); ok {
				if m, _ := predRespTermNewer("x").If(c.P.CondOf(ifi.Cond), ifi); m {
					has = true
				}
			}
		})
		c.Check(rule, h+":compares-response-term", c.P.Pos(fn.Pos()), "compares resp.Term > req.Term", has, pick(has, "comparison present", "no comparison"), 1)
		// every instruction after a true "newer" must be on the way to a stop-return
		for i, ret := range engine.ReturnsOf(fn) {
			c.RequireAt(r, rule, fmt.Sprintf("%s:return#%d", h, i+1), ret, "a newer term in the response leads to handleStaleTerm and a stop result",
				func(v engine.View) bool {
					if !v.T("newer") {
						return true
					}
					if !v.Seen("stale") {
						return false
					}
					if len(ret.Results) > 0 {
						return c.P.D(engine.ReturnValues(ret)[0]) == "true"
					}
					return true
				})
		}
		// nothing else happens on the newer-term path: the updates of
		// replication state are guarded by ¬newer (S-MATCH does the positive side)
		for _, s := range c.P.CallsIn(fn, engine.Is("(*followerReplication).setLastContact", "updateLastAppended", "(*commitment).match")) {
			c.RequireAt(r, rule, h+":no-progress-on-newer-term:"+s.Note, s.Instr, "not reached when the response carries a newer term", func(v engine.View) bool { return !v.T("newer") })
		}
	}
	if fn := c.Fn(rule, "(*Raft).handleStaleTerm"); fn != nil {
		r := c.Run(&engine.Automaton{Fn: fn, Tracks: []engine.Track{
			engine.Event("no", callWithArg0(c, "(*followerReplication).notifyAll", "false")),
			engine.Event("step", callWithArg0(c, "asyncNotifyCh", "p1.stepDown")),
		}})
		for _, ret := range engine.ReturnsOf(fn) {
			c.RequireAt(r, rule, "handleStaleTerm:signals", ret, "always votes 'not leader' on pending verifies and signals stepDown", func(v engine.View) bool { return v.Seen("no") && v.Seen("step") })
		}
	}
	// stepDown is wired: replication state gets the leader's channel, and the
	// leader loop reacts by setState(Follower)
	if fn := c.Fn(rule, "(*Raft).leaderLoop"); fn != nil {
		ok := false
		var pos ssa.Instruction
		engine.EachInstr(fn, func(in ssa.Instruction) {
			sel, isSel := in.(*ssa.Select)
			if !isSel {
				return
			}
			for k, st := range sel.States {
				if st.Dir == types.RecvOnly && c.P.D(st.Chan) == "recv.leaderState.stepDown" {
					if b := engine.SelectArmEntry(sel, k); b != nil {
						for _, i2 := range b.Instrs {
							if cc := engine.CallCommonOf(i2); cc != nil && c.P.CalleeName(cc) == "(*Raft).setState" && c.P.Arg(i2, 0) == "Follower" {
								ok = true
								pos = i2
							}
						}
					}
				}
			}
		})
		c.Check(rule, "leaderLoop:stepDown-arm", c.P.InstrPos(pos), "leaderLoop receives leaderState.stepDown and calls setState(Follower) in that arm", ok, pick(ok, "arm found", "no such arm"), 1)
	}
	if f := c.Field(rule, "followerReplication", "stepDown"); f != nil {
		ws := c.P.FieldWrites(f)
		ok := len(ws) == 1 && c.P.Name(ws[0].Fn) == "(*Raft).startStopReplication"
		d := ""
		if len(ws) == 1 {
			v, _ := c.P.StoredValue(ws[0].Instr, f)
			d = c.P.D(v)
			ok = ok && d == "recv.leaderState.stepDown"
		}
		c.Check(rule, "followerReplication.stepDown:wired", "-", "set once, in startStopReplication, to leaderState.stepDown", ok, fmt.Sprintf("%d writes, value %s", len(ws), d), 1)
	}
}

// ---------------------------------------------------------------------------
// S-DURABLE: durable before acknowledged / counted / visible.
// ---------------------------------------------------------------------------

func sDurable(c *Ctx, rule string) {
	sDurableDispatch(c, rule)
	sDurableFollower(c, rule)
	sDurableElect(c, rule)
	c06R5(c, rule)
}

// sDurableDispatch: the leader's own append.
func sDurableDispatch(c *Ctx, rule string) {
	if fn := c.Fn(rule, "(*Raft).dispatchLogs"); fn != nil {
		r := c.Run(&engine.Automaton{Fn: fn, Tracks: []engine.Track{
			engine.Event("store", c.P.IsCallTo(engine.Is("iface:LogStore.StoreLogs")), "errLoop"),
			predErr("storeErr", "recv.logs.StoreLogs("),
			engine.PredRel("errLoop", "idx(range)", "len(p1)", engine.LT),
			engine.Event("respondErr", func(in ssa.Instruction) bool {
				cc := engine.CallCommonOf(in)
				return cc != nil && c.P.CalleeName(cc) == "(*deferError).respond" && strings.HasPrefix(c.P.Arg(in, 0), "recv.logs.StoreLogs(")
			}),
			engine.Event("follower", callWithArg0(c, "(*Raft).setState", "Follower")),
		}})
		for _, callee := range []string{"(*commitment).match", "(*raftState).setLastLog"} {
			ss := c.P.CallsIn(fn, engine.Is(callee))
			if len(ss) == 0 {
				c.Bad(rule, "dispatchLogs:"+callee, c.P.Pos(fn.Pos()), "dispatchLogs calls "+callee, "no such call")
			}
			for _, s := range ss {
				c.RequireAt(r, rule, "dispatchLogs:"+callee+"-after-durable-store", s.Instr, "logs.StoreLogs returned nil before the leader counts itself / publishes the new last index", func(v engine.View) bool { return v.Seen("store") && v.F("storeErr") })
			}
		}
		for i, ret := range engine.ReturnsOf(fn) {
			c.RequireAt(r, rule, fmt.Sprintf("dispatchLogs:return#%d", i+1), ret, "on a failed store the error loop over all futures was run to its end and the leader steps down", func(v engine.View) bool {
				if !v.Seen("store") {
					return false
				}
				if v.T("storeErr") {
					return v.F("errLoop") && v.Seen("follower")
				}
				return v.F("storeErr")
			})
		}
		rangeBodyAlways(c, rule, fn, "dispatchLogs:error-loop-answers-every-future", "p1", func(in ssa.Instruction) bool {
			cc := engine.CallCommonOf(in)
			return cc != nil && c.P.CalleeName(cc) == "(*deferError).respond" && strings.HasPrefix(c.P.Arg(in, 0), "recv.logs.StoreLogs(") &&
				strings.HasPrefix(c.P.D(engine.RecvValue(in)), "val(range p1)")
		}, "every iteration of the range over the dispatched futures answers that future with the StoreLogs error")
		// leader counts itself with the index it stored
		for _, s := range c.P.CallsIn(fn, engine.Is("(*commitment).match")) {
			a0, a1 := c.P.Arg(s.Instr, 0), c.P.Arg(s.Instr, 1)
			var ll string
			for _, s2 := range c.P.CallsIn(fn, engine.Is("(*raftState).setLastLog")) {
				ll = c.P.Arg(s2.Instr, 0)
			}
			c.Check(rule, "dispatchLogs:self-match-args", c.P.InstrPos(s.Instr), "match(localID, the same last index that setLastLog publishes)", a0 == "recv.localID" && a1 == ll && ll != "", "match("+a0+", "+a1+"), setLastLog("+ll+", …)", 1)
		}
	}
}

// sDurableFollower: the follower's append.
func sDurableFollower(c *Ctx, rule string) {
	if fn := c.Fn(rule, "(*Raft).appendEntries"); fn != nil {
		succ := c.Field(rule, "AppendEntriesResponse", "Success")
		newEntries := ""
		for _, s := range c.P.CallsIn(fn, engine.Is("iface:LogStore.StoreLogs")) {
			newEntries = c.P.Arg(s.Instr, 0)
		}
		r := c.Run(&engine.Automaton{Fn: fn, Tracks: []engine.Track{
			engine.PredRel("haveNew", "len("+newEntries+")", "0", engine.GT),
			engine.PredRel("haveEntries", "len(p2.Entries)", "0", engine.GT),
			engine.Event("store", c.P.IsCallTo(engine.Is("iface:LogStore.StoreLogs"))),
			predErr("storeErr", "recv.logs.StoreLogs("),
			engine.Event("setLast", c.P.IsCallTo(engine.Is("(*raftState).setLastLog"))),
		}})
		for _, s := range c.P.CallsIn(fn, engine.Is("(*raftState).setLastLog")) {
			c.RequireAt(r, rule, "appendEntries:setLastLog-after-durable-store", s.Instr, "logs.StoreLogs(newEntries) returned nil first", func(v engine.View) bool { return v.Seen("store") && v.F("storeErr") })
		}
		if succ != nil {
			for _, s := range c.StoresOfConst(fn, succ, true) {
				c.RequireAt(r, rule, "appendEntries:success-after-durable-store", s.Instr,
					"when there were new entries, Success=true only after StoreLogs returned nil and the last-log marker was advanced",
					func(v engine.View) bool {
						if v.F("haveEntries") || v.F("haveNew") {
							return true
						}
						return v.Seen("store") && v.F("storeErr") && v.Seen("setLast")
					})
			}
		}
	}
}

// sDurableElect: the candidate's own term and vote.
func sDurableElect(c *Ctx, rule string) {
	if fn := c.Fn(rule, "(*Raft).electSelf"); fn != nil {
		r := c.Run(&engine.Automaton{Fn: fn, Tracks: []engine.Track{
			engine.Event("term", callWithArg0(c, "(*Raft).setCurrentTerm", "("+curTerm+" + 1)")),
			engine.Event("persist", c.P.IsCallTo(engine.Is("(*Raft).persistVote"))),
			predErr("persistErr", "recv.persistVote("),
		}})
		for _, s := range c.P.CallsIn(fn, engine.Is("(*Raft).persistVote")) {
			ok := c.P.Arg(s.Instr, 0) == "new(RequestVoteRequest).Term"
			c.RequireAt(r, rule, "electSelf:persist-after-term", s.Instr, "the new term is persisted (setCurrentTerm) before the self vote, and the vote is for the request's term", func(v engine.View) bool { return v.Seen("term") && ok })
		}
		n := 0
		engine.EachInstr(fn, func(in ssa.Instruction) {
			if _, ok := in.(*ssa.Send); ok {
				n++
				c.RequireAt(r, rule, "electSelf:self-vote-after-persist", in, "the self vote is delivered only after persistVote returned nil", func(v engine.View) bool { return v.Seen("persist") && v.F("persistErr") })
			}
		})
		if n == 0 {
			c.Bad(rule, "electSelf:self-vote", c.P.Pos(fn.Pos()), "electSelf sends its own vote on the result channel", "no send")
		}
	}
}

// sInstallDurable: InstallSnapshot persists, restores, then moves positions.
func sInstallDurable(c *Ctx, rule string) {
	fn := c.Fn(rule, "(*Raft).installSnapshot")
	if fn == nil {
		return
	}
	succ := c.Field(rule, "InstallSnapshotResponse", "Success")
	r := c.Run(&engine.Automaton{Fn: fn, Tracks: []engine.Track{
		engine.Event("create", c.P.IsCallTo(engine.Is("iface:SnapshotStore.Create"))),
		predErr("createErr", "recv.snapshots.Create("),
		engine.Event("copy", c.P.IsCallTo(engine.Is("io.Copy"))),
		engine.PredCond("copyErr", func(cd engine.Cond) (bool, int) {
			if cd.IsRel && strings.HasPrefix(cd.X, "io.Copy(recv.snapshots.Create(") && strings.HasSuffix(cd.X, "#1") && cd.Y == "nil" {
				if isNEc(cd) {
					return true, engine.True
				}
				return true, engine.False
			}
			return false, 0
		}),
		engine.PredCond("short", func(cd engine.Cond) (bool, int) {
			cd, _ = cd.WithY(func(d string) bool { return d == "p2.Size" })
			if cd.IsRel && strings.HasSuffix(cd.X, "#0") && strings.HasPrefix(cd.X, "io.Copy(") && cd.Y == "p2.Size" {
				if isNEc(cd) {
					return true, engine.True
				}
				return true, engine.False
			}
			return false, 0
		}),
		engine.Event("close", c.P.IsCallTo(engine.IfaceMethod("Close", "io.Closer", "SnapshotSink", "io.WriteCloser"))),
		engine.PredCond("closeErr", func(cd engine.Cond) (bool, int) {
			if cd.IsRel && strings.HasSuffix(cd.X, ".Close()") && strings.HasPrefix(cd.X, "recv.snapshots.Create(") && cd.Y == "nil" {
				if isNEc(cd) {
					return true, engine.True
				}
				return true, engine.False
			}
			return false, 0
		}),
		engine.Event("sent", func(in ssa.Instruction) bool {
			sel, ok := in.(*ssa.Select)
			if !ok {
				return false
			}
			for _, st := range sel.States {
				if st.Dir == types.SendOnly && c.P.D(st.Chan) == "recv.fsmMutateCh" {
					return true
				}
			}
			return false
		}),
		engine.Event("waited", func(in ssa.Instruction) bool {
			cc := engine.CallCommonOf(in)
			return cc != nil && c.P.CalleeName(cc) == "(*deferError).Error" && strings.Contains(c.P.D(engine.RecvValue(in)), "restoreFuture")
		}),
		engine.PredCond("restoreErr", func(cd engine.Cond) (bool, int) {
			if cd.IsRel && strings.Contains(cd.X, "restoreFuture") && strings.HasSuffix(cd.X, ".Error()") && cd.Y == "nil" {
				if isNEc(cd) {
					return true, engine.True
				}
				return true, engine.False
			}
			return false, 0
		}),
		engine.Event("applied", callWithArg0(c, "(*raftState).setLastApplied", "p2.LastLogIndex")),
		engine.Event("snappos", callWithArg0(c, "(*raftState).setLastSnapshot", "p2.LastLogIndex")),
	}})
	durable := func(v engine.View) bool {
		return v.Seen("create") && v.F("createErr") && v.Seen("copy") && v.F("copyErr") && v.F("short") && v.Seen("close") && v.F("closeErr")
	}
	restored := func(v engine.View) bool { return durable(v) && v.Seen("sent") && v.Seen("waited") && v.F("restoreErr") }
	// the restore request is sent only for a durable snapshot
	engine.EachInstr(fn, func(in ssa.Instruction) {
		if sel, ok := in.(*ssa.Select); ok {
			for _, st := range sel.States {
				if st.Dir == types.SendOnly && c.P.D(st.Chan) == "recv.fsmMutateCh" {
					c.RequireAt(r, rule, "installSnapshot:restore-request-after-durable-snapshot", in, "snapshot created, fully copied (size checked) and Close()d without error before the FSM is asked to restore it", durable)
				}
			}
		}
	})
	// Close publishes the snapshot (FileSnapshotStore renames it into place and
	// reaps older ones): it is reached only for a complete copy – a truncated
	// stream must be cancelled, never closed, or a crash before the retry
	// leaves a short snapshot as the newest durable one
	nClose := 0
	for _, s := range c.P.CallsIn(fn, engine.IfaceMethod("Close", "io.Closer", "SnapshotSink", "io.WriteCloser")) {
		if !strings.HasPrefix(c.P.D(engine.RecvValue(s.Instr)), "recv.snapshots.Create(") {
			continue
		}
		nClose++
		c.RequireAt(r, rule, "installSnapshot:close-only-complete-copy", s.Instr, "the sink is closed (published) only after the copy returned no error and the byte count equals req.Size", func(v engine.View) bool {
			return v.Seen("create") && v.F("createErr") && v.Seen("copy") && v.F("copyErr") && v.F("short")
		})
	}
	if nClose == 0 {
		c.Bad(rule, "installSnapshot:close", c.P.Pos(fn.Pos()), "a Close of the snapshot sink", "none found")
	}
	for _, callee := range []string{"(*raftState).setLastApplied", "(*raftState).setLastSnapshot", "(*Raft).setLatestConfiguration", "(*Raft).setCommittedConfiguration", "(*Raft).compactLogs", "(*Raft).removeOldLogs"} {
		ss := c.P.CallsIn(fn, engine.Is(callee))
		if len(ss) == 0 {
			c.Bad(rule, "installSnapshot:"+callee, c.P.Pos(fn.Pos()), "installSnapshot calls "+callee, "no such call")
		}
		for _, s := range ss {
			c.RequireAt(r, rule, "installSnapshot:"+callee+"-after-restore", s.Instr, "durable snapshot and successful FSM restore precede every position/configuration/log update", restored)
		}
	}
	// the snapshot written locally and the positions published are the
	// request's (index, term, configuration)
	for _, s := range c.P.CallsIn(fn, engine.Is("iface:SnapshotStore.Create")) {
		a1, a2, a3, a4 := c.P.Arg(s.Instr, 1), c.P.Arg(s.Instr, 2), c.P.Arg(s.Instr, 3), c.P.Arg(s.Instr, 4)
		var cfgArg, cfgIdxArg string
		for _, s2 := range c.P.CallsIn(fn, engine.Is("(*Raft).setCommittedConfiguration")) {
			cfgArg, cfgIdxArg = c.P.Arg(s2.Instr, 0), c.P.Arg(s2.Instr, 1)
		}
		ok := a1 == "p2.LastLogIndex" && a2 == "p2.LastLogTerm" && a3 == cfgArg && a4 == cfgIdxArg && strings.Contains(a3, "DecodeConfiguration(p2.Configuration)") && strings.Contains(a4, "p2.ConfigurationIndex")
		c.Check(rule, "installSnapshot:create-args", c.P.InstrPos(s.Instr), "the local snapshot is created at (req.LastLogIndex, req.LastLogTerm) with the request's decoded configuration and configuration index – the same values later installed as committed configuration",
			ok, "Create(…, "+a1+", "+a2+", "+a3+", "+a4+", …)", 1)
	}
	for _, s := range c.P.CallsIn(fn, engine.Is("(*raftState).setLastSnapshot")) {
		a0, a1 := c.P.Arg(s.Instr, 0), c.P.Arg(s.Instr, 1)
		c.Check(rule, "installSnapshot:snapshot-position-args", c.P.InstrPos(s.Instr), "setLastSnapshot(req.LastLogIndex, req.LastLogTerm)", a0 == "p2.LastLogIndex" && a1 == "p2.LastLogTerm", "("+a0+", "+a1+")", 1)
	}
	for _, s := range c.P.CallsIn(fn, engine.Is("(*Raft).setLatestConfiguration")) {
		a0 := c.P.Arg(s.Instr, 0)
		c.Check(rule, "installSnapshot:latest-configuration-arg", c.P.InstrPos(s.Instr), "the latest configuration becomes the snapshot's", strings.Contains(a0, "DecodeConfiguration(p2.Configuration)"), "("+a0+", …)", 1)
	}
	// the restore request names the sink just closed
	if f := c.P.LookupField("restoreFuture", "ID"); f != nil {
		for _, w := range c.P.FieldWritesIn(fn, f) {
			v, _ := c.P.StoredValue(w.Instr, f)
			d := c.P.D(v)
			c.Check(rule, "installSnapshot:restore-request-names-this-snapshot", c.P.InstrPos(w.Instr), "the FSM is asked to restore the snapshot that was just written (sink.ID())", strings.HasPrefix(d, "recv.snapshots.Create(") && strings.HasSuffix(d, "#0.ID()"), "ID = "+d, 1)
		}
	}
	if succ != nil {
		for _, s := range c.StoresOfConst(fn, succ, true) {
			c.RequireAt(r, rule, "installSnapshot:success-last", s.Instr, "Success=true only after restore and after lastApplied/lastSnapshot were set from the request", func(v engine.View) bool {
				return restored(v) && v.Seen("applied") && v.Seen("snappos")
			})
		}
	}
}

// ---------------------------------------------------------------------------
// S-DELETE: who may delete log entries.
// ---------------------------------------------------------------------------

func sDelete(c *Ctx, rule string) {
	sites := c.P.CallsEverywhere(engine.Is("iface:LogStore.DeleteRange"))
	c.WhoMay(rule, "call LogStore.DeleteRange", sites, map[string]string{
		"(*Raft).appendEntries":                "suffix truncation on a term conflict",
		"(*Raft).compactLogsWithTrailing":      "compaction below the snapshot / wholesale reset on monotonic stores",
		"RecoverCluster":                       "operator override (excepted by the property)",
		"(*LogCache).DeleteRange":              "LogStore implementation delegating to its backend",
		"(*MockMonotonicLogStore).DeleteRange": "test helper store (testing.go) delegating to its backend",
	})
}

// S-WRITERS: who may append to the log and who may write the stable store.
// Contiguity, term monotonicity and "durable before counted" are argued per
// writer; a writer the rules have never read is outside every such argument.
func sStoreWriters(c *Ctx, rule string) {
	c.WhoMay(rule, "call LogStore.StoreLogs/StoreLog", c.P.CallsEverywhere(engine.Is("iface:LogStore.StoreLogs", "iface:LogStore.StoreLog")), map[string]string{
		"(*Raft).dispatchLogs":               "leader append (C04.R5/C03.R1)",
		"(*Raft).appendEntries":              "follower append after the consistency check (C04.R1–R3)",
		"BootstrapCluster":                   "the bootstrap configuration entry, index 1 term 1, on an empty store",
		"(*LogCache).StoreLogs":              "LogStore implementation delegating to its backend",
		"(*MockMonotonicLogStore).StoreLog":  "test helper store (testing.go) delegating to its backend",
		"(*MockMonotonicLogStore).StoreLogs": "test helper store (testing.go) delegating to its backend",
	})
	c.WhoMay(rule, "call StableStore.Set/SetUint64", c.P.CallsEverywhere(engine.Is("iface:StableStore.Set", "iface:StableStore.SetUint64")), map[string]string{
		"(*Raft).persistVote":    "the vote record (C06.R3)",
		"(*Raft).setCurrentTerm": "the term, persisted before published (C06.R5)",
		"BootstrapCluster":       "term 1 on an empty store",
	})
}

// rangeBodyAlways finds the range loops over the slice `ranged` in fn whose
// body contains the event, and checks that every path through the body, from
// its first block back to the loop test, executes the event.
func rangeBodyAlways(c *Ctx, rule string, fn *ssa.Function, key, ranged string, ev func(ssa.Instruction) bool, require string) {
	rangeBodyAlwaysM(c, rule, fn, key, ranged, func(d string) bool { return d == ranged }, ev, require)
}

// rangeBodyAlwaysM is rangeBodyAlways with the ranged slice identified by a
// matcher on its descriptor (accumulators whose phi shape depends on how the
// filling loop is spelled).
func rangeBodyAlwaysM(c *Ctx, rule string, fn *ssa.Function, key, rangedName string, isRanged func(string) bool, ev func(ssa.Instruction) bool, require string) {
	ranged := rangedName
	found := 0
	engine.EachInstr(fn, func(in ssa.Instruction) {
		ifi, ok := in.(*ssa.If)
		if !ok {
			return
		}
		cd := c.P.CondOf(ifi.Cond)
		isLoop := false
		if cd.IsRel && cd.X == "idx(range)" && strings.HasPrefix(cd.Y, "len(") && strings.HasSuffix(cd.Y, ")") && isRanged(cd.Y[4:len(cd.Y)-1]) && cd.EdgeOrd(true) == engine.LT {
			isLoop = true
		}
		if !cd.IsRel && strings.HasPrefix(cd.B, "more(range ") && strings.HasSuffix(cd.B, ")") && isRanged(cd.B[11:len(cd.B)-1]) && !cd.Neg {
			isLoop = true
		}
		if !isLoop {
			return
		}
		body := ifi.Block().Succs[0]
		// does the body region (until back at the test) contain the event?
		r := c.Run(&engine.Automaton{Fn: fn, StartBlock: body, Tracks: []engine.Track{engine.Event("ev", ev)},
			StopAt: func(x ssa.Instruction) bool { return x == ssa.Instruction(ifi) }})
		any := false
		for _, v := range r.StatesAt(ifi) {
			if v.Seen("ev") {
				any = true
			}
		}
		if !any {
			return
		}
		found++
		c.RequireAt(r, rule, key, ifi, require, func(v engine.View) bool { return v.Seen("ev") })
	})
	if found == 0 {
		c.Bad(rule, key, c.P.Pos(fn.Pos()), require, "no range loop over "+ranged+" containing the effect")
	}
}

// rangeBodyAlwaysIf: like rangeBodyAlways, but the event is required only in
// iterations where the guard predicate held the last time it was evaluated
// (or was never evaluated).
func rangeBodyAlwaysIf(c *Ctx, rule string, fn *ssa.Function, key, ranged string, ev func(ssa.Instruction) bool, guard engine.Track, require string) {
	found := 0
	engine.EachInstr(fn, func(in ssa.Instruction) {
		ifi, ok := in.(*ssa.If)
		if !ok {
			return
		}
		cd := c.P.CondOf(ifi.Cond)
		isLoop := false
		if cd.IsRel && cd.X == "idx(range)" && cd.Y == "len("+ranged+")" && cd.EdgeOrd(true) == engine.LT {
			isLoop = true
		}
		if !cd.IsRel && cd.B == "more(range "+ranged+")" && !cd.Neg {
			isLoop = true
		}
		if !isLoop {
			return
		}
		body := ifi.Block().Succs[0]
		r := c.Run(&engine.Automaton{Fn: fn, StartBlock: body, Tracks: []engine.Track{engine.Event("ev", ev), guard},
			StopAt: func(x ssa.Instruction) bool { return x == ssa.Instruction(ifi) }})
		any := false
		for _, v := range r.StatesAt(ifi) {
			if v.Seen("ev") {
				any = true
			}
		}
		if !any {
			return
		}
		found++
		c.RequireAt(r, rule, key, ifi, require, func(v engine.View) bool { return v.Seen("ev") || v.F(guard.Name) })
	})
	if found == 0 {
		c.Bad(rule, key, c.P.Pos(fn.Pos()), require, "no range loop over "+ranged+" containing the effect")
	}
}

// ---------------------------------------------------------------------------
// S-BOOTSTRAP: bootstrapping (which writes term 1 and log entry 1) is refused
// whenever any persisted state exists.
// ---------------------------------------------------------------------------

func sBootstrapGuard(c *Ctx, rule string) {
	if fn := c.Fn(rule, "HasExistingState"); fn != nil {
		term := "p2.GetUint64(@keyCurrentTerm)"
		r := c.Run(&engine.Automaton{Fn: fn, Tracks: []engine.Track{
			engine.Event("readTerm", callWithArg0(c, "iface:StableStore.GetUint64", "@keyCurrentTerm")),
			engine.PredRel("termErr", term+"#1", "nil", engine.LT|engine.GT),
			engine.PredRel("termErrOther", term+"#1.Error()", `"not found"`, engine.LT|engine.GT),
			engine.PredRel("termPos", term+"#0", "0", engine.GT),
			engine.Event("readLast", c.P.IsCallTo(engine.Is("iface:LogStore.LastIndex"))),
			engine.PredRel("lastErr", "p1.LastIndex()#1", "nil", engine.LT|engine.GT),
			engine.PredRel("lastPos", "p1.LastIndex()#0", "0", engine.GT),
			engine.Event("listed", c.P.IsCallTo(engine.Is("iface:SnapshotStore.List"))),
			engine.PredRel("listErr", "p3.List()#1", "nil", engine.LT|engine.GT),
			engine.PredRel("haveSnaps", "len(p3.List()#0)", "0", engine.GT),
		}})
		n := 0
		for _, ret := range engine.ReturnsOf(fn) {
			vals := engine.ReturnValues(ret)
			if len(vals) == 2 && c.P.D(vals[0]) == "false" && c.P.D(vals[1]) == "nil" {
				n++
				c.RequireAt(r, rule, "HasExistingState:no-state-verdict", ret,
					"(false, nil) only when: the term was read and is not > 0 (or is absent: 'not found'), LastIndex was read without error and is not > 0, and List was read without error and is empty",
					func(v engine.View) bool {
						termOK := v.Seen("readTerm") && ((v.F("termErr") && v.F("termPos")) || (v.T("termErr") && v.F("termErrOther")))
						logOK := v.Seen("readLast") && v.F("lastErr") && v.F("lastPos")
						snapOK := v.Seen("listed") && v.F("listErr") && v.F("haveSnaps")
						return termOK && logOK && snapOK
					})
			}
		}
		// `return len(snapshots) > 0, nil` is the last two returns in one: the
		// verdict is "no state" exactly when the listing is empty
		for _, ret := range engine.ReturnsOf(fn) {
			vals := engine.ReturnValues(ret)
			if len(vals) == 2 && c.P.D(vals[1]) == "nil" {
				cd := c.P.CondOf(vals[0])
				if s, ok := cd.RelOn("len(p3.List()#0)", "0"); ok && (s == engine.GT || s == engine.LT|engine.GT) {
					n++
					c.RequireAt(r, rule, "HasExistingState:no-state-verdict", ret,
						"(len(snapshots) > 0, nil) only when the term and the log were read and hold nothing, and List was read without error",
						func(v engine.View) bool {
							termOK := v.Seen("readTerm") && ((v.F("termErr") && v.F("termPos")) || (v.T("termErr") && v.F("termErrOther")))
							logOK := v.Seen("readLast") && v.F("lastErr") && v.F("lastPos")
							return termOK && logOK && v.Seen("listed") && v.F("listErr")
						})
				}
			}
		}
		if n == 0 {
			c.Bad(rule, "HasExistingState:no-state-verdict", c.P.Pos(fn.Pos()), "a return (false, nil)", "none")
		}
	}
	if fn := c.Fn(rule, "BootstrapCluster"); fn != nil {
		r := c.Run(&engine.Automaton{Fn: fn, Tracks: []engine.Track{
			engine.Event("asked", c.P.IsCallTo(engine.Is("HasExistingState"))),
			engine.PredRel("askErr", "HasExistingState(p2, p3, p4)#1", "nil", engine.LT|engine.GT),
			engine.PredBool("hasState", DescIs("HasExistingState(p2, p3, p4)#0")),
			engine.Event("cfgChecked", callWithArg0(c, "checkConfiguration", "p6")),
			predErr("cfgErr", "checkConfiguration("),
		}})
		n := 0
		for _, s := range c.P.CallsIn(fn, func(n string) bool {
			return strings.HasPrefix(n, "iface:StableStore.Set") || strings.HasPrefix(n, "iface:LogStore.Store")
		}) {
			n++
			c.RequireAt(r, rule, "BootstrapCluster:"+s.Note+"-only-on-empty-stores", s.Instr, "HasExistingState(logs, stable, snaps) returned (false, nil) and the configuration passed checkConfiguration before anything is written", func(v engine.View) bool {
				return v.Seen("asked") && v.F("askErr") && v.F("hasState") && v.Seen("cfgChecked") && v.F("cfgErr")
			})
		}
		if n < 2 {
			c.Bad(rule, "BootstrapCluster:writes", c.P.Pos(fn.Pos()), "writes term 1 and log entry 1", fmt.Sprintf("%d store writes found", n))
		}
	}
}

// ---------------------------------------------------------------------------
// S-CFGCLONE: the copy of the configuration tracker handed to other
// goroutines (snapshots, GetConfiguration) is field-wise faithful.
// ---------------------------------------------------------------------------

func sConfigClone(c *Ctx, rule string) {
	fn := c.Fn(rule, "(*configurations).Clone")
	if fn == nil {
		return
	}
	want := map[string]string{
		"committed":      "recv.committed.Clone()",
		"committedIndex": "recv.committedIndex",
		"latest":         "recv.latest.Clone()",
		"latestIndex":    "recv.latestIndex",
	}
	got := map[string]string{}
	for f := range want {
		fv := c.P.LookupField("configurations", f)
		if fv == nil {
			c.Bad(rule, "anchor:configurations."+f, "-", "field exists", "not found")
			continue
		}
		for _, w := range c.P.FieldWritesIn(fn, fv) {
			v, _ := c.P.StoredValue(w.Instr, fv)
			got[f] = c.P.D(v)
		}
	}
	for _, f := range []string{"committed", "committedIndex", "latest", "latestIndex"} {
		c.Check(rule, "configurations.Clone:"+f, c.P.Pos(fn.Pos()), "the copy's "+f+" is the original's "+f+" (deep-copied for the two configurations)", got[f] == want[f], "copy."+f+" = "+got[f], 1)
	}
	// the three loops answer configuration requests with such a copy
	for _, name := range []string{"(*Raft).runFollower", "(*Raft).runCandidate", "(*Raft).leaderLoop"} {
		lf := c.P.Fn(name)
		cf := c.P.LookupField("configurationsFuture", "configurations")
		if lf == nil || cf == nil {
			continue
		}
		n := 0
		for _, w := range c.P.FieldWritesIn(lf, cf) {
			v, _ := c.P.StoredValue(w.Instr, cf)
			n++
			c.Check(rule, name+":configurations-future-filled-from-tracker", c.P.InstrPos(w.Instr), "a configurations request is answered with r.configurations.Clone()", c.P.D(v) == "recv.configurations.Clone()", "= "+c.P.D(v), 1)
		}
		if n == 0 {
			c.Bad(rule, name+":configurations-future-filled-from-tracker", c.P.Pos(lf.Pos()), "the loop fills the configurations future", "no store")
		}
	}
}

// sortSupportSound: Len and Swap of a sort.Interface implementation are the
// textbook ones – a Less verified by an ordering oracle says nothing about the
// result of sort.Sort when Swap does not exchange exactly elements i and j or
// Len is not the slice's length.
func sortSupportSound(c *Ctx, rule, typ string) {
	if fn := c.Fn(rule, "("+typ+").Len"); fn != nil {
		ok := false
		d := ""
		for _, ret := range engine.ReturnsOf(fn) {
			d = c.P.D(engine.ReturnValues(ret)[0])
			ok = d == "len(recv)"
		}
		c.Check(rule, typ+".Len", c.P.Pos(fn.Pos()), "Len is the slice's length (sort.Sort orders all of it)", ok, "returns "+d, 1)
	}
	if fn := c.Fn(rule, "("+typ+").Swap"); fn != nil {
		var stores []*ssa.Store
		firstStore := -1
		idx := map[ssa.Instruction]int{}
		n := 0
		engine.EachInstr(fn, func(in ssa.Instruction) {
			idx[in] = n
			if st, ok := in.(*ssa.Store); ok {
				if firstStore < 0 {
					firstStore = n
				}
				stores = append(stores, st)
			}
			n++
		})
		ok := len(stores) == 2 && len(fn.Blocks) == 1
		found := fmt.Sprintf("%d stores", len(stores))
		if ok {
			a0, v0 := c.P.D(stores[0].Addr), c.P.D(stores[0].Val)
			a1, v1 := c.P.D(stores[1].Addr), c.P.D(stores[1].Val)
			found = a0 + " = " + v0 + "; " + a1 + " = " + v1
			ok = ((a0 == "recv[p1]" && a1 == "recv[p2]") || (a0 == "recv[p2]" && a1 == "recv[p1]")) && v0 == a1 && v1 == a0
			// both old values are loaded before the first store
			for _, st := range stores {
				ld, isLoad := st.Val.(*ssa.UnOp)
				if !isLoad || idx[ld] > firstStore {
					ok = false
					found += " (a value is read after the first write)"
				}
			}
		}
		c.Check(rule, typ+".Swap", c.P.Pos(fn.Pos()), "Swap exchanges exactly elements i and j (both old values read before either is overwritten)", ok, found, 1)
	}
}

// S-CFGCODEC: the configuration that goes into a log entry, a snapshot
// request or the bootstrap entry is the one that comes out again. Decides the
// wiring of EncodeConfiguration/DecodeConfiguration and of the msgpack helpers
// and the encodability of the types; the codec library itself is trusted.
func sConfigCodec(c *Ctx, rule string) {
	if fn := c.Fn(rule, "EncodeConfiguration"); fn != nil {
		ok := false
		d := ""
		for _, ret := range engine.ReturnsOf(fn) {
			d = c.P.D(engine.ReturnValues(ret)[0])
			ok = d == "encodeMsgPack(p1)#0.Bytes()"
		}
		r := c.Run(&engine.Automaton{Fn: fn, Tracks: []engine.Track{predErr("encErr", "encodeMsgPack(p1)#1")}})
		for _, ret := range engine.ReturnsOf(fn) {
			c.RequireAt(r, rule, "EncodeConfiguration:returns-encoding-of-argument", ret, "the bytes returned are the encoding of the configuration passed in, and only when encoding succeeded (an error panics)", func(v engine.View) bool { return ok && v.F("encErr") })
		}
		if len(engine.ReturnsOf(fn)) == 0 {
			c.Bad(rule, "EncodeConfiguration:returns", c.P.Pos(fn.Pos()), "a return", "none")
		}
	}
	if fn := c.Fn(rule, "DecodeConfiguration"); fn != nil {
		r := c.Run(&engine.Automaton{Fn: fn, Tracks: []engine.Track{predErr("decErr", "decodeMsgPack(p1, var(Configuration))")}})
		n := 0
		for _, ret := range engine.ReturnsOf(fn) {
			n++
			d := c.P.D(engine.ReturnValues(ret)[0])
			c.RequireAt(r, rule, "DecodeConfiguration:returns-decoded-argument", ret, "the configuration returned is the one decoded from the bytes passed in, and only when decoding succeeded (an error panics)", func(v engine.View) bool { return d == "var(Configuration)" && v.F("decErr") })
		}
		if n == 0 {
			c.Bad(rule, "DecodeConfiguration:returns", c.P.Pos(fn.Pos()), "a return", "none")
		}
	}
	if fn := c.Fn(rule, "encodeMsgPack"); fn != nil {
		ok := false
		d := ""
		for _, ret := range engine.ReturnsOf(fn) {
			vals := engine.ReturnValues(ret)
			d = c.P.D(vals[0]) + ", " + c.P.D(vals[1])
			buf := c.P.D(vals[0])
			ok = strings.HasPrefix(buf, "bytes.NewBuffer(") && strings.Contains(c.P.D(vals[1]), "codec.NewEncoder("+buf+",") && strings.HasSuffix(c.P.D(vals[1]), ".Encode(p1)")
		}
		c.Check(rule, "encodeMsgPack:wiring", c.P.Pos(fn.Pos()), "the value passed in is encoded into the buffer that is returned, and the encoder's error is returned", ok, "returns "+d, 1)
	}
	if fn := c.Fn(rule, "decodeMsgPack"); fn != nil {
		ok := false
		d := ""
		for _, ret := range engine.ReturnsOf(fn) {
			d = c.P.D(engine.ReturnValues(ret)[0])
			ok = strings.Contains(d, "codec.NewDecoder(bytes.NewBuffer(p1),") && strings.HasSuffix(d, ".Decode(p2)")
		}
		c.Check(rule, "decodeMsgPack:wiring", c.P.Pos(fn.Pos()), "the bytes passed in are decoded into the object passed in, and the decoder's error is returned", ok, "returns "+d, 1)
	}
	for _, tn := range []string{"Configuration", "Server"} {
		n := c.P.LookupType(tn)
		if n == nil {
			c.Bad(rule, "anchor:type "+tn, "-", "type exists", "not found")
			continue
		}
		st, _ := n.Underlying().(*types.Struct)
		bad := ""
		for i := 0; st != nil && i < st.NumFields(); i++ {
			f := st.Field(i)
			if !f.Exported() {
				bad = tn + "." + f.Name() + " is unexported: dropped by the codec"
			}
			if st.Tag(i) != "" && (strings.Contains(st.Tag(i), `"-"`) || strings.Contains(st.Tag(i), "omitempty")) {
				bad = tn + "." + f.Name() + " carries tag " + st.Tag(i)
			}
			switch f.Type().Underlying().(type) {
			case *types.Chan, *types.Signature, *types.Interface:
				bad = tn + "." + f.Name() + " has a kind the codec cannot round-trip"
			}
		}
		nf := 0
		if st != nil {
			nf = st.NumFields()
		}
		c.Check(rule, "config-wire-type:"+tn, c.P.Pos(n.Obj().Pos()), "every field of "+tn+" is exported, untagged and of an encodable kind (what is stored in the log is the whole membership)", bad == "" && nf > 0, pick(bad == "", fmt.Sprintf("%d fields", nf), bad), nf)
	}
}

// S-VOTEID: the identity under which a vote is recorded is the identity the
// duplicate-vote test compares, and it is never empty for a request that
// names its sender: req.Addr is used only when len(req.Addr) > 0 was
// established, otherwise the (older) req.Candidate field. An empty recorded
// candidate reads back as "no vote" and a second candidate of the same term is
// granted.
func sVoteIdentity(c *Ctx, rule string) {
	// the candidate records its OWN vote under the header's Addr
	// (electSelf: persistVote(term, req.RPCHeader.Addr)); the header therefore
	// carries the encoded address for every protocol version – with an empty
	// Addr the self vote is stored under an empty identity, reads back as "no
	// vote", and the server grants a second candidate in the term it stood in
	if hf := c.Fn(rule, "(*Raft).getRPCHeader"); hf != nil {
		settersUnconditional(c, rule, "(*Raft).getRPCHeader", "RPCHeader", "ProtocolVersion", "ID", "Addr")
		if af := c.P.LookupField("RPCHeader", "Addr"); af != nil {
			n := 0
			for _, w := range c.P.FieldWritesIn(hf, af) {
				n++
				v, _ := c.P.StoredValue(w.Instr, af)
				d := c.P.D(v)
				c.Check(rule, "getRPCHeader:addr-is-encoded-local-address", c.P.InstrPos(w.Instr), "Addr = trans.EncodePeer(LocalID, localAddr)", strings.Contains(d, ".EncodePeer(") && strings.Contains(d, "recv.localAddr"), "Addr = "+d, 1)
			}
			if n == 0 {
				c.Bad(rule, "getRPCHeader:addr", c.P.Pos(hf.Pos()), "a store of RPCHeader.Addr", "none")
			}
		}
	}
	if ef := c.Fn(rule, "(*Raft).electSelf"); ef != nil {
		for _, s := range c.P.CallsIn(ef, engine.Is("(*Raft).persistVote")) {
			d := c.P.Arg(s.Instr, 1)
			c.Check(rule, "electSelf:self-vote-identity", c.P.InstrPos(s.Instr), "the self vote is recorded under the request header's Addr (the identity peers' votes for this server are recorded under)", strings.HasSuffix(d, ".RPCHeader.Addr") || strings.HasSuffix(d, ".Addr"), "persistVote(_, "+d+")", 1)
		}
	}
	fn := c.Fn(rule, "(*Raft).requestVote")
	if fn == nil {
		return
	}
	var persisted, compared ssa.Value
	var persistCall ssa.Instruction
	for _, s := range c.P.CallsIn(fn, engine.Is("(*Raft).persistVote")) {
		persisted, persistCall = engine.ArgValue(s.Instr, 1), s.Instr
	}
	for _, s := range c.P.CallsIn(fn, engine.Is("bytes.Equal")) {
		if strings.Contains(c.P.Arg(s.Instr, 0), "@keyLastVoteCand") {
			compared = engine.ArgValue(s.Instr, 1)
		} else if strings.Contains(c.P.Arg(s.Instr, 1), "@keyLastVoteCand") {
			compared = engine.ArgValue(s.Instr, 0)
		}
	}
	if persisted == nil || compared == nil {
		c.Bad(rule, "requestVote:vote-identity", c.P.Pos(fn.Pos()), "a persistVote(term, candidate) call and a bytes.Equal(lastVoteCand, candidate) test", "not found")
		return
	}
	same := c.P.D(persisted) == c.P.D(compared)
	c.Check(rule, "requestVote:recorded-identity-is-compared-identity", c.P.InstrPos(persistCall), "the candidate bytes recorded with the vote are the bytes the repeated-vote test compares the stored candidate with", same, "recorded "+c.P.D(persisted)+" / compared "+c.P.D(compared), 1)
	const addr, cand = "p2.RPCHeader.Addr", "p2.Candidate"
	r := c.Run(&engine.Automaton{Fn: fn, Tracks: []engine.Track{
		engine.PredRel("hasAddr", "len("+addr+")", "0", engine.GT),
	}})
	switch v := persisted.(type) {
	case *ssa.Phi:
		for i, e := range v.Edges {
			d := c.P.D(e)
			states := r.EdgeStates(v.Block().Preds[i], v.Block())
			bad := ""
			switch d {
			case addr:
				for _, st := range states {
					if !st.T("hasAddr") {
						bad = "req.Addr chosen without len(req.Addr) > 0: {" + st.String() + "}"
					}
				}
			case cand:
				// the older field: chosen when the header carries no address
			default:
				bad = "unexpected identity source " + d
			}
			c.Check(rule, "requestVote:identity-source "+d, c.P.InstrPos(persistCall), "the recorded identity is req.Addr only where len(req.Addr) > 0 holds, else req.Candidate (never an empty identity for an old-style request)", bad == "", pick(bad == "", fmt.Sprintf("%d edge states", len(states)), bad), len(states))
		}
	default:
		d := c.P.D(persisted)
		if d == cand {
			c.Check(rule, "requestVote:identity-source "+d, c.P.InstrPos(persistCall), "the recorded identity is req.Candidate", true, "always req.Candidate", 1)
			return
		}
		c.RequireAt(r, rule, "requestVote:identity-source "+d, persistCall, "the recorded identity is req.Addr only where len(req.Addr) > 0 holds, else req.Candidate (never an empty identity for an old-style request)", func(vw engine.View) bool {
			return d == addr && vw.T("hasAddr")
		})
	}
}

// S-COMMITCFG: configurations.committed follows the commit index. Every site
// that raises the commit index decides, in the same pass, whether the latest
// configuration entry is now covered, and promotes it when it is. At start-up
// the commit index may be restored from the log store (RestoreCommittedLogs)
// before the configuration scan has run; the scan deliberately leaves
// "committed" one configuration behind "latest" (right while the commit index
// is unknown), so NewRaft has to make that decision after the scan. A stale
// committed configuration blocks membership changes for ever and is what the
// next snapshot records – after compaction the committed change is gone.
func sCommitCoversConfig(c *Ctx, rule string) {
	isPromote := func(in ssa.Instruction) bool {
		cc := engine.CallCommonOf(in)
		if cc == nil || c.P.CalleeName(cc) != "(*Raft).setCommittedConfiguration" {
			return false
		}
		return strings.HasSuffix(c.P.Arg(in, 0), ".configurations.latest") && strings.HasSuffix(c.P.Arg(in, 1), ".configurations.latestIndex")
	}
	covers := func(commitDescs ...string) engine.Track {
		return engine.PredCond("covers", func(cd engine.Cond) (bool, int) {
			cd, _ = cd.With(func(d string) bool { return strings.HasSuffix(d, ".configurations.latestIndex") })
			if !cd.IsRel || !strings.HasSuffix(cd.X, ".configurations.latestIndex") {
				return false, 0
			}
			for _, y := range commitDescs {
				if cd.Y == y {
					switch cd.EdgeOrd(true) {
					case engine.LT | engine.EQ:
						return true, engine.True
					case engine.GT:
						return true, engine.False
					}
				}
			}
			return false, 0
		})
	}
	c.WhoMay(rule, "call (*raftState).setCommitIndex", c.P.CallsEverywhere(engine.Is("(*raftState).setCommitIndex")), map[string]string{
		"(*Raft).leaderLoop":               "commit arm: promotion decided right after",
		"(*Raft).appendEntries":            "follower: promotion decided right after",
		"(*Raft).restoreFromCommittedLogs": "start-up: promotion decided by NewRaft after the configuration scan",
	})
	c.WhoMay(rule, "call (*Raft).restoreFromCommittedLogs", c.P.CallsEverywhere(engine.Is("(*Raft).restoreFromCommittedLogs")), map[string]string{"NewRaft": "once, before the configuration scan"})
	// follower
	if fn := c.Fn(rule, "(*Raft).appendEntries"); fn != nil {
		for _, s := range c.P.CallsIn(fn, engine.Is("(*raftState).setCommitIndex")) {
			idx := c.P.Arg(s.Instr, 0)
			r := c.Run(&engine.Automaton{Fn: fn, StartAfter: s.Instr, Tracks: []engine.Track{covers(idx), engine.Event("promoted", isPromote)}})
			for i, ret := range engine.ReturnsOf(fn) {
				if len(r.StatesAt(ret)) == 0 {
					continue
				}
				c.RequireAt(r, rule, fmt.Sprintf("appendEntries:commit-covers-configuration#%d", i+1), ret, "after raising the commit index to idx the follower tests latestIndex <= idx and, when true, makes the latest configuration the committed one", func(v engine.View) bool {
					return v.F("covers") || (v.T("covers") && v.Seen("promoted"))
				})
			}
		}
	}
	// leader
	if fn := c.Fn(rule, "(*Raft).leaderLoop"); fn != nil {
		for _, s := range c.P.CallsIn(fn, engine.Is("(*raftState).setCommitIndex")) {
			idx := c.P.Arg(s.Instr, 0)
			// "newer": the latest configuration lies above the commit index as it
			// was before this pass (at or below it, it was promoted by an earlier
			// pass – the invariant NewRaft has to establish)
			r := c.Run(&engine.Automaton{Fn: fn, StartAfter: s.Instr, StopAt: isSelect, Tracks: []engine.Track{
				engine.PredRel("newer", "recv.configurations.latestIndex", "recv.raftState.getCommitIndex()", engine.GT),
				covers(idx), engine.Event("promoted", isPromote)}})
			n := 0
			engine.EachInstr(fn, func(in ssa.Instruction) {
				if !isSelect(in) || len(r.StatesAt(in)) == 0 {
					return
				}
				n++
				c.RequireAt(r, rule, "leaderLoop:commit-covers-configuration", in, "after raising the commit index the leader tests oldCommit < latestIndex <= commitIndex and, when true, makes the latest configuration the committed one before the next select", func(v engine.View) bool {
					return v.F("newer") || v.F("covers") || (v.T("covers") && v.Seen("promoted"))
				})
			})
			if n == 0 {
				c.Bad(rule, "leaderLoop:commit-covers-configuration", c.P.InstrPos(s.Instr), "the commit arm returns to the select", "not reached")
			}
		}
	}
	// start-up
	if fn := c.Fn(rule, "NewRaft"); fn != nil {
		r := c.Run(&engine.Automaton{Fn: fn, Tracks: []engine.Track{
			engine.Event("restored", c.P.IsCallTo(engine.Is("(*Raft).restoreFromCommittedLogs"))),
			engine.Event("scanned", c.P.IsCallTo(engine.Is("(*Raft).processConfigurationLogEntry")), "covers", "promoted"),
			covers("new(Raft).raftState.getCommitIndex()"),
			engine.Event("promoted", isPromote),
		}})
		n := 0
		for i, ret := range engine.ReturnsOf(fn) {
			vals := engine.ReturnValues(ret)
			if len(vals) != 2 || c.P.D(vals[1]) != "nil" {
				continue
			}
			n++
			c.RequireAt(r, rule, fmt.Sprintf("NewRaft:restored-commit-covers-configuration#%d", i+1), ret, "after the configuration scan NewRaft tests latestIndex <= getCommitIndex() (the commit index restoreFromCommittedLogs may have restored) and, when true, makes the latest configuration the committed one", func(v engine.View) bool {
				if !v.Seen("restored") {
					return true
				}
				return v.F("covers") || (v.T("covers") && v.Seen("promoted"))
			})
		}
		if n == 0 {
			c.Bad(rule, "NewRaft:success-returns", c.P.Pos(fn.Pos()), "a (r, nil) return", "none")
		}
	}
}

// coreCommitBundle: the rule groups every "what is committed stays committed
// and is what clients were told" property depends on, whichever of them a
// change is filed under: voter-only commitment slots, the quorum element, the
// first committable index of a term, the follower's commit update, match
// bookkeeping only on acknowledged entries, who may send as leader with which
// term, and the quorum size. skip names groups the property already runs.
func coreCommitBundle(c *Ctx, rule string, skip ...string) {
	has := map[string]bool{}
	for _, s := range skip {
		has[s] = true
	}
	run := func(name string, f func(*Ctx, string)) {
		if !has[name] {
			f(c, rule+"/"+name)
		}
	}
	run("C05.R1", c05R1)
	run("C05.R2", c05R2)
	run("C05.R3", c05R3)
	run("C05.R4", c05R4)
	run("S-MATCH", sMatch)
	run("C01.R5", c01R5)
	run("S-QUORUM", sQuorum)
}

// S-MAINSEND: a plain (non-select) send executed by the main goroutine – or by
// respond(), which every goroutine calls – must never block: its channel is
// created with room for it. An unbuffered stopCh, for instance, parks the
// leader's main loop (and with it the lease check and every queue) until a
// replication routine that may be sleeping in its back-off comes round.
func sMainSendsBuffered(c *Ctx, rule string) {
	roomy := func(d string) bool {
		if !strings.HasPrefix(d, "make(chan ") {
			return false
		}
		i := strings.LastIndex(d, ", ")
		if i < 0 {
			return false
		}
		sz := strings.TrimSuffix(d[i+2:], ")")
		if strings.HasPrefix(sz, "len(") {
			return true // one slot per server of the configuration
		}
		var n int64
		_, err := fmt.Sscanf(sz, "%d", &n)
		return err == nil && n >= 1
	}
	n := 0
	for _, name := range []string{"(*Raft).startStopReplication", "(*Raft).leaderLoop", "(*Raft).electSelf", "(*Raft).preElectSelf", "(*deferError).respond", "(*Raft).runLeader$defer"} {
		fn := c.P.Fn(name)
		if fn == nil {
			continue
		}
		engine.EachInstr(fn, func(in ssa.Instruction) {
			snd, ok := in.(*ssa.Send)
			if !ok {
				return
			}
			n++
			d := c.P.D(snd.Chan)
			okCap, found := false, d
			if roomy(d) {
				okCap = true
			} else if f := engine.ChanField(snd.Chan); f != nil {
				ws := c.P.FieldWrites(f)
				okCap = len(ws) > 0
				var ds []string
				for _, w := range ws {
					v, _ := c.P.StoredValue(w.Instr, f)
					vd := c.P.D(v)
					ds = append(ds, vd)
					if vd != "nil" && !roomy(vd) {
						okCap = false
					}
				}
				found = d + " created as " + strings.Join(ds, " | ")
			}
			c.Check(rule, name+":plain-send-cannot-block", c.P.InstrPos(in), "a plain send on the main goroutine (or in respond) goes to a channel created with capacity >= 1 (or one slot per server)", okCap, found, 1)
		})
	}
	if n < 4 {
		c.Bad(rule, "main-goroutine-sends", "-", "the known plain sends (stopCh, doneCh, self votes, errCh)", fmt.Sprintf("%d found", n))
	}
}

// S-FASTPATH: the transport may run the follower's AppendEntries handler on
// its own goroutine (heartbeat fast path), concurrently with the main loop.
// That is only sound for requests that cannot touch the log, the commit index
// or the configuration: no entries, no previous-entry claim, no leader commit.
// Anything else must go through consumeCh to the main loop.
func sHeartbeatFastPath(c *Ctx, rule string) {
	fn := c.Fn(rule, "(*NetworkTransport).handleCommand")
	if fn == nil {
		return
	}
	req := "var(AppendEntriesRequest)"
	r := c.Run(&engine.Automaton{Fn: fn, Tracks: []engine.Track{
		engine.PredRel("prevIdx0", req+".PrevLogEntry", "0", engine.EQ),
		engine.PredRel("prevTerm0", req+".PrevLogTerm", "0", engine.EQ),
		engine.PredRel("noEntries", "len("+req+".Entries)", "0", engine.EQ),
		engine.PredRel("noCommit", req+".LeaderCommitIndex", "0", engine.EQ),
	}})
	n := 0
	engine.EachInstr(fn, func(in ssa.Instruction) {
		cc := engine.CallCommonOf(in)
		if cc == nil || c.P.CalleeName(cc) != "dyn:recv.heartbeatFn" {
			return
		}
		n++
		c.RequireAt(r, rule, "handleCommand:fast-path-only-for-empty-heartbeats", in, "the handler is run on the transport's goroutine only for an AppendEntries request with PrevLogEntry = 0, PrevLogTerm = 0, no entries and LeaderCommitIndex = 0 (it cannot touch log, commit index or configuration)", func(v engine.View) bool {
			return v.T("prevIdx0") && v.T("prevTerm0") && v.T("noEntries") && v.T("noCommit")
		})
	})
	if n != 1 {
		c.Bad(rule, "handleCommand:fast-path-call", c.P.Pos(fn.Pos()), "one call of the heartbeat handler", fmt.Sprintf("%d", n))
	}
	// the handler is called nowhere else, and only processHeartbeat is installed
	if f := c.Field(rule, "NetworkTransport", "heartbeatFn"); f != nil {
		k := 0
		for _, g := range c.P.AllFuncs() {
			for _, h := range engine.WithLits(g) {
				engine.EachInstr(h, func(in ssa.Instruction) {
					if cc := engine.CallCommonOf(in); cc != nil && strings.HasPrefix(c.P.CalleeName(cc), "dyn:") && strings.HasSuffix(c.P.CalleeName(cc), ".heartbeatFn") {
						k++
						if c.P.Name(h) != "(*NetworkTransport).handleCommand" {
							c.Check(rule, "heartbeatFn:called-in "+c.P.Name(h), c.P.InstrPos(in), "the heartbeat handler is invoked by handleCommand only", false, "called in "+c.P.Name(h), 1)
						}
					}
				})
			}
		}
		_ = k
	}
}

// S-ASYNC: asyncNotifyCh is a non-blocking send – an edge-triggered wake-up
// that is only kept for a receiver who is not waiting right now if the channel
// has room for it. Every channel handed to asyncNotifyCh (stepDown, commitCh,
// triggerCh, notifyCh, the follower/leader notify channels) is therefore
// created with capacity >= 1; unbuffered, a step-down request or a commit
// notification raised while the main loop is busy is silently dropped.
func chanCreatedRoomy(c *Ctx, v ssa.Value, depth int) (bool, string) {
	roomy := func(d string) bool {
		if !strings.HasPrefix(d, "make(chan ") {
			return false
		}
		i := strings.LastIndex(d, ", ")
		if i < 0 {
			return false
		}
		sz := strings.TrimSuffix(d[i+2:], ")")
		if strings.HasPrefix(sz, "len(") {
			return true
		}
		var n int64
		_, err := fmt.Sscanf(sz, "%d", &n)
		return err == nil && n >= 1
	}
	d := c.P.D(v)
	if roomy(d) {
		return true, d
	}
	if depth <= 0 {
		return false, d + " (origin not resolved)"
	}
	if f := engine.ChanField(v); f != nil {
		ws := c.P.FieldWrites(f)
		if len(ws) == 0 {
			return false, d + " is never assigned"
		}
		var ds []string
		all := true
		for _, w := range ws {
			sv, _ := c.P.StoredValue(w.Instr, f)
			if sv == nil {
				all = false
				continue
			}
			if c.P.D(sv) == "nil" {
				ds = append(ds, "nil")
				continue
			}
			ok, fd := chanCreatedRoomy(c, sv, depth-1)
			ds = append(ds, fd)
			all = all && ok
		}
		return all, d + " created as " + strings.Join(ds, " | ")
	}
	if par, ok := v.(*ssa.Parameter); ok && par.Parent() != nil {
		fn := par.Parent()
		idx := -1
		for i, q := range fn.Params {
			if q == par {
				idx = i
			}
		}
		if fn.Signature.Recv() != nil {
			idx--
		}
		callers := c.P.CallsEverywhere(engine.Is(c.P.Name(fn)))
		if idx < 0 || len(callers) == 0 {
			return false, d + " (parameter without resolvable callers)"
		}
		var ds []string
		all := true
		for _, s := range callers {
			av := engine.ArgValue(s.Instr, idx)
			if av == nil {
				all = false
				continue
			}
			ok, fd := chanCreatedRoomy(c, av, depth-1)
			ds = append(ds, fd)
			all = all && ok
		}
		return all, d + " ← " + strings.Join(ds, " | ")
	}
	return false, d + " (origin not resolved)"
}

func sAsyncNotifyBuffered(c *Ctx, rule string) {
	sites := c.P.CallsEverywhere(engine.Is("asyncNotifyCh"))
	for _, s := range sites {
		v := engine.ArgValue(s.Instr, 0)
		ok, found := chanCreatedRoomy(c, v, 3)
		c.Check(rule, "asyncNotifyCh("+c.P.D(v)+") in "+c.P.Name(s.Fn), c.P.InstrPos(s.Instr), "a channel notified with a non-blocking send is created with capacity >= 1 (otherwise the wake-up is lost whenever the receiver is busy)", ok, found, 1)
	}
	if len(sites) < 6 {
		c.Bad(rule, "asyncNotifyCh:sites", "-", "the known call sites (stepDown, commitCh, triggerCh, notifyCh, …)", fmt.Sprintf("%d found", len(sites)))
	}
	// asyncNotifyCh itself: select { case ch <- struct{}{}: default: }
	if fn := c.Fn(rule, "asyncNotifyCh"); fn != nil {
		n := 0
		engine.EachInstr(fn, func(in ssa.Instruction) {
			if sel, ok := in.(*ssa.Select); ok {
				n++
				c.Check(rule, "asyncNotifyCh:shape", c.P.InstrPos(in), "one non-blocking select with a single send on the argument", !sel.Blocking && len(sel.States) == 1 && sel.States[0].Dir == types.SendOnly && c.P.D(sel.States[0].Chan) == "p1", "select", 1)
			}
		})
		if n != 1 {
			c.Bad(rule, "asyncNotifyCh:shape", c.P.Pos(fn.Pos()), "one select", fmt.Sprintf("%d", n))
		}
	}
}

// S-DISPATCH: Raft.processRPC hands every recognised command to its handler,
// unconditionally: after the header check, a matched type-switch case calls
// the handler and nothing else answers the RPC. The "unexpected command"
// answer is reserved for commands no case matched – candidates interpret that
// very error as "this server predates pre-vote" and count it as a grant.
func sDispatch(c *Ctx, rule string) {
	fn := c.Fn(rule, "(*Raft).processRPC")
	if fn == nil {
		return
	}
	handlers := map[string]string{
		"*AppendEntriesRequest":   "(*Raft).appendEntries",
		"*RequestVoteRequest":     "(*Raft).requestVote",
		"*RequestPreVoteRequest":  "(*Raft).requestPreVote",
		"*InstallSnapshotRequest": "(*Raft).installSnapshot",
		"*TimeoutNowRequest":      "(*Raft).timeoutNow",
	}
	var tracks []engine.Track
	var names []string
	for t := range handlers {
		names = append(names, t)
	}
	sort.Strings(names)
	for _, t := range names {
		tt := t
		tracks = append(tracks, engine.PredBool("is"+tt, func(d string) bool { return d == "var(RPC).Command.("+tt+")#1" }))
		h := handlers[tt]
		tracks = append(tracks, engine.Event("h"+tt, c.P.IsCallTo(engine.Is(h))))
	}
	tracks = append(tracks,
		predErr("hdrErr", "recv.checkRPCHeader("),
		engine.Event("answered", c.P.IsCallTo(engine.Is("(*RPC).Respond", "(RPC).Respond"))),
	)
	r := c.Run(&engine.Automaton{Fn: fn, Tracks: tracks})
	for i, ret := range engine.ReturnsOf(fn) {
		c.RequireAt(r, rule, fmt.Sprintf("processRPC:matched-command-reaches-its-handler#%d", i+1), ret, "when the header check passed and the command matched a case, that case's handler was called and processRPC itself answered nothing; only an unmatched command is answered here", func(v engine.View) bool {
			if v.T("hdrErr") {
				return v.Seen("answered")
			}
			matched := false
			for _, t := range names {
				if v.T("is" + t) {
					matched = true
					if !v.Seen("h"+t) || v.Seen("answered") {
						return false
					}
				}
			}
			if !matched {
				return v.Seen("answered")
			}
			return true
		})
	}
}
