package rules

import (
	"fmt"
	"go/token"
	"go/types"
	"sort"
	"strings"

	"golang.org/x/tools/go/ssa"

	"verif/lint/engine"
)

func init() {
	register(&Property{
		ID:          "C17",
		Explanation: "Decided for all paths: each of the three run loops (follower, candidate, leader) has a receive case for every request queue and for shutdownCh; whatever a loop receives is answered on every path of its arm or handed to a function/goroutine whose own summary is 'answers or parks on every path' (dispatchLogs parks every future in the in-flight list, verifyLeader answers or registers, appendConfigurationEntry answers or dispatches, the transfer goroutine answers on every exit), and every parking structure has frozen drain sites that answer all elements (commit arm, step-down exit, user restore); every API-side enqueue of a future sits in a select that can escape through shutdownCh or default; deferError.respond is idempotent and Error() selects on ShutdownCh; every future that can sit in a buffered queue when the loops exit must carry a ShutdownCh – six (function, future type) pairs do not, listed as known findings.",
		NotDecided:  "the time bound ('completes within bounded time while running'): no static argument bounds scheduling or replication latency.",
		RuleText:    "C17.R1 channel-set agreement between the three loops; R2 per-arm answer-or-hand-off automata plus callee summaries; R3 select-shape rule on every API enqueue; R4 shutdown-escape rule on buffered queues (known findings); R5 shape of deferError.respond/Error.",
		Run:         c17,
	})
}

var futureQueues = []string{"applyCh", "verifyCh", "configurationChangeCh", "userRestoreCh", "leadershipTransferCh", "configurationsCh", "bootstrapCh"}

func c17(c *Ctx) {
	c17R1(c, "R1")
	c17R2(c, "R2")
	c02R3(c, "R2/C02.R3")
	c08R1(c, "R2/C08.R1")
	c08R4(c, "R2/C08.R4")
	c17R3(c, "R3")
	c17R4(c, "R4")
	c17R5(c, "R5")
	c17R6(c, "R6")
	c17R7(c, "R7")
	sMainSendsBuffered(c, "R8/S-MAINSEND")
	c13R1(c, "R9/C13.R1")
	sCommitCoversConfig(c, "R9/S-COMMITCFG")
	sLockDiscipline(c, "R10/S-LOCK", "verifyFuture", "followerReplication")
	sAsyncNotifyBuffered(c, "R8/S-ASYNC")
	// round 7: a verify future parked with nobody to answer it; a batch whose
	// futures are skipped by an early return
	c09R2Verify(c, "R11/C09.R2")
	// an isolated leader gives up (and answers its callers' futures) only
	// through the lease check: the timer is always armed (C13.R2)
	c13R2(c, "R11/C13.R2")
	c08R5(c, "R11/C08.R5")
}

func loopSelect(c *Ctx, fn *ssa.Function) *ssa.Select {
	var best *ssa.Select
	engine.EachInstr(fn, func(in ssa.Instruction) {
		if s, ok := in.(*ssa.Select); ok && s.Blocking && (best == nil || len(s.States) > len(best.States)) {
			best = s
		}
	})
	return best
}

func c17R1(c *Ctx, rule string) {
	want := append([]string{"rpcCh", "shutdownCh"}, futureQueues...)
	for _, name := range []string{"(*Raft).runFollower", "(*Raft).runCandidate", "(*Raft).leaderLoop"} {
		fn := c.Fn(rule, name)
		if fn == nil {
			continue
		}
		sel := loopSelect(c, fn)
		if sel == nil {
			c.Bad(rule, name+":select", c.P.Pos(fn.Pos()), "the loop's select", "none")
			continue
		}
		have := map[string]bool{}
		for _, st := range sel.States {
			if st.Dir != types.RecvOnly {
				continue
			}
			d := c.P.D(st.Chan)
			if d == "recv.configurationChangeChIfStable()" {
				have["configurationChangeCh"] = true
			}
			if strings.HasPrefix(d, "recv.") {
				have[strings.TrimPrefix(d, "recv.")] = true
			}
		}
		for _, w := range want {
			c.Check(rule, name+":serves "+w, c.P.InstrPos(sel), "the loop's select has a receive case for "+w+" (a queue that is not served in some state strands its callers)", have[w], pick(have[w], "case present", "no case"), 1)
		}
		// the loop re-enters the select from every non-returning arm
		c.Check(rule, name+":select-in-loop", c.P.InstrPos(sel), "the select is inside the state loop", engine.Reaches(sel.Block(), sel.Block()) && reachesSelf(sel.Block()), pick(reachesSelf(sel.Block()), "loops", "not in a loop"), 1)
	}
	// run() dispatches all three and exits on shutdown
	if fn := c.Fn(rule, "(*Raft).run"); fn != nil {
		for _, callee := range []string{"(*Raft).runFollower", "(*Raft).runCandidate", "(*Raft).runLeader"} {
			n := len(c.P.CallsIn(fn, engine.Is(callee)))
			c.Check(rule, "run:dispatches "+callee, c.P.Pos(fn.Pos()), "run() enters "+callee+" for its state", n == 1, fmt.Sprintf("%d call(s)", n), 1)
		}
	}
}

func reachesSelf(b *ssa.BasicBlock) bool {
	for _, s := range b.Succs {
		if engine.Reaches(s, b) {
			return true
		}
	}
	return false
}

// handoff: functions that take over responsibility for a future.
var handoffCallees = map[string]string{
	"(*Raft).dispatchLogs":             "parks every future in the in-flight list (C08.R3)",
	"(*Raft).verifyLeader":             "answers or registers the verify future",
	"(*Raft).appendConfigurationEntry": "answers or dispatches",
}

func c17R2(c *Ctx, rule string) {
	for _, name := range []string{"(*Raft).runFollower", "(*Raft).runCandidate", "(*Raft).leaderLoop"} {
		fn := c.P.Fn(name)
		if fn == nil {
			continue
		}
		sel := loopSelect(c, fn)
		if sel == nil {
			continue
		}
		for k, st := range sel.States {
			if st.Dir != types.RecvOnly {
				continue
			}
			chd := c.P.D(st.Chan)
			q := strings.TrimPrefix(chd, "recv.")
			if chd == "recv.configurationChangeChIfStable()" {
				q = "configurationChangeCh"
			}
			isQ := false
			for _, fq := range futureQueues {
				if fq == q {
					isQ = true
				}
			}
			if !isQ || q == "applyCh" {
				continue // applyCh has its own, stricter rule (C08.R1)
			}
			arm := engine.SelectArmEntry(sel, k)
			if arm == nil {
				c.Bad(rule, name+":"+q+"-arm", c.P.InstrPos(sel), "the arm's entry block", "not recognised")
				continue
			}
			fut := "<-" + chd
			r := c.Run(&engine.Automaton{Fn: fn, StartBlock: arm, StopAt: func(in ssa.Instruction) bool { return in == ssa.Instruction(sel) }, Tracks: []engine.Track{
				engine.Event("handled", func(in ssa.Instruction) bool {
					cc := engine.CallCommonOf(in)
					if cc == nil {
						return false
					}
					n := c.P.CalleeName(cc)
					if n == "(*deferError).respond" && strings.HasPrefix(c.P.D(engine.RecvValue(in)), fut) {
						return true
					}
					if _, ok := handoffCallees[n]; ok && c.P.Arg(in, 0) == fut {
						return true
					}
					if _, isGo := in.(*ssa.Go); isGo && n == "(*Raft).leaderLoop$go" {
						return true
					}
					return false
				}),
			}})
			ends := []ssa.Instruction{sel}
			for _, ret := range engine.ReturnsOf(fn) {
				if r.Reached(ret) {
					ends = append(ends, ret)
				}
			}
			for i, e := range ends {
				c.RequireAt(r, rule, fmt.Sprintf("%s:%s-arm#%d", name, q, i+1), e, "the received future was answered, or handed to dispatchLogs/verifyLeader/appendConfigurationEntry/the transfer goroutine, on every path through the arm", func(v engine.View) bool { return v.Seen("handled") })
			}
		}
	}
	// summaries of the hand-off targets
	if fn := c.Fn(rule, "(*Raft).verifyLeader"); fn != nil {
		r := c.Run(&engine.Automaton{Fn: fn, Tracks: []engine.Track{
			engine.Event("answered", func(in ssa.Instruction) bool {
				cc := engine.CallCommonOf(in)
				return cc != nil && c.P.CalleeName(cc) == "(*deferError).respond" && strings.HasPrefix(c.P.D(engine.RecvValue(in)), "p1.")
			}),
			engine.Event("parked", func(in ssa.Instruction) bool {
				mu, ok := in.(*ssa.MapUpdate)
				return ok && c.P.D(mu.Map) == "recv.leaderState.notify" && c.P.D(mu.Key) == "p1"
			}),
			engine.Event("armed", func(in ssa.Instruction) bool {
				st, ok := in.(*ssa.Store)
				return ok && c.P.D(st.Addr) == "p1.notifyCh" && c.P.D(st.Val) == "recv.verifyCh"
			}),
		}})
		for i, ret := range engine.ReturnsOf(fn) {
			c.RequireAt(r, rule, fmt.Sprintf("verifyLeader:answers-or-parks#%d", i+1), ret, "answered directly, or registered in leaderState.notify with notifyCh = verifyCh (so the result comes back to the leader loop, and step-down answers it)", func(v engine.View) bool {
				return v.Seen("answered") || (v.Seen("parked") && v.Seen("armed"))
			})
		}
	}
	if fn := c.Fn(rule, "(*Raft).appendConfigurationEntry"); fn != nil {
		r := c.Run(&engine.Automaton{Fn: fn, Tracks: []engine.Track{
			engine.Event("answered", c.P.IsCallTo(engine.Is("(*deferError).respond"))),
			engine.Event("dispatched", c.P.IsCallTo(engine.Is("(*Raft).dispatchLogs"))),
		}})
		for i, ret := range engine.ReturnsOf(fn) {
			c.RequireAt(r, rule, fmt.Sprintf("appendConfigurationEntry:answers-or-dispatches#%d", i+1), ret, "answered with the error, or dispatched (parked in flight)", func(v engine.View) bool { return v.Seen("answered") != v.Seen("dispatched") })
		}
		// what is dispatched is the request's own log future
		okArg := false
		engine.EachInstr(fn, func(in ssa.Instruction) {
			if st, ok := in.(*ssa.Store); ok && c.P.D(st.Val) == "p1.logFuture" && strings.HasPrefix(c.P.D(st.Addr), "new([1]*logFuture)") {
				okArg = true
			}
		})
		c.Check(rule, "appendConfigurationEntry:dispatches-own-future", c.P.Pos(fn.Pos()), "the dispatched future is the request's embedded logFuture", okArg, pick(okArg, "&future.logFuture", "something else"), 1)
	}
	sTransferWorkerReports(c, rule)
	if fn := c.Fn(rule, "(*Raft).leaderLoop$go"); fn != nil {
		r := c.Run(&engine.Automaton{Fn: fn, Tracks: []engine.Track{
			engine.Event("answered", func(in ssa.Instruction) bool {
				cc := engine.CallCommonOf(in)
				return cc != nil && c.P.CalleeName(cc) == "(*deferError).respond" && strings.HasPrefix(c.P.D(engine.RecvValue(in)), "<-recv.leadershipTransferCh")
			}),
		}})
		for i, ret := range engine.ReturnsOf(fn) {
			c.RequireAt(r, rule, fmt.Sprintf("leaderLoop/transfer-goroutine:answers#%d", i+1), ret, "every exit of the transfer goroutine answered the leadership-transfer future", func(v engine.View) bool { return v.Seen("answered") })
		}
		// it cannot block for ever: every blocking select has a timer or the leftLeaderLoop channel
		engine.EachInstr(fn, func(in ssa.Instruction) {
			if sel, ok := in.(*ssa.Select); ok && sel.Blocking {
				ok2 := false
				for _, st := range sel.States {
					if strings.HasPrefix(c.P.D(st.Chan), "time.After(") {
						ok2 = true
					}
				}
				c.Check(rule, "leaderLoop/transfer-goroutine:select-has-timer", c.P.InstrPos(in), "each wait in the transfer goroutine races an ElectionTimeout timer", ok2, pick(ok2, "timer case present", "no timer"), 1)
			}
			// a bare receive outside a select waits without any bound
			if u, ok := in.(*ssa.UnOp); ok && u.Op == token.ARROW {
				d := c.P.D(u.X)
				c.RequireAt(r, rule, "leaderLoop/transfer-goroutine:no-unbounded-receive", in, "the transfer goroutine waits on a single channel without a timer alternative only after it has answered the future (the future must resolve even if the target never takes over); here: receive from "+d, func(v engine.View) bool {
					return v.Seen("answered") || strings.HasPrefix(d, "time.After(")
				})
			}
		})
	}
	// FSM / snapshot goroutines answer what they receive
	if fn := c.Fn(rule, "(*Raft).runFSM$snapshot"); fn != nil {
		r := c.Run(&engine.Automaton{Fn: fn, Tracks: []engine.Track{engine.Event("answered", c.P.IsCallTo(engine.Is("(*deferError).respond")))}})
		for i, ret := range engine.ReturnsOf(fn) {
			c.RequireAt(r, rule, fmt.Sprintf("runFSM/snapshot:answers#%d", i+1), ret, "every snapshot request is answered", func(v engine.View) bool { return v.Seen("answered") })
		}
	}
	if fn := c.Fn(rule, "(*Raft).runFSM$restore"); fn != nil {
		r := c.Run(&engine.Automaton{Fn: fn, Tracks: []engine.Track{engine.Event("answered", c.P.IsCallTo(engine.Is("(*deferError).respond")))}})
		for i, ret := range engine.ReturnsOf(fn) {
			c.RequireAt(r, rule, fmt.Sprintf("runFSM/restore:answers#%d", i+1), ret, "every restore request is answered", func(v engine.View) bool { return v.Seen("answered") })
		}
	}
	if fn := c.Fn(rule, "(*Raft).runSnapshots"); fn != nil {
		for _, a := range recvArms(c, fn, "recv.userSnapshotCh") {
			arm := engine.SelectArmEntry(a.sel, a.k)
			if arm == nil {
				continue
			}
			sel := a.sel
			r := c.Run(&engine.Automaton{Fn: fn, StartBlock: arm, StopAt: func(in ssa.Instruction) bool { return in == ssa.Instruction(sel) }, Tracks: []engine.Track{
				engine.Event("answered", func(in ssa.Instruction) bool {
					cc := engine.CallCommonOf(in)
					return cc != nil && c.P.CalleeName(cc) == "(*deferError).respond" && strings.HasPrefix(c.P.D(engine.RecvValue(in)), "<-recv.userSnapshotCh")
				}),
			}})
			c.RequireAt(r, rule, "runSnapshots:user-snapshot-answered", sel, "a user snapshot request is answered on every path", func(v engine.View) bool { return v.Seen("answered") })
		}
	}
	// processLogs' applyBatch answers on the shutdown arm
	if fn := c.Fn(rule, "(*Raft).processLogs$applyBatch"); fn != nil {
		for _, a := range recvArms(c, fn, "recv.shutdownCh") {
			arm := engine.SelectArmEntry(a.sel, a.k)
			ok := false
			if arm != nil {
				rr := c.Run(&engine.Automaton{Fn: fn, StartBlock: arm, Tracks: []engine.Track{engine.Event("answered", func(in ssa.Instruction) bool {
					cc := engine.CallCommonOf(in)
					return cc != nil && c.P.CalleeName(cc) == "(*deferError).respond" && c.P.Arg(in, 0) == "@ErrRaftShutdown"
				})}})
				for _, ret := range engine.ReturnsOf(fn) {
					for _, v := range rr.StatesAt(ret) {
						if v.Seen("answered") {
							ok = true
						}
					}
				}
			}
			c.Check(rule, "processLogs/applyBatch:shutdown-arm-answers", c.P.InstrPos(a.sel), "a batch that cannot be queued because of shutdown has its futures answered ErrRaftShutdown", ok, pick(ok, "answers in the shutdown arm", "does not answer"), 1)
		}
	}
}

// futureTypeOf returns the name of the future struct a value points to (a
// struct that embeds deferError directly or through logFuture), or "".
func futureTypeOf(c *Ctx, t types.Type) string {
	if pt, ok := t.Underlying().(*types.Pointer); ok {
		t = pt.Elem()
	}
	n, ok := t.(*types.Named)
	if !ok {
		return ""
	}
	var has func(t types.Type, depth int) bool
	has = func(t types.Type, depth int) bool {
		if depth > 3 {
			return false
		}
		st, ok := t.Underlying().(*types.Struct)
		if !ok {
			return false
		}
		for i := 0; i < st.NumFields(); i++ {
			f := st.Field(i)
			if f.Embedded() {
				if nn, ok := f.Type().(*types.Named); ok && nn.Obj().Name() == "deferError" {
					return true
				}
				if has(f.Type(), depth+1) {
					return true
				}
			}
		}
		return false
	}
	if has(n, 0) {
		return n.Obj().Name()
	}
	return ""
}

type futSend struct {
	fn     *ssa.Function
	op     engine.ChanOp
	field  *types.Var
	ftype  string
	escape bool
}

func futureSends(c *Ctx) []futSend {
	var out []futSend
	for _, fn := range c.P.AllFuncs() {
		for _, op := range c.P.ChanOps(fn) {
			if !op.IsSend {
				continue
			}
			f := engine.ChanField(op.Chan)
			if f == nil || c.P.LookupField("Raft", engine.FieldName(f)) != f {
				continue // only queues of the Raft struct
			}
			v := op.Send
			if mi, ok := v.(*ssa.MakeInterface); ok {
				v = mi.X
			}
			ft := futureTypeOf(c, v.Type())
			if ft == "" {
				if strings.Contains(c.P.TypeStr(v.Type()), "commitTuple") {
					ft = "[]*commitTuple"
				} else {
					continue
				}
			}
			esc := op.HasDefault
			for _, o := range op.Others {
				if c.P.D(o) == "recv.shutdownCh" {
					esc = true
				}
			}
			out = append(out, futSend{fn, op, f, ft, esc})
		}
	}
	sort.SliceStable(out, func(i, j int) bool {
		a, b := c.P.Name(out[i].fn), c.P.Name(out[j].fn)
		if a != b {
			return a < b
		}
		return out[i].op.Instr.Pos() < out[j].op.Instr.Pos()
	})
	return out
}

func c17R3(c *Ctx, rule string) {
	sends := futureSends(c)
	var sites []engine.Site
	for _, s := range sends {
		sites = append(sites, engine.Site{Fn: s.fn, Instr: s.op.Instr})
	}
	c.WhoMay(rule, "enqueue a future on a Raft queue", sites, map[string]string{
		"(*Raft).ApplyLog":                   "applyCh",
		"(*Raft).Barrier":                    "applyCh",
		"(*Raft).VerifyLeader":               "verifyCh",
		"(*Raft).requestConfigChange":        "configurationChangeCh",
		"(*Raft).BootstrapCluster":           "bootstrapCh",
		"(*Raft).Snapshot":                   "userSnapshotCh",
		"(*Raft).Restore":                    "userRestoreCh, then applyCh",
		"(*Raft).initiateLeadershipTransfer": "leadershipTransferCh",
		"(*Raft).takeSnapshot":               "fsmSnapshotCh, configurationsCh",
		"(*Raft).installSnapshot":            "fsmMutateCh (restore)",
		"(*Raft).restoreUserSnapshot":        "fsmMutateCh (restore)",
		"(*Raft).processLogs$applyBatch":     "fsmMutateCh (committed batch)",
	})
	for _, s := range sends {
		name := c.P.Name(s.fn)
		if name == "(*verifyFuture).vote" {
			continue // internal notification, not an API enqueue; see C09.R5
		}
		c.Check(rule, fmt.Sprintf("%s:send %s on %s", name, s.ftype, engine.FieldName(s.field)), c.P.InstrPos(s.op.Instr),
			"the enqueue is a select case next to <-shutdownCh (or default): a caller can never block on a queue nobody serves any more", s.op.Select != nil && s.escape,
			pick(s.op.Select != nil && s.escape, "escape present", "plain or unescaped send"), 1)
	}
	if len(sends) < 14 {
		c.Bad(rule, "future-enqueues:count", "-", "at least 14 enqueue sites as confirmed on the pinned tree", fmt.Sprintf("%d found", len(sends)))
	}
}

// c17R4: a future that can sit in a buffered queue (or inside a queued
// batch) when the loops exit needs a ShutdownCh, otherwise Error() blocks for
// ever once nobody receives.
func c17R4(c *Ctx, rule string) {
	buffered := map[*types.Var]string{}
	if nr := c.Fn(rule, "NewRaft"); nr != nil {
		for _, q := range append([]string{"fsmMutateCh", "fsmSnapshotCh", "userSnapshotCh"}, futureQueues...) {
			f := c.P.LookupField("Raft", q)
			if f == nil {
				continue
			}
			for _, w := range c.P.FieldWritesIn(nr, f) {
				v, _ := c.P.StoredValue(w.Instr, f)
				d := c.P.D(v)
				if !strings.HasSuffix(d, ", 0)") {
					buffered[f] = d
				}
			}
		}
	}
	c.Check(rule, "NewRaft:buffered-queues", "-", "the set of possibly buffered future queues was determined from NewRaft", len(buffered) >= 4, fmt.Sprintf("%d buffered queues", len(buffered)), len(buffered))
	shut := c.P.LookupField("deferError", "ShutdownCh")
	n := 0
	for _, s := range futureSends(c) {
		capD, isBuf := buffered[s.field]
		if !isBuf {
			continue
		}
		name := c.P.Name(s.fn)
		if name == "(*verifyFuture).vote" {
			continue
		}
		n++
		key := fmt.Sprintf("%s:%s on buffered %s", name, s.ftype, engine.FieldName(s.field))
		require := "a future queued on a buffered channel (" + capD + ") has deferError.ShutdownCh assigned before the send, so Error() returns ErrRaftShutdown when the loops have exited and the select picked the (always ready) send"
		if s.ftype == "[]*commitTuple" {
			// futures inside a queued batch: do log futures ever get a ShutdownCh?
			any := false
			if shut != nil {
				for _, w := range c.P.FieldWrites(shut) {
					if strings.Contains(c.P.D(w.Instr.(*ssa.Store).Addr), "logFuture") {
						any = true
					}
				}
			}
			c.Check(rule, key, c.P.InstrPos(s.op.Instr), require, any, pick(any, "log futures carry a ShutdownCh", "log futures inside a batch that is still queued when runFSM exits have no ShutdownCh: their Error() never returns"), 1)
			continue
		}
		sent := c.P.D(s.op.Send)
		r := c.Run(&engine.Automaton{Fn: s.fn, Tracks: []engine.Track{engine.Event("escape", func(in ssa.Instruction) bool {
			if shut == nil {
				return false
			}
			v, ok := c.P.StoredValue(in, shut)
			return ok && c.P.D(v) == "recv.shutdownCh" && strings.HasPrefix(c.P.D(in.(*ssa.Store).Addr), sent+".")
		})}})
		ok, _, _ := r.Require(s.op.Instr, func(v engine.View) bool { return v.Seen("escape") })
		c.Check(rule, key, c.P.InstrPos(s.op.Instr), require, ok, pick(ok, "ShutdownCh assigned before the send", sent+" is queued without a ShutdownCh: after Shutdown() the select may still pick the send and the future never resolves"), 1)
	}
	if n < 8 {
		c.Bad(rule, "buffered-enqueues:count", "-", "at least 8 enqueue sites on buffered queues", fmt.Sprintf("%d", n))
	}
}

func c17R5(c *Ctx, rule string) {
	if fn := c.Fn(rule, "(*deferError).respond"); fn != nil {
		r := c.Run(&engine.Automaton{Fn: fn, Tracks: []engine.Track{
			engine.PredRel("noCh", "recv.errCh", "nil", engine.EQ),
			engine.PredBool("done", DescIs("recv.responded")),
			engine.Event("sent", func(in ssa.Instruction) bool { _, ok := in.(*ssa.Send); return ok }),
			engine.Event("marked", func(in ssa.Instruction) bool {
				st, ok := in.(*ssa.Store)
				return ok && c.P.D(st.Addr) == "recv.responded" && c.P.D(st.Val) == "true"
			}),
		}})
		n := 0
		engine.EachInstr(fn, func(in ssa.Instruction) {
			if s, ok := in.(*ssa.Send); ok {
				n++
				c.RequireAt(r, rule, "deferError.respond:send-once", in, "the result is sent only when the channel exists and nothing was sent before (idempotent; the channel has capacity 1 so the send cannot block)", func(v engine.View) bool {
					return v.F("noCh") && v.F("done") && c.P.D(s.Chan) == "recv.errCh" && c.P.D(s.X) == "p1"
				})
			}
		})
		for i, ret := range engine.ReturnsOf(fn) {
			c.RequireAt(r, rule, fmt.Sprintf("deferError.respond:return#%d", i+1), ret, "a send is always followed by responded = true", func(v engine.View) bool { return !v.Seen("sent") || v.Seen("marked") })
		}
		if n != 1 {
			c.Bad(rule, "deferError.respond:send", c.P.Pos(fn.Pos()), "exactly one send", fmt.Sprintf("%d", n))
		}
	}
	if fn := c.Fn(rule, "(*deferError).init"); fn != nil {
		ok := false
		engine.EachInstr(fn, func(in ssa.Instruction) {
			if st, isSt := in.(*ssa.Store); isSt && c.P.D(st.Addr) == "recv.errCh" && c.P.D(st.Val) == "make(chan error, 1)" {
				ok = true
			}
		})
		c.Check(rule, "deferError.init:capacity-1", c.P.Pos(fn.Pos()), "errCh has capacity 1 (respond never blocks)", ok, pick(ok, "make(chan error, 1)", "different"), 1)
	}
	if fn := c.Fn(rule, "(*deferError).Error"); fn != nil {
		found := false
		engine.EachInstr(fn, func(in ssa.Instruction) {
			if sel, ok := in.(*ssa.Select); ok {
				hasErr, hasShut := false, false
				for _, st := range sel.States {
					switch c.P.D(st.Chan) {
					case "recv.errCh":
						hasErr = true
					case "recv.ShutdownCh":
						hasShut = true
					}
				}
				found = true
				c.Check(rule, "deferError.Error:waits-on-result-or-shutdown", c.P.InstrPos(in), "Error() waits on errCh and on ShutdownCh", hasErr && hasShut && sel.Blocking, fmt.Sprintf("errCh=%v ShutdownCh=%v", hasErr, hasShut), 1)
			}
		})
		if !found {
			c.Bad(rule, "deferError.Error:select", c.P.Pos(fn.Pos()), "a select on errCh/ShutdownCh", "none")
		}
		// the shutdown arm yields ErrRaftShutdown
		ok := false
		engine.EachInstr(fn, func(in ssa.Instruction) {
			if st, isSt := in.(*ssa.Store); isSt && c.P.D(st.Addr) == "recv.err" && c.P.D(st.Val) == "@ErrRaftShutdown" {
				ok = true
			}
		})
		c.Check(rule, "deferError.Error:shutdown-error", c.P.Pos(fn.Pos()), "the shutdown arm reports ErrRaftShutdown", ok, pick(ok, "ErrRaftShutdown", "different"), 1)
	}
	// shutdownCh: closed exactly once, under the lock
	if fn := c.Fn(rule, "(*Raft).Shutdown"); fn != nil {
		r := c.Run(&engine.Automaton{Fn: fn, Tracks: []engine.Track{
			engine.PredBool("already", DescIs("recv.shutdown")),
			engine.Event("locked", c.P.IsCallTo(engine.Is("(*sync.Mutex).Lock"))),
		}})
		n := 0
		for _, s := range c.P.CallsIn(fn, engine.Is("builtin:close")) {
			n++
			c.RequireAt(r, rule, "Shutdown:close-once", s.Instr, "shutdownCh is closed only when not already shut down, under shutdownLock", func(v engine.View) bool {
				return v.F("already") && v.Seen("locked") && c.P.Arg(s.Instr, 0) == "recv.shutdownCh"
			})
		}
		c.Check(rule, "Shutdown:closes-shutdownCh", c.P.Pos(fn.Pos()), "Shutdown closes shutdownCh", n == 1, fmt.Sprintf("%d close calls", n), 1)
	}
	var closers []engine.Site
	for _, s := range c.P.CallsEverywhere(engine.Is("builtin:close")) {
		if c.P.Arg(s.Instr, 0) == "recv.shutdownCh" && strings.HasPrefix(c.P.Name(s.Fn), "(*Raft).") {
			closers = append(closers, s)
		}
	}
	c.WhoMay(rule, "close(r.shutdownCh)", closers, map[string]string{"(*Raft).Shutdown": "the only closer"})
}

// c17R6: a user Restore answers EVERY in-flight future before it goes on: the
// cancel loop takes the front element, answers it with ErrAbortedByRestore and
// removes it, and is left only when Front() is nil. (An element that stays in
// the list is later dropped by the commit arm without an answer.)
func c17R6(c *Ctx, rule string) {
	// an errorFuture (the answer of every refused enqueue) reports its error
	if ef := c.Fn(rule, "(errorFuture).Error"); ef != nil {
		ok := false
		for _, ret := range engine.RawReturnsOf(ef) {
			ok = c.P.D(engine.ReturnValues(ret)[0]) == "recv.err"
		}
		c.Check(rule, "errorFuture.Error:returns-its-error", c.P.Pos(ef.Pos()), "a refused call's future resolves at once with the refusal's error", ok, pick(ok, "returns recv.err", "returns something else"), 1)
	}
	fn := c.Fn(rule, "(*Raft).restoreUserSnapshot")
	if fn == nil {
		return
	}
	front := "recv.leaderState.inflight.Front()"
	var loopIf *ssa.If
	engine.EachInstr(fn, func(in ssa.Instruction) {
		if ifi, ok := in.(*ssa.If); ok {
			if s, ok := c.P.CondOf(ifi.Cond).RelOn(front, "nil"); ok && (s == engine.EQ || s == engine.LT|engine.GT) {
				loopIf = ifi
			}
		}
	})
	if loopIf == nil {
		c.Bad(rule, "restoreUserSnapshot:cancel-loop", c.P.Pos(fn.Pos()), "a loop that re-reads inflight.Front() and stops when it is nil", "not found")
		return
	}
	cd := c.P.CondOf(loopIf.Cond)
	bodyIdx := 1
	if s, _ := cd.RelOn(front, "nil"); s != engine.EQ {
		bodyIdx = 0
	}
	body := loopIf.Block().Succs[bodyIdx]
	rb := c.Run(&engine.Automaton{Fn: fn, StartBlock: body, StopAt: func(in ssa.Instruction) bool { return in == ssa.Instruction(loopIf) }, Tracks: []engine.Track{
		engine.Event("answered", func(in ssa.Instruction) bool {
			cc := engine.CallCommonOf(in)
			return cc != nil && c.P.CalleeName(cc) == "(*deferError).respond" && strings.HasPrefix(c.P.D(engine.RecvValue(in)), front+".Value.(*logFuture)")
		}),
		engine.Event("removed", func(in ssa.Instruction) bool {
			cc := engine.CallCommonOf(in)
			return cc != nil && c.P.CalleeName(cc) == "(*container/list.List).Remove" && c.P.Arg(in, 0) == front
		}),
	}})
	loops := engine.Reaches(body, loopIf.Block())
	c.RequireAt(rb, rule, "restoreUserSnapshot:cancel-loop-answers-every-inflight", loopIf, "each iteration answers the front in-flight future and removes exactly that element, then re-reads Front(); the loop ends only on an empty list", func(v engine.View) bool {
		return loops && v.Seen("answered") && v.Seen("removed")
	})
}

// c17R7: vote() may block on a send into verifyCh (a buffered queue shared
// with API submissions, drained by the main loop). The main loop itself takes
// followerReplication.notifyLock (verifyLeader, cleanNotify). So vote must
// never be called with that lock held: the replication routine would park in
// the send holding the lock, the main loop would park on the lock, and no
// future would resolve any more.
func c17R7(c *Ctx, rule string) {
	isLockOp := func(name string) func(ssa.Instruction) bool {
		return func(in ssa.Instruction) bool {
			if _, isDefer := in.(*ssa.Defer); isDefer {
				return false
			}
			cc := engine.CallCommonOf(in)
			return cc != nil && c.P.CalleeName(cc) == name && strings.HasSuffix(c.P.D(engine.RecvValue(in)), ".notifyLock")
		}
	}
	n := 0
	for _, fn := range c.P.AllFuncs() {
		sites := c.P.CallsIn(fn, engine.Is("(*verifyFuture).vote"))
		if len(sites) == 0 {
			continue
		}
		r := c.Run(&engine.Automaton{Fn: fn, Tracks: []engine.Track{
			engine.Event("locked", isLockOp("(*sync.Mutex).Lock"), "unlocked"),
			engine.Event("unlocked", isLockOp("(*sync.Mutex).Unlock")),
		}})
		for _, s := range sites {
			n++
			c.RequireAt(r, rule, c.P.Name(fn)+":vote-without-notifyLock", s.Instr, "vote (which may block sending to verifyCh) is called only with followerReplication.notifyLock released", func(v engine.View) bool {
				return !v.Seen("locked") || v.Seen("unlocked")
			})
		}
	}
	if n == 0 {
		c.Bad(rule, "vote:callers", "-", "callers of (*verifyFuture).vote", "none")
	}
	// the waiting set changes hands in ONE critical section: read and replaced by
	// a fresh map under the same Lock. A second section that clears the set
	// later wipes registrations that arrived in between – those verify futures
	// never get this follower's vote and never resolve.
	if na := c.Fn(rule, "(*followerReplication).notifyAll"); na != nil {
		nf := c.P.LookupField("followerReplication", "notify")
		locks := 0
		engine.EachInstr(na, func(in ssa.Instruction) {
			if isLockOp("(*sync.Mutex).Lock")(in) {
				locks++
			}
		})
		r := c.Run(&engine.Automaton{Fn: na, Tracks: []engine.Track{
			engine.Event("locked", isLockOp("(*sync.Mutex).Lock"), "unlocked"),
			engine.Event("unlocked", isLockOp("(*sync.Mutex).Unlock")),
			engine.Event("replaced", func(in ssa.Instruction) bool {
				if nf == nil {
					return false
				}
				v, ok := c.P.StoredValue(in, nf)
				return ok && strings.HasPrefix(c.P.D(v), "make(map[*verifyFuture]struct{}")
			}),
		}})
		for _, s := range c.P.CallsIn(na, engine.Is("(*verifyFuture).vote")) {
			c.RequireAt(r, rule, "notifyAll:waiting-set-changes-hands-in-one-critical-section", s.Instr, "before any vote is cast the waiting set was read and replaced by a fresh map under a single Lock/Unlock pair; notifyAll never re-locks to clear the set afterwards", func(v engine.View) bool {
				return locks == 1 && v.Seen("replaced") && v.Seen("unlocked")
			})
		}
	}
	// the blocking send in vote goes to the future's notifyCh, which is verifyCh
	if vf := c.Fn(rule, "(*verifyFuture).vote"); vf != nil {
		sends := 0
		engine.EachInstr(vf, func(in ssa.Instruction) {
			if s, ok := in.(*ssa.Send); ok && c.P.D(s.Chan) == "recv.notifyCh" {
				sends++
			}
		})
		c.Check(rule, "vote:reports-on-notifyCh", c.P.Pos(vf.Pos()), "vote hands a decided future back on its notifyCh", sends >= 1, fmt.Sprintf("%d sends", sends), 1)
	}
}

// sTransferWorkerReports: the leadership-transfer worker sends its outcome on
// doneCh at every exit; the bookkeeping goroutine waits for it before it
// clears leadershipTransferInProgress, and until then the leader refuses every
// write.
func sTransferWorkerReports(c *Ctx, rule string) {
	if lt := c.Fn(rule, "(*Raft).leadershipTransfer"); lt != nil {
		r := c.Run(&engine.Automaton{Fn: lt, Tracks: []engine.Track{
			engine.Event("reported", func(in ssa.Instruction) bool {
				s, ok := in.(*ssa.Send)
				return ok && c.P.D(s.Chan) == "p5"
			}),
		}})
		for i, ret := range engine.ReturnsOf(lt) {
			c.RequireAt(r, rule, fmt.Sprintf("leadershipTransfer:always-reports-on-doneCh#%d", i+1), ret, "every exit of the transfer worker sends its outcome on doneCh (the bookkeeping goroutine waits for it before it clears leadershipTransferInProgress)", func(v engine.View) bool { return v.Seen("reported") })
		}
	}
}
