package rules

import (
	"fmt"
	"strings"

	"golang.org/x/tools/go/ssa"

	"verif/lint/engine"
)

func init() {
	register(&Property{
		ID:          "C06",
		Explanation: "Decided for all CFG paths (= all crash points and injected store errors between individual store calls): every path that sets RequestVoteResponse.Granted=true passed the stale-term test, the known-leader test, the voter-membership test, successful reads of both persisted vote keys and then either the duplicate arm (same term, same candidate bytes) or the fresh arm (up-to-date ladder over all 9 orderings, successful persistVote of the very bytes compared); the persisted vote record is written so that its discriminating key (term) is written last; every setCurrentTerm call site is one of the 8 enumerated, each with a guard/argument that makes the term non-decreasing; the term is persisted before the in-memory update (else panic); NewRaft reloads the term before any goroutine starts; the pre-vote handler has no effect on term/vote.",
		NotDecided:  "atomicity of a single Set/SetUint64 inside a third-party StableStore; that two runs agree.",
		Assumptions: []string{"a StableStore Set/SetUint64 that returns nil is durable; one that returns an error may or may not have been applied"},
		RuleText:    "C06.R1 guard formula at each grant store; R2 3x3 ordering evaluation of the ladder; R3 write order of the vote record; R4 frozen table of 8 setCurrentTerm call sites with guard+argument; R5 persist-before-memory; R6 start-up reload order; R7 effect freedom of requestPreVote.",
		Run:         c06,
	})
}

func c06(c *Ctx) {
	c06R1(c, "R1")
	sUpToDate(c, "R2", "(*Raft).requestVote", "RequestVoteRequest", "RequestVoteResponse", true, false)
	sUpToDate(c, "R2", "(*Raft).requestPreVote", "RequestPreVoteRequest", "RequestPreVoteResponse", true, false)
	c06R3(c, "R3")
	c06R4(c, "R4")
	c06R5(c, "R5")
	c06R6(c, "R6")
	sVoteIdentity(c, "R9/S-VOTEID")
	sDurableElect(c, "R10/S-DURABLE")
	sState(c, "R8/S-STATE")
	effectFree(c, "R7", "(*Raft).requestPreVote", "change term, vote, role, leader, contact or any store", 4, stateChanging)
	sStoreWriters(c, "R12/S-WRITERS")
	// the up-to-date ladder compares against the cached last entry: the cache
	// names the last entry that is durably in the log, also after a failed
	// append that followed a truncation (round-7 seed C06-N)
	c04R2(c, "R13/C04.R2")
}

// voteGuardTracks builds the tracks shared by requestVote / requestPreVote.
func voteGuardTracks(c *Ctx, fn *ssa.Function, req string) []engine.Track {
	cur := "recv.raftState.getCurrentTerm()"
	leader := "recv.LeaderWithID()#0"
	return []engine.Track{
		engine.PredRel("stale", req+".Term", cur, engine.LT),
		engine.PredRel("ldrKnown", leader, `""`, engine.LT|engine.GT),
		engine.PredCond("ldrOther", func(cd engine.Cond) (bool, int) {
			if !cd.IsRel {
				return false, 0
			}
			other := ""
			if cd.X == leader {
				other = cd.Y
			} else if cd.Y == leader {
				other = cd.X
			} else {
				return false, 0
			}
			if !strings.Contains(other, "recv.trans.DecodePeer(") {
				return false, 0
			}
			s := cd.EdgeOrd(true)
			if isNE(s) {
				return true, engine.True
			}
			if s == engine.EQ {
				return true, engine.False
			}
			return false, 0
		}),
		engine.PredBool("transfer", DescIs(req+".LeadershipTransfer")),
		engine.PredRel("hasID", "len("+req+".RPCHeader.ID)", "0", engine.GT),
		engine.PredRel("cfgNonEmpty", "len(recv.configurations.latest.Servers)", "0", engine.GT),
		engine.PredBool("hasVote", func(d string) bool {
			return strings.HasPrefix(d, "hasVote(recv.configurations.latest, "+req+".RPCHeader.ID")
		}),
	}
}

func leaderOK(v engine.View, transferException bool) bool {
	if v.F("ldrKnown") || v.F("ldrOther") {
		return true
	}
	return transferException && v.T("transfer")
}

func c06R1(c *Ctx, rule string) {
	fn := c.Fn(rule, "(*Raft).requestVote")
	granted := c.Field(rule, "RequestVoteResponse", "Granted")
	if fn == nil || granted == nil {
		return
	}
	req := c.ParamOfType(fn, "*RequestVoteRequest")
	if req == "" {
		c.Bad(rule, "requestVote:param", "-", "a *RequestVoteRequest parameter", "none")
		return
	}
	lvt := "recv.stable.GetUint64(@keyLastVoteTerm)"
	lvc := "recv.stable.Get(@keyLastVoteCand)"
	tracks := voteGuardTracks(c, fn, req)
	tracks = append(tracks,
		engine.PredRel("e1", lvt+"#1", "nil", engine.LT|engine.GT),
		engine.PredRel("e1nf", lvt+"#1.Error()", `"not found"`, engine.LT|engine.GT),
		engine.PredRel("e2", lvc+"#1", "nil", engine.LT|engine.GT),
		engine.PredRel("e2nf", lvc+"#1.Error()", `"not found"`, engine.LT|engine.GT),
		engine.Event("readTerm", c.P.IsCallTo(func(n string) bool { return n == "iface:StableStore.GetUint64" })),
		engine.Event("readCand", c.P.IsCallTo(func(n string) bool { return n == "iface:StableStore.Get" })),
		engine.PredRel("dupTerm", lvt+"#0", req+".Term", engine.EQ),
		engine.PredRel("candSet", lvc+"#0", "nil", engine.LT|engine.GT),
		engine.PredBool("bytesEq", DescHasPrefix("bytes.Equal("+lvc+"#0, ")),
		engine.Event("persist", c.P.IsCallTo(engine.Is("(*Raft).persistVote"))),
		engine.PredCond("persistErr", func(cd engine.Cond) (bool, int) {
			if cd.IsRel && strings.HasPrefix(cd.X, "recv.persistVote(") && cd.Y == "nil" {
				if isNEc(cd) {
					return true, engine.True
				}
				if cd.EdgeOrd(true) == engine.EQ {
					return true, engine.False
				}
			}
			return false, 0
		}),
	)
	r := c.Run(&engine.Automaton{Fn: fn, Tracks: tracks})
	grants := c.StoresOfConst(fn, granted, true)
	if len(grants) < 2 {
		c.Bad(rule, "requestVote:grant-sites", c.P.Pos(fn.Pos()), "two grant stores (duplicate arm, fresh arm) as confirmed on the pinned tree", fmt.Sprintf("%d found", len(grants)))
	}
	// any other write of Granted anywhere?
	c.WhoMay(rule, "store RequestVoteResponse.Granted=true", func() []engine.Site {
		var out []engine.Site
		for _, f := range c.P.AllFuncs() {
			out = append(out, c.StoresOfConst(f, granted, true)...)
		}
		return out
	}(), map[string]string{
		"(*Raft).requestVote": "the vote handler",
		"(*Raft).electSelf":   "self vote, after persistVote (R5/S-DURABLE)",
	})
	for i, g := range grants {
		key := fmt.Sprintf("requestVote:grant#%d", i+1)
		c.RequireAt(r, rule, key+":not-stale", g.Instr, "¬(req.Term < currentTerm) at last evaluation", func(v engine.View) bool { return v.F("stale") })
		c.RequireAt(r, rule, key+":no-known-other-leader", g.Instr, "leader unknown ∨ leader == candidate ∨ req.LeadershipTransfer", func(v engine.View) bool { return leaderOK(v, true) })
		c.RequireAt(r, rule, key+":voter-member", g.Instr, "len(req.ID)==0 ∨ configuration empty ∨ hasVote(latest, candidateID)", func(v engine.View) bool {
			return v.T("hasVote") || v.F("cfgNonEmpty") || v.F("hasID")
		})
		c.RequireAt(r, rule, key+":vote-record-read", g.Instr, "both persisted vote keys were read and any error other than not-found returned", func(v engine.View) bool {
			return v.Seen("readTerm") && v.Seen("readCand") && (v.F("e1") || v.F("e1nf")) && (v.F("e2") || v.F("e2nf"))
		})
		c.RequireAt(r, rule, key+":dup-or-fresh", g.Instr,
			"duplicate arm (persisted term == req.Term ∧ persisted candidate ≠ nil ∧ bytes.Equal(persisted, candidateBytes)) or fresh arm (¬(same term ∧ candidate set) ∧ persistVote succeeded)",
			func(v engine.View) bool {
				dup := v.T("dupTerm") && v.T("candSet") && v.T("bytesEq")
				fresh := (v.F("dupTerm") || v.F("candSet")) && v.Seen("persist") && v.F("persistErr")
				return dup || fresh
			})
	}
	// data: persistVote(req.Term, X) where X is what bytes.Equal compared with
	var eqArg string
	engine.EachInstr(fn, func(in ssa.Instruction) {
		if cc := engine.CallCommonOf(in); cc != nil && c.P.CalleeName(cc) == "bytes.Equal" && len(cc.Args) == 2 {
			if c.P.D(cc.Args[0]) == lvc+"#0" {
				eqArg = c.P.D(cc.Args[1])
			}
		}
	})
	for _, s := range c.P.CallsIn(fn, engine.Is("(*Raft).persistVote")) {
		a0, a1 := c.P.Arg(s.Instr, 0), c.P.Arg(s.Instr, 1)
		ok := a0 == req+".Term" && a1 == eqArg && eqArg != ""
		c.Check(rule, "requestVote:persist-args", c.P.InstrPos(s.Instr), "persistVote(req.Term, candidateBytes) with candidateBytes the very value bytes.Equal compares the persisted candidate with",
			ok, fmt.Sprintf("persistVote(%s, %s); bytes.Equal second operand %s", a0, a1, eqArg), 1)
	}
}

// c06R3: the vote record's discriminating key (the term, which requestVote
// compares with req.Term) must be the last write of the record.
func c06R3(c *Ctx, rule string) {
	isTermW := func(in ssa.Instruction) bool {
		cc := engine.CallCommonOf(in)
		return cc != nil && strings.HasPrefix(c.P.CalleeName(cc), "iface:StableStore.Set") && len(cc.Args) > 0 && c.P.D(cc.Args[0]) == "@keyLastVoteTerm"
	}
	isCandW := func(in ssa.Instruction) bool {
		cc := engine.CallCommonOf(in)
		return cc != nil && strings.HasPrefix(c.P.CalleeName(cc), "iface:StableStore.Set") && len(cc.Args) > 0 && c.P.D(cc.Args[0]) == "@keyLastVoteCand"
	}
	writers := 0
	for _, fn := range c.P.AllFuncs() {
		var tw, cw []ssa.Instruction
		engine.EachInstr(fn, func(in ssa.Instruction) {
			if isTermW(in) {
				tw = append(tw, in)
			}
			if isCandW(in) {
				cw = append(cw, in)
			}
		})
		if len(tw)+len(cw) == 0 {
			continue
		}
		writers++
		name := c.P.Name(fn)
		candErr := engine.PredCond("candErr", func(cd engine.Cond) (bool, int) {
			if cd.IsRel && strings.Contains(cd.X, ".Set(@keyLastVoteCand") && cd.Y == "nil" {
				if isNEc(cd) {
					return true, engine.True
				}
				if cd.EdgeOrd(true) == engine.EQ {
					return true, engine.False
				}
			}
			return false, 0
		})
		r := c.Run(&engine.Automaton{Fn: fn, Tracks: []engine.Track{
			engine.Event("candW", isCandW), engine.Event("termW", isTermW), candErr,
		}})
		for _, in := range tw {
			c.RequireAt(r, rule, name+":term-key-written-last", in,
				"the write of keyLastVoteTerm (the key requestVote compares with req.Term) happens only after keyLastVoteCand was written successfully, so any crash/error prefix leaves a record of an older term",
				func(v engine.View) bool { return v.Seen("candW") && v.F("candErr") })
		}
		for _, in := range cw {
			c.RequireAt(r, rule, name+":no-candidate-write-after-term", in, "no write of keyLastVoteCand after keyLastVoteTerm on any path",
				func(v engine.View) bool { return !v.Seen("termW") })
		}
		if len(tw) == 0 || len(cw) == 0 {
			c.Bad(rule, name+":writes-both-keys", c.P.Pos(fn.Pos()), "a function that writes one key of the vote record writes both", fmt.Sprintf("term writes %d, candidate writes %d", len(tw), len(cw)))
		}
	}
	if writers == 0 {
		c.Bad(rule, "vote-record-writer", "-", "at least one function writes the vote record (keyLastVoteTerm/keyLastVoteCand)", "none found")
	}
}

func errNotNil(prefix string) func(cd engine.Cond) (bool, int) {
	return func(cd engine.Cond) (bool, int) {
		if cd.IsRel && strings.HasPrefix(cd.X, prefix) && cd.Y == "nil" {
			if isNEc(cd) {
				return true, engine.True
			}
			if cd.EdgeOrd(true) == engine.EQ {
				return true, engine.False
			}
		}
		return false, 0
	}
}

func c06R4(c *Ctx, rule string) {
	sites := c.P.CallsEverywhere(engine.Is("(*Raft).setCurrentTerm"))
	c.WhoMay(rule, "call (*Raft).setCurrentTerm", sites, map[string]string{
		"(*Raft).appendEntries":   "a.Term under ¬(a.Term < current)",
		"(*Raft).requestVote":     "req.Term under req.Term > current",
		"(*Raft).installSnapshot": "req.Term under req.Term > current",
		"(*Raft).runCandidate":    "a response term under > current (vote) / > current+1 (pre-vote)",
		"(*Raft).electSelf":       "current+1",
		"NewRaft":                 "value read from keyCurrentTerm before any goroutine starts",
		"(*Raft).liveBootstrap":   "constant 1 after BootstrapCluster succeeded (requires no existing state)",
	})
	cur := "recv.raftState.getCurrentTerm()"
	for _, s := range sites {
		name := c.P.Name(s.Fn)
		arg := c.P.Arg(s.Instr, 0)
		key := name + ":setCurrentTerm(" + arg + ")"
		switch name {
		case "(*Raft).appendEntries", "(*Raft).requestVote", "(*Raft).installSnapshot":
			reqT := ""
			for _, pr := range s.Fn.Params {
				ts := c.P.TypeStr(pr.Type())
				if strings.HasSuffix(ts, "Request") {
					reqT = c.P.D(pr) + ".Term"
				}
			}
			r := c.Run(&engine.Automaton{Fn: s.Fn, Tracks: []engine.Track{
				engine.PredRel("stale", reqT, cur, engine.LT),
				engine.PredRel("newer", reqT, cur, engine.GT),
			}})
			if arg != reqT {
				c.Bad(rule, key, c.P.InstrPos(s.Instr), "argument is the request's Term", "argument is "+arg)
				continue
			}
			if name == "(*Raft).appendEntries" {
				c.RequireAt(r, rule, key, s.Instr, "¬(a.Term < currentTerm) dominates (term never decreases)", func(v engine.View) bool { return v.F("stale") })
			} else {
				c.RequireAt(r, rule, key, s.Instr, "req.Term > currentTerm dominates (term never decreases)", func(v engine.View) bool { return v.T("newer") || v.F("stale") })
			}
		case "(*Raft).runCandidate":
			// arg is X.Term of a received result; the guard compares the same
			// descriptor with getCurrentTerm() or getCurrentTerm()+1
			r := c.Run(&engine.Automaton{Fn: s.Fn, Tracks: []engine.Track{
				engine.PredCond("newer", func(cd engine.Cond) (bool, int) {
					for _, rhs := range []string{cur, "(" + cur + " + 1)"} {
						if set, ok := cd.RelOn(arg, rhs); ok {
							if set == engine.GT {
								return true, engine.True
							}
							if set == engine.LT|engine.EQ {
								return true, engine.False
							}
						}
					}
					return false, 0
				}),
			}})
			c.RequireAt(r, rule, key, s.Instr, "the response term is > currentTerm (or > currentTerm+1) on the path", func(v engine.View) bool { return v.T("newer") })
		case "(*Raft).electSelf":
			c.Check(rule, key, c.P.InstrPos(s.Instr), "argument is getCurrentTerm()+1", arg == "("+cur+" + 1)", "argument "+arg, 1)
		case "NewRaft":
			ok := strings.HasSuffix(arg, ".GetUint64(@keyCurrentTerm)#0")
			c.Check(rule, key, c.P.InstrPos(s.Instr), "argument is the value read from the stable store under keyCurrentTerm", ok, "argument "+arg, 1)
		case "(*Raft).liveBootstrap":
			r := c.Run(&engine.Automaton{Fn: s.Fn, Tracks: []engine.Track{
				engine.Event("boot", c.P.IsCallTo(engine.Is("BootstrapCluster"))),
				engine.PredCond("bootErr", errNotNil("BootstrapCluster(")),
			}})
			if arg != "1" {
				c.Bad(rule, key, c.P.InstrPos(s.Instr), "argument is the constant 1", "argument "+arg)
				continue
			}
			c.RequireAt(r, rule, key, s.Instr, "BootstrapCluster (which refuses when any state exists) returned nil", func(v engine.View) bool { return v.Seen("boot") && v.F("bootErr") })
		}
	}
	sBootstrapGuard(c, rule)
	// the in-memory term has a single writer chain
	c.WhoMay(rule, "call (*raftState).setCurrentTerm", c.P.CallsEverywhere(engine.Is("(*raftState).setCurrentTerm")), map[string]string{
		"(*Raft).setCurrentTerm": "persist-then-publish wrapper",
	})
	if f := c.Field(rule, "raftState", "currentTerm"); f != nil {
		c.WhoMay(rule, "write raftState.currentTerm", c.P.FieldWrites(f), map[string]string{"(*raftState).setCurrentTerm": "the setter"})
		esc := c.P.AddrEscapes(f)
		c.Check(rule, "raftState.currentTerm:address-does-not-escape", "-", "the field's address is only used for atomic load/store", len(esc) == 0, fmt.Sprintf("%d escaping uses", len(esc)), 1)
	}
}

func c06R5(c *Ctx, rule string) {
	if fn := c.Fn(rule, "(*Raft).setCurrentTerm"); fn != nil {
		isPersist := func(in ssa.Instruction) bool {
			cc := engine.CallCommonOf(in)
			return cc != nil && c.P.CalleeName(cc) == "iface:StableStore.SetUint64" && c.P.D(cc.Args[0]) == "@keyCurrentTerm" && c.P.D(cc.Args[1]) == "p1"
		}
		r := c.Run(&engine.Automaton{Fn: fn, Tracks: []engine.Track{
			engine.Event("persist", isPersist),
			engine.PredCond("err", errNotNil("recv.stable.SetUint64(@keyCurrentTerm")),
		}})
		pubs := c.P.CallsIn(fn, engine.Is("(*raftState).setCurrentTerm"))
		if len(pubs) == 0 {
			c.Bad(rule, "setCurrentTerm:publish", c.P.Pos(fn.Pos()), "calls raftState.setCurrentTerm", "no such call")
		}
		for _, s := range pubs {
			c.RequireAt(r, rule, "setCurrentTerm:persist-before-publish", s.Instr, "stable.SetUint64(keyCurrentTerm, t) returned nil before the in-memory term is updated, with the same t",
				func(v engine.View) bool { return v.Seen("persist") && v.F("err") && c.P.Arg(s.Instr, 0) == "p1" })
		}
		for _, ret := range engine.ReturnsOf(fn) {
			c.RequireAt(r, rule, "setCurrentTerm:no-return-on-error", ret, "a failed term write never returns normally (panic)", func(v engine.View) bool { return v.Seen("persist") && v.F("err") })
		}
	}
	if fn := c.Fn(rule, "(*Raft).persistVote"); fn != nil {
		tracks := []engine.Track{
			engine.Event("w1", func(in ssa.Instruction) bool {
				cc := engine.CallCommonOf(in)
				return cc != nil && strings.HasPrefix(c.P.CalleeName(cc), "iface:StableStore.Set") && c.P.D(cc.Args[0]) == "@keyLastVoteTerm" && c.P.D(cc.Args[1]) == "p1"
			}),
			engine.Event("w2", func(in ssa.Instruction) bool {
				cc := engine.CallCommonOf(in)
				return cc != nil && strings.HasPrefix(c.P.CalleeName(cc), "iface:StableStore.Set") && c.P.D(cc.Args[0]) == "@keyLastVoteCand" && c.P.D(cc.Args[1]) == "p2"
			}),
			engine.PredCond("e1", errNotNil("recv.stable.SetUint64(@keyLastVoteTerm")),
			engine.PredCond("e2", errNotNil("recv.stable.Set(@keyLastVoteCand")),
		}
		r := c.Run(&engine.Automaton{Fn: fn, Tracks: tracks})
		n := 0
		for _, ret := range engine.ReturnsOf(fn) {
			if len(ret.Results) == 1 && c.P.D(engine.ReturnValues(ret)[0]) == "nil" {
				n++
				c.RequireAt(r, rule, "persistVote:nil-only-after-both-writes", ret, "return nil only after both keys were written (term=p1, candidate=p2) and both results checked",
					func(v engine.View) bool { return v.Seen("w1") && v.Seen("w2") && v.F("e1") && v.F("e2") })
			}
		}
		if n == 0 {
			c.Bad(rule, "persistVote:nil-return", c.P.Pos(fn.Pos()), "a return nil exists", "none")
		}
	}
}

func c06R6(c *Ctx, rule string) {
	fn := c.Fn(rule, "NewRaft")
	if fn == nil {
		return
	}
	isRead := func(in ssa.Instruction) bool {
		cc := engine.CallCommonOf(in)
		return cc != nil && c.P.CalleeName(cc) == "iface:StableStore.GetUint64" && c.P.D(cc.Args[0]) == "@keyCurrentTerm"
	}
	var readDesc string
	engine.EachInstr(fn, func(in ssa.Instruction) {
		if isRead(in) {
			readDesc = c.CallDesc(in)
		}
	})
	if readDesc == "" {
		c.Bad(rule, "NewRaft:read-term", c.P.Pos(fn.Pos()), "reads keyCurrentTerm from the stable store", "no such read")
		return
	}
	r := c.Run(&engine.Automaton{Fn: fn, Tracks: []engine.Track{
		engine.Event("read", isRead),
		engine.PredRel("e", readDesc+"#1", "nil", engine.LT|engine.GT),
		engine.PredRel("enf", readDesc+"#1.Error()", `"not found"`, engine.LT|engine.GT),
		engine.Event("setTerm", func(in ssa.Instruction) bool {
			cc := engine.CallCommonOf(in)
			return cc != nil && c.P.CalleeName(cc) == "(*Raft).setCurrentTerm" && c.P.Arg(in, 0) == readDesc+"#0"
		}),
	}})
	gos := c.P.CallsIn(fn, engine.Is("(*raftState).goFunc"))
	engine.EachInstr(fn, func(in ssa.Instruction) {
		if _, ok := in.(*ssa.Go); ok {
			gos = append(gos, engine.Site{Fn: fn, Instr: in})
		}
	})
	if len(gos) < 3 {
		c.Bad(rule, "NewRaft:goroutines", c.P.Pos(fn.Pos()), "the three goFunc starts (run, runFSM, runSnapshots)", fmt.Sprintf("%d found", len(gos)))
	}
	for _, g := range gos {
		c.RequireAt(r, rule, "NewRaft:term-reloaded-before-"+c.P.Arg(g.Instr, 0), g.Instr, "term read from the stable store (errors other than not-found returned) and installed with setCurrentTerm before the goroutine starts",
			func(v engine.View) bool { return v.Seen("read") && (v.F("e") || v.F("enf")) && v.Seen("setTerm") })
	}
}
