package rules

import (
	"fmt"
	"runtime/debug"
	"sort"
	"strings"
)

// Property describes one property's rule set.
type Property struct {
	ID          string
	Explanation string   // which clause is decided structurally
	NotDecided  string   // what stays outside the claim
	Assumptions []string // trusted base
	RuleText    string   // how obligations are enumerated / what makes one non-trivial
	Run         func(c *Ctx)
}

// Registry maps property id to its rule set.
var Registry = map[string]*Property{}

func register(p *Property) {
	inner := p.Run
	p.Run = func(c *Ctx) {
		defer func() {
			if r := recover(); r != nil {
				// a construct at an anchored site that the rules cannot
				// classify is reported, never passed by default
				c.Bad("R0", "unclassifiable-construct", "-", "every anchored construct can be classified by the rule set",
					fmt.Sprintf("the analyser could not classify the code it found (%v) at:\n%s", r, firstFrames(debug.Stack())))
			}
		}()
		inner(c)
		// error discipline of the functions the rule set has read (S-ERRFLOW)
		sErrFlow(c)
	}
	if cls := errflowPropClasses[p.ID]; len(cls) > 0 {
		p.Explanation += " S-ERRFLOW: in the functions these rules read, every call into the property's fault layers (" + strings.Join(cls, ", ") + ") whose failure left the function in the pinned tree (error returned, or the non-nil branch returns/panics/continues) still does – no failed call is followed by the code that runs after its success (dispositions from def-use chains and CFG reachability, frozen per (function, callee) in baseline/errflow.json)."
		p.RuleText += " RE/S-ERRFLOW: one obligation per (function, callee) group of the frozen error-disposition table that is strict in the baseline, relevant to the property's fault classes and located in a function the rule set reads."
	}
	Registry[p.ID] = p
}

func firstFrames(st []byte) string {
	lines := strings.Split(string(st), "\n")
	var out []string
	for _, l := range lines {
		if strings.Contains(l, "verif/lint/rules") && !strings.Contains(l, "registry.go") {
			out = append(out, strings.TrimSpace(l))
		}
		if len(out) >= 4 {
			break
		}
	}
	return strings.Join(out, " | ")
}

// IDs lists registered property ids.
func IDs() []string {
	var out []string
	for k := range Registry {
		out = append(out, k)
	}
	sort.Strings(out)
	return out
}

const commonRuleText = "Obligations are rule instances (rule x construct) enumerated completely over the type-checked, SSA-built sources of package github.com/hashicorp/raft: every site of the anchored effect (store, call, send, return) in the anchored functions, every frozen who-may table entry, every ordering/domain point of a folded expression. An obligation is non-trivial when deciding it explored at least one product state of a path automaton, compared at least one descriptor/ordering, or matched at least one site; distinct = distinct (rule,key)."

var commonAssumptions = []string{
	"go/packages, go/types and go/ssa (golang.org/x/tools v0.50.0) faithfully represent the sources under /repo for the analysed build configuration",
	"path automata over-approximate run-time paths (infeasible paths are included); predicates are identified by resolved descriptors, and a predicate's last evaluation on the path is taken as its value at the site",
	"interface method calls (LogStore, StableStore, SnapshotStore, Transport, FSM) are treated as opaque effects that behave as their documentation says",
}

// CommonRuleText is the enumeration rule shared by all properties.
func CommonRuleText() string { return commonRuleText }

// CommonAssumptions is the trusted base shared by all properties.
func CommonAssumptions() []string { return commonAssumptions }
