package rules

import (
	"fmt"
	"go/types"
	"strings"

	"golang.org/x/tools/go/ssa"

	"verif/lint/engine"
)

func init() {
	register(&Property{
		ID:          "C01",
		Explanation: "Decided for all paths: the only transition to Leader is in runCandidate's arm that receives real (not pre-) vote results, guarded by grantedVotes >= quorumSize(), where the counter is incremented by one only under vote.Granted after the newer-term test; quorumSize is a strict voter majority for every voter count 0..64; electSelf bumps the term by exactly one, persists it and the self vote before the self vote is delivered, asks only voters, each peer goroutine reports exactly once into a channel created per election; every RPC handler ignores stale terms before any effect and steps down/updates the term on a higher one, and so do the candidate's result arms and the replication routines (via handleStaleTerm → stepDown → leaderLoop); AppendEntries/InstallSnapshot are sent only by the replication routines, which are started only by the leader's startStopReplication with Term fixed to the term at that moment; the in-memory term and role each have a single writer chain; plus all C06 vote-granting obligations (one durable vote per term).",
		NotDecided:  "that two running servers never both lead a term – the protocol-level induction over all histories, store behaviour across crashes and message interleavings is not performed.",
		RuleText:    "C01.R1 leader transition guard and counter discipline; R2 S-QUORUM; R3 electSelf order/voter-only/single report; R4 S-STALE and S-HIGHER; R5 who-may-send leader RPCs and origin of their Term; R6 single writers of term and role; R7 C06.R1-R3 re-used.",
		Run:         c01,
	})
}

func c01(c *Ctx) {
	c01R1(c, "R1")
	sQuorum(c, "R2/S-QUORUM")
	c01R3(c, "R3")
	sDurableElect(c, "R3/S-DURABLE")
	c06R5(c, "R3/S-DURABLE")
	sStale(c, "R4/S-STALE")
	sHigher(c, "R4/S-HIGHER")
	c01R5(c, "R5")
	c01R6(c, "R6")
	sState(c, "R6/S-STATE")
	sBootstrapGuard(c, "R6/S-BOOTSTRAP")
	c06R1(c, "R7/C06.R1")
	sUpToDate(c, "R7/C06.R2", "(*Raft).requestVote", "RequestVoteRequest", "RequestVoteResponse", true, false)
	c06R3(c, "R7/C06.R3")
	sVoteIdentity(c, "R7/S-VOTEID")
	c06R4(c, "R7/C06.R4")
	sLockDiscipline(c, "R8/S-LOCK", "Raft", "raftState")
	sAtomicOnly(c, "R8/S-ATOMIC")
	sMainOwned(c, "R9/S-OWNER", "leaderState", "configurations")
	sAsyncNotifyBuffered(c, "R9/S-ASYNC")
}

// incrementsOf collects the "+1" instructions that feed a counter value
// through phis; ok=false when the counter is fed by anything else than
// constants, itself, and such increments.
func incrementsOf(v ssa.Value) (incs []*ssa.BinOp, ok bool, why string) {
	seen := map[ssa.Value]bool{}
	ok = true
	var walk func(x ssa.Value)
	walk = func(x ssa.Value) {
		if seen[x] {
			return
		}
		seen[x] = true
		switch y := x.(type) {
		case *ssa.Const:
		case *ssa.Phi:
			for _, e := range y.Edges {
				walk(e)
			}
		case *ssa.BinOp:
			k, isK := y.Y.(*ssa.Const)
			if y.Op.String() == "+" && isK && k.Value != nil && k.Int64() == 1 {
				incs = append(incs, y)
				walk(y.X)
				return
			}
			ok = false
			why = "fed by " + y.String()
		default:
			ok = false
			why = fmt.Sprintf("fed by %T", x)
		}
	}
	walk(v)
	return
}

func c01R1(c *Ctx, rule string) {
	sites := c.P.CallsEverywhere(func(n string) bool { return n == "(*Raft).setState" })
	var leaderSites []engine.Site
	for _, s := range sites {
		if c.P.Arg(s.Instr, 0) == "Leader" {
			leaderSites = append(leaderSites, s)
		}
	}
	c.WhoMay(rule, "call setState(Leader)", leaderSites, map[string]string{"(*Raft).runCandidate": "winning the vote"})
	// nobody passes a non-constant state either
	for _, s := range sites {
		a := c.P.Arg(s.Instr, 0)
		okc := a == "Leader" || a == "Follower" || a == "Candidate" || a == "Shutdown"
		if !okc {
			c.Bad(rule, "setState-with-computed-role in "+c.P.Name(s.Fn), c.P.InstrPos(s.Instr), "every setState call names its role as a constant", "setState("+a+")")
		}
	}
	fn := c.Fn(rule, "(*Raft).runCandidate")
	if fn == nil {
		return
	}
	for _, s := range leaderSites {
		if s.Fn != fn {
			continue
		}
		// locate the dominating comparison "X >= votesNeeded"
		var counter ssa.Value
		var needDesc string
		engine.EachInstr(fn, func(in ssa.Instruction) {
			ifi, ok := in.(*ssa.If)
			if !ok {
				return
			}
			if ifi.Block().Succs[0] != s.Instr.Block() {
				return
			}
			cd := c.P.CondOf(ifi.Cond)
			if cd.IsRel && cd.EdgeOrd(true) == engine.LT|engine.EQ {
				cd = cd.Flipped() // votesNeeded <= grantedVotes
			}
			if cd.IsRel && cd.EdgeOrd(true) == engine.GT|engine.EQ {
				counter, needDesc = cd.XV, cd.Y
			}
		})
		if counter == nil {
			c.Bad(rule, "runCandidate:win-guard", c.P.InstrPos(s.Instr), "setState(Leader) sits directly under `grantedVotes >= votesNeeded`", "no such dominating comparison")
			continue
		}
		c.Check(rule, "runCandidate:votes-needed-is-quorum", c.P.InstrPos(s.Instr), "the threshold is quorumSize()", needDesc == "recv.quorumSize()", "threshold "+needDesc, 1)
		incs, ok, why := incrementsOf(counter)
		if !ok || len(incs) == 0 {
			c.Bad(rule, "runCandidate:granted-counter-shape", c.P.InstrPos(s.Instr), "the tally is a counter incremented by 1", why+fmt.Sprintf(" (%d increments)", len(incs)))
			continue
		}
		// which select arm? find the vote channel: the received value whose
		// .Granted guards the increment
		var voteRecv string
		engine.EachInstr(fn, func(in ssa.Instruction) {
			if ifi, ok := in.(*ssa.If); ok {
				cd := c.P.CondOf(ifi.Cond)
				if !cd.IsRel && strings.HasSuffix(cd.B, ".RequestVoteResponse.Granted") {
					voteRecv = strings.TrimSuffix(cd.B, ".RequestVoteResponse.Granted")
				}
			}
		})
		okCh := strings.HasPrefix(voteRecv, "<-") && strings.Contains(voteRecv, "recv.electSelf()") && !strings.Contains(voteRecv, "preElectSelf")
		c.Check(rule, "runCandidate:vote-source", c.P.InstrPos(s.Instr), "the counted results are received from the channel returned by electSelf (never the pre-vote channel)", okCh, "results come from "+voteRecv, 1)
		r := c.Run(&engine.Automaton{Fn: fn, Tracks: []engine.Track{
			engine.Event("loop", isSelect, "granted", "newer", "arm"),
			engine.PredBool("granted", DescIs(voteRecv+".RequestVoteResponse.Granted")),
			engine.PredRel("newer", voteRecv+".RequestVoteResponse.Term", curTerm, engine.GT),
			engine.PredCond("arm", func(cd engine.Cond) (bool, int) { return false, 0 }),
			engine.PredRel("won", c.P.D(counter), "recv.quorumSize()", engine.GT|engine.EQ),
		}})
		for i, inc := range incs {
			c.RequireAt(r, rule, fmt.Sprintf("runCandidate:tally-increment#%d", i+1), inc, "in this loop iteration: ¬(vote.Term > currentTerm) ∧ vote.Granted", func(v engine.View) bool { return v.F("newer") && v.T("granted") })
		}
		c.RequireAt(r, rule, "runCandidate:leader-transition", s.Instr, "in this loop iteration: ¬(vote.Term > currentTerm) ∧ grantedVotes >= quorumSize()", func(v engine.View) bool { return v.F("newer") && v.T("won") })
		// one result counts at most once: the increment is not inside an inner loop of the arm
		for i, inc := range incs {
			inner := engine.Reaches(inc.Block(), inc.Block()) && !reachesOnlyThrough(inc.Block(), isSelectBlock)
			c.Check(rule, fmt.Sprintf("runCandidate:tally-increment#%d:once-per-result", i+1), c.P.InstrPos(inc), "between two receives the tally grows by at most one", !inner, pick(!inner, "every cycle through the increment passes the select", "increment can repeat without a new receive"), 1)
		}
	}
}

func isSelectBlock(b *ssa.BasicBlock) bool {
	for _, in := range b.Instrs {
		if isSelect(in) {
			return true
		}
	}
	return false
}

// reachesOnlyThrough reports whether every cycle from b back to b passes a
// block satisfying via.
func reachesOnlyThrough(b *ssa.BasicBlock, via func(*ssa.BasicBlock) bool) bool {
	seen := map[*ssa.BasicBlock]bool{}
	var dfs func(x *ssa.BasicBlock) bool // true if b reachable avoiding via-blocks
	dfs = func(x *ssa.BasicBlock) bool {
		for _, s := range x.Succs {
			if s == b {
				return true
			}
			if seen[s] || via(s) {
				continue
			}
			seen[s] = true
			if dfs(s) {
				return true
			}
		}
		return false
	}
	return !dfs(b)
}

func c01R3(c *Ctx, rule string) {
	fn := c.Fn(rule, "(*Raft).electSelf")
	if fn == nil {
		return
	}
	// new term = current+1, persisted, used in the request
	var reqTerm string
	if f := c.Field(rule, "RequestVoteRequest", "Term"); f != nil {
		for _, s := range c.P.FieldWritesIn(fn, f) {
			v, _ := c.P.StoredValue(s.Instr, f)
			reqTerm = c.P.D(v)
		}
	}
	c.Check(rule, "electSelf:request-term", c.P.Pos(fn.Pos()), "the vote request carries getCurrentTerm()+1, the value passed to setCurrentTerm", reqTerm == "("+curTerm+" + 1)", "request term "+reqTerm, 1)
	// last log position in the request is the pair returned by getLastEntry
	for _, fld := range [][2]string{{"LastLogIndex", "recv.raftState.getLastEntry()#0"}, {"LastLogTerm", "recv.raftState.getLastEntry()#1"}} {
		if f := c.Field(rule, "RequestVoteRequest", fld[0]); f != nil {
			got := ""
			for _, s := range c.P.FieldWritesIn(fn, f) {
				v, _ := c.P.StoredValue(s.Instr, f)
				got = c.P.D(v)
			}
			c.Check(rule, "electSelf:request-"+fld[0], c.P.Pos(fn.Pos()), "request."+fld[0]+" = "+fld[1], got == fld[1], "= "+got, 1)
		}
	}
	voter := engine.PredCond("voter", func(cd engine.Cond) (bool, int) {
		return voterCond(cd, "val(range recv.configurations.latest.Servers).Suffrage")
	})
	self := engine.PredRel("self", "val(range recv.configurations.latest.Servers).ID", "recv.localID", engine.EQ)
	r := c.Run(&engine.Automaton{Fn: fn, Tracks: []engine.Track{voter, self}})
	asks := c.P.CallsIn(fn, func(n string) bool { return strings.HasPrefix(n, "(*Raft).electSelf$askPeer") })
	if len(asks) == 0 {
		c.Bad(rule, "electSelf:ask-peers", c.P.Pos(fn.Pos()), "electSelf asks peers through its askPeer literal", "no call")
	}
	for _, s := range asks {
		c.RequireAt(r, rule, "electSelf:ask-only-voters", s.Instr, "vote requests go only to servers with Suffrage == Voter (and not to self)", func(v engine.View) bool { return v.T("voter") && v.F("self") })
	}
	engine.EachInstr(fn, func(in ssa.Instruction) {
		if _, ok := in.(*ssa.Send); ok {
			c.RequireAt(r, rule, "electSelf:self-vote-only-as-voter", in, "the self vote is cast only when this server is a voter of the latest configuration", func(v engine.View) bool { return v.T("voter") && v.T("self") })
		}
	})
	// fresh channel per election
	for _, ret := range engine.ReturnsOf(fn) {
		if len(ret.Results) == 1 {
			d := c.P.D(engine.ReturnValues(ret)[0])
			if d == "nil" {
				continue
			}
			c.Check(rule, "electSelf:fresh-result-channel", c.P.InstrPos(ret), "the result channel is made in this call (no votes carried over from an earlier term)", strings.HasPrefix(d, "make(chan *voteResult"), "returns "+d, 1)
		}
	}
	// the per-peer goroutine reports exactly once on every path
	for _, name := range c.P.FuncNames() {
		if !strings.HasPrefix(name, "(*Raft).electSelf$askPeer$") {
			continue
		}
		g := c.P.Funcs[name]
		c.FnsTouched[name] = true
		rr := c.Run(&engine.Automaton{Fn: g, Tracks: []engine.Track{
			engine.Event("sent", func(in ssa.Instruction) bool { _, ok := in.(*ssa.Send); return ok }),
			engine.Event("rpc", c.P.IsCallTo(engine.Is("iface:Transport.RequestVote"))),
			predErr("rpcErr", "recv.trans.RequestVote("),
		}})
		n := 0
		engine.EachInstr(g, func(in ssa.Instruction) {
			if _, ok := in.(*ssa.Send); ok {
				n++
				c.RequireAt(rr, rule, "electSelf/askPeer:report-once", in, "no earlier send on this path (a voter contributes at most one result per election) and the RPC was made", func(v engine.View) bool { return !v.Seen("sent") && v.Seen("rpc") })
			}
		})
		c.Check(rule, "electSelf/askPeer:reports", c.P.Pos(g.Pos()), "the goroutine sends its result", n >= 1, fmt.Sprintf("%d send(s)", n), n)
		// on RPC error the reported result is not a grant
		if f := c.Field(rule, "RequestVoteResponse", "Granted"); f != nil {
			ws := c.StoresOfConst(g, f, true)
			c.Check(rule, "electSelf/askPeer:no-synthetic-grant", c.P.Pos(g.Pos()), "the goroutine never stores Granted=true itself (only the voter's response can grant)", len(ws) == 0, fmt.Sprintf("%d store(s) of Granted=true", len(ws)), 1)
		}
	}
}

func c01R5(c *Ctx, rule string) {
	senders := c.P.CallsEverywhere(engine.Is("iface:Transport.AppendEntries", "iface:AppendPipeline.AppendEntries", "iface:Transport.InstallSnapshot", "iface:Transport.AppendEntriesPipeline"))
	c.WhoMay(rule, "send AppendEntries/InstallSnapshot as leader", senders, map[string]string{
		"(*Raft).replicateTo":        "synchronous replication",
		"(*Raft).heartbeat":          "heartbeats",
		"(*Raft).pipelineSend":       "pipelined replication",
		"(*Raft).pipelineReplicate":  "opens the pipeline",
		"(*Raft).sendLatestSnapshot": "snapshot transfer",
	})
	// call chain: those are reachable only from replicate, started only by startStopReplication
	chain := []struct{ callee, caller, why string }{
		{"(*Raft).replicateTo", "(*Raft).replicate", "replication loop"},
		{"(*Raft).sendLatestSnapshot", "(*Raft).replicateTo", "fallback when the log no longer has the entry"},
		{"(*Raft).pipelineReplicate", "(*Raft).replicate", "pipeline mode"},
		{"(*Raft).pipelineSend", "(*Raft).pipelineReplicate", "pipeline mode"},
	}
	for _, l := range chain {
		c.WhoMay(rule, "call "+l.callee, c.P.CallsEverywhere(engine.Is(l.callee)), map[string]string{l.caller: l.why})
	}
	c.WhoMay(rule, "call (*Raft).heartbeat", c.P.CallsEverywhere(engine.Is("(*Raft).heartbeat")), map[string]string{"(*Raft).replicate$arg:goFunc": "started by the replication routine"})
	c.WhoMay(rule, "call (*Raft).replicate", c.P.CallsEverywhere(engine.Is("(*Raft).replicate")), map[string]string{"(*Raft).startStopReplication$arg:goFunc": "one routine per peer, started by the leader"})
	c.WhoMay(rule, "call (*Raft).startStopReplication", c.P.CallsEverywhere(engine.Is("(*Raft).startStopReplication")), map[string]string{
		"(*Raft).runLeader":                "on becoming leader",
		"(*Raft).appendConfigurationEntry": "on a membership change while leader",
	})
	c.WhoMay(rule, "call (*Raft).runLeader", c.P.CallsEverywhere(engine.Is("(*Raft).runLeader")), map[string]string{"(*Raft).run": "only in state Leader"})
	if fn := c.Fn(rule, "(*Raft).run"); fn != nil {
		r := c.Run(&engine.Automaton{Fn: fn, Tracks: []engine.Track{engine.PredRel("isLeader", "recv.raftState.getState()", "Leader", engine.EQ)}})
		for _, s := range c.P.CallsIn(fn, engine.Is("(*Raft).runLeader")) {
			c.RequireAt(r, rule, "run:runLeader-only-as-leader", s.Instr, "getState() == Leader", func(v engine.View) bool { return v.T("isLeader") })
		}
	}
	// Term of every leader request is followerReplication.currentTerm
	if ct := c.Field(rule, "followerReplication", "currentTerm"); ct != nil {
		ws := c.P.FieldWrites(ct)
		c.WhoMay(rule, "write followerReplication.currentTerm", ws, map[string]string{"(*Raft).startStopReplication": "frozen at the leader's term when the routine is created"})
		for _, s := range ws {
			v, _ := c.P.StoredValue(s.Instr, ct)
			c.Check(rule, "startStopReplication:currentTerm-source", c.P.InstrPos(s.Instr), "currentTerm = getCurrentTerm()", c.P.D(v) == curTerm, "= "+c.P.D(v), 1)
		}
		for _, tf := range [][2]string{{"AppendEntriesRequest", "Term"}, {"InstallSnapshotRequest", "Term"}} {
			f := c.Field(rule, tf[0], tf[1])
			if f == nil {
				continue
			}
			n := 0
			for _, s := range c.P.FieldWrites(f) {
				v, _ := c.P.StoredValue(s.Instr, f)
				d := c.P.D(v)
				n++
				c.Check(rule, tf[0]+".Term written in "+c.P.Name(s.Fn), c.P.InstrPos(s.Instr), "every leader request's Term is the replication routine's frozen currentTerm", strings.HasSuffix(d, ".currentTerm"), "= "+d, 1)
			}
			if n == 0 {
				c.Bad(rule, tf[0]+".Term:writers", "-", "leader requests get their Term set in package raft", "no writer found")
			}
		}
	}
}

func c01R6(c *Ctx, rule string) {
	c.WhoMay(rule, "call (*raftState).setCurrentTerm", c.P.CallsEverywhere(engine.Is("(*raftState).setCurrentTerm")), map[string]string{"(*Raft).setCurrentTerm": "persist-then-publish wrapper"})
	c.WhoMay(rule, "call (*raftState).setState", c.P.CallsEverywhere(engine.Is("(*raftState).setState")), map[string]string{"(*Raft).setState": "clears the advertised leader first"})
	if f := c.Field(rule, "raftState", "state"); f != nil {
		c.WhoMay(rule, "write raftState.state", c.P.FieldWrites(f), map[string]string{"(*raftState).setState": "the setter"})
	}
	if f := c.Field(rule, "raftState", "currentTerm"); f != nil {
		c.WhoMay(rule, "write raftState.currentTerm", c.P.FieldWrites(f), map[string]string{"(*raftState).setCurrentTerm": "the setter"})
	}
	// Candidate transitions: follower timeout (as voter) and TimeoutNow
	var cand []engine.Site
	for _, s := range c.P.CallsEverywhere(engine.Is("(*Raft).setState")) {
		if c.P.Arg(s.Instr, 0) == "Candidate" {
			cand = append(cand, s)
		}
	}
	c.WhoMay(rule, "call setState(Candidate)", cand, map[string]string{
		"(*Raft).runFollower": "heartbeat timeout, only as a voter",
		"(*Raft).timeoutNow":  "leadership transfer target",
	})
}

var _ = types.Universe
