package rules

import (
	"encoding/json"
	"fmt"
	"os"
	"path/filepath"
	"sort"
	"strings"
	"sync"

	"golang.org/x/tools/go/ssa"

	"verif/lint/engine"
)

// S-ERRFLOW – error discipline, frozen from the pinned tree.
//
// Every property that quantifies over store / snapshot / transport faults and
// crash points relies on one shape: when a call into the storage, snapshot,
// FSM, transport, file or wire layer fails, the calling function does NOT go
// on with the code that runs after success (acknowledge, advance a position,
// publish, delete). The engine classifies what each function does with each
// error result (engine/errflow.go: diverges / propagated / panics = strict;
// tolerated / forwarded / discarded = not strict). The dispositions of the
// pinned tree were listed, the non-strict ones read one by one (they are
// upstream's deliberate "log and carry on" sites: Cancel/Close/Release on
// cleanup paths, best-effort compaction after an installed snapshot, vote and
// heartbeat RPC failures that are reported through the response value, …) and
// the counts frozen in baseline/errflow.json, per (function, callee):
// how many call sites are strict, how many are not.
//
// Obligation, per (function, callee) group that was strict in the baseline:
// the group must not have FEWER strict sites and at the same time MORE
// non-strict sites than the baseline – i.e. no error check that used to leave
// may now fall through into the success continuation (dropped `return`,
// dropped check, `err` shadowed so that the tested value is a different one,
// a failure branch that now only logs). Removing or moving a call (extracting
// a helper) changes both counts downwards and is not reported by this rule;
// new call sites carry no obligation. The classification is CFG/def-use
// based, so if/else vs early return, switch, tail return `return f()` and
// inverted conditions are all the same to it.
//
// A property checks the groups (a) whose callee belongs to one of the
// property's fault classes (the layer whose failures the property quantifies
// over; in-package callees inherit the classes of the calls they make) and
// (b) that sit in a function the property's other rules read.

type errflowEntry struct {
	Fn        string `json:"fn"`
	Callee    string `json:"callee"`
	Strict    int    `json:"strict"`
	NonStrict int    `json:"nonstrict"`
}

// ErrflowBaselinePath is set by the driver (default: next to symbols.json).
var ErrflowBaselinePath string

var (
	errflowOnce sync.Once
	errflowBase map[string]errflowEntry
)

func errflowBaseline() map[string]errflowEntry {
	errflowOnce.Do(func() {
		path := ErrflowBaselinePath
		if path == "" && engine.BaselinePath != "" {
			path = filepath.Join(filepath.Dir(engine.BaselinePath), "errflow.json")
		}
		b, err := os.ReadFile(path)
		if err != nil {
			return
		}
		var es []errflowEntry
		if json.Unmarshal(b, &es) != nil {
			return
		}
		errflowBase = map[string]errflowEntry{}
		for _, e := range es {
			errflowBase[e.Fn+"\x00"+e.Callee] = e
		}
	})
	return errflowBase
}

func errflowSkipFile(pos string) bool {
	for _, f := range []string{"inmem_", "testing", "tcp_transport.go", "discard_snapshot.go", "peersjson.go"} {
		if strings.HasPrefix(pos, f) {
			return true
		}
	}
	return false
}

// errflowGroups computes the current (function, callee) groups.
func errflowGroups(p *engine.Program) (map[string]*errflowEntry, map[string][]engine.ErrSite) {
	groups := map[string]*errflowEntry{}
	sites := map[string][]engine.ErrSite{}
	for _, fn := range p.AllFuncs() {
		if len(fn.Blocks) == 0 {
			continue
		}
		if errflowSkipFile(p.Pos(fn.Pos())) {
			continue
		}
		name := p.Name(fn)
		for _, es := range p.ErrSitesIn(fn) {
			k := name + "\x00" + es.Callee
			g := groups[k]
			if g == nil {
				g = &errflowEntry{Fn: name, Callee: es.Callee}
				groups[k] = g
			}
			if es.Strict {
				g.Strict++
			} else {
				g.NonStrict++
			}
			sites[k] = append(sites[k], es)
		}
	}
	return groups, sites
}

// WriteErrflowBaseline records the dispositions of the loaded tree.
func WriteErrflowBaseline(p *engine.Program, path string) (int, error) {
	groups, _ := errflowGroups(p)
	var es []errflowEntry
	for _, g := range groups {
		es = append(es, *g)
	}
	sort.Slice(es, func(i, j int) bool {
		if es[i].Fn != es[j].Fn {
			return es[i].Fn < es[j].Fn
		}
		return es[i].Callee < es[j].Callee
	})
	b, _ := json.MarshalIndent(es, "", " ")
	return len(es), os.WriteFile(path, append(b, '\n'), 0o644)
}

// fault classes of a callee as seen from a call site in file `file`.
func errflowDirectClasses(callee, file string) []string {
	var cs []string
	has := func(pfx ...string) bool {
		for _, x := range pfx {
			if strings.HasPrefix(callee, x) {
				return true
			}
		}
		return false
	}
	switch {
	case has("iface:StableStore."):
		cs = append(cs, "stable")
	case has("iface:LogStore.", "iface:CommitTrackingLogStore.", "iface:MonotonicLogStore."):
		cs = append(cs, "log")
	case has("iface:SnapshotStore.", "iface:SnapshotSink."):
		cs = append(cs, "snap")
	case has("iface:FSM.", "iface:FSMSnapshot.", "iface:BatchingFSM.", "iface:ConfigurationStore."):
		cs = append(cs, "fsm")
	case has("iface:Transport.", "iface:AppendPipeline.", "iface:WithPreVote.", "iface:AppendFuture."):
		cs = append(cs, "trans")
	case has("iface:Future.", "(*deferError).Error", "iface:IndexFuture.", "iface:ApplyFuture."):
		cs = append(cs, "future")
	case has("checkConfiguration", "nextConfiguration", "decodePeers", "DecodeConfiguration", "decodeConfiguration"):
		cs = append(cs, "cfg")
	case has("io.Copy", "iface:io.", "io.ReadAll"):
		if file != "file_snapshot.go" && file != "net_transport.go" {
			cs = append(cs, "snap")
		}
	}
	switch file {
	case "file_snapshot.go":
		cs = append(cs, "file")
	case "net_transport.go":
		cs = append(cs, "net")
	case "log_cache.go":
		cs = append(cs, "cache")
	}
	return cs
}

// errflowClasses computes, for every in-package function, the union of the
// fault classes of the error-returning calls it (transitively) makes.
func errflowClasses(p *engine.Program, sites map[string][]engine.ErrSite) map[string]map[string]bool {
	fnClasses := map[string]map[string]bool{}
	add := func(fn, c string) bool {
		m := fnClasses[fn]
		if m == nil {
			m = map[string]bool{}
			fnClasses[fn] = m
		}
		if m[c] {
			return false
		}
		m[c] = true
		return true
	}
	rootOf := func(es engine.ErrSite) string {
		f := es.Fn
		for f.Parent() != nil {
			f = f.Parent()
		}
		return p.Name(f)
	}
	for changed, iter := true, 0; changed && iter < 6; iter++ {
		changed = false
		for _, ss := range sites {
			for _, es := range ss {
				file := strings.SplitN(p.InstrPos(es.Call), ":", 2)[0]
				cl := errflowDirectClasses(es.Callee, file)
				for c := range fnClasses[es.Callee] {
					cl = append(cl, c)
				}
				for _, c := range cl {
					if add(rootOf(es), c) {
						changed = true
					}
					if add(p.Name(es.Fn), c) {
						changed = true
					}
				}
			}
		}
	}
	return fnClasses
}

// fault classes per property: the layers whose failures the property's
// statement quantifies over.
var errflowPropClasses = map[string][]string{
	"C01": {"stable"},
	"C02": {"log", "fsm", "snap"},
	"C03": {"log", "stable"},
	"C04": {"log"},
	"C06": {"stable"},
	"C07": {"cfg", "log"},
	"C08": {"log", "fsm", "future"},
	"C09": {"trans"},
	"C10": {"stable", "log", "snap", "fsm", "cfg"},
	"C11": {"snap", "log", "fsm"},
	"C12": {"trans", "log", "snap"},
	"C13": {"trans"},
	"C14": {"trans"},
	"C15": {"file"},
	"C16": {"net"},
	"C17": {"future"},
	"C19": {"cache"},
	"C20": {"snap", "fsm", "future", "log"},
}

// functions outside a property's other rules whose error discipline the
// property nevertheless depends on (root function names).
var errflowExtraRoots = map[string][]string{
	// an invalid first configuration (no voter, duplicate ids) is refused by
	// checkConfiguration before anything is written
	"C07": {"BootstrapCluster", "RecoverCluster"},
	"C10": {"BootstrapCluster"},
}

// start-up / operator entry points are read by many shared rule groups; their
// error discipline is claimed only by the properties about what they write.
var errflowRootOnlyFor = map[string]map[string]bool{
	"BootstrapCluster": {"C01": true, "C03": true, "C06": true, "C07": true, "C10": true},
	"RecoverCluster":   {"C02": true, "C07": true, "C10": true, "C11": true},
}

func sErrFlow(c *Ctx) {
	classes := errflowPropClasses[c.Prop]
	if len(classes) == 0 {
		return
	}
	rule := "RE/S-ERRFLOW"
	base := errflowBaseline()
	if base == nil {
		c.Bad(rule, "baseline", "-", "baseline/errflow.json is readable", "missing or unreadable")
		return
	}
	groups, sites := errflowGroups(c.P)
	fnClasses := errflowClasses(c.P, sites)
	want := map[string]bool{}
	for _, cl := range classes {
		want[cl] = true
	}
	touchedRoot := map[string]bool{}
	for n := range c.FnsTouched {
		touchedRoot[n] = true
		if i := strings.Index(n, "$"); i > 0 {
			touchedRoot[n[:i]] = true
		}
	}
	for _, n := range errflowExtraRoots[c.Prop] {
		touchedRoot[n] = true
	}
	var keys []string
	for k := range base {
		keys = append(keys, k)
	}
	sort.Strings(keys)
	n := 0
	for _, k := range keys {
		b := base[k]
		if b.Strict == 0 {
			continue
		}
		root := b.Fn
		if i := strings.Index(root, "$"); i > 0 {
			root = root[:i]
		}
		if !touchedRoot[root] {
			continue
		}
		if only, ok := errflowRootOnlyFor[root]; ok && !only[c.Prop] {
			continue
		}
		// class of the group: from the current sites when present, else skip
		// (the call is gone or moved: not this rule's business)
		cur := groups[k]
		if cur == nil {
			continue
		}
		rel := false
		for _, es := range sites[k] {
			file := strings.SplitN(c.P.InstrPos(es.Call), ":", 2)[0]
			for _, cl := range errflowDirectClasses(es.Callee, file) {
				if want[cl] {
					rel = true
				}
			}
			for cl := range fnClasses[es.Callee] {
				if want[cl] {
					rel = true
				}
			}
		}
		if !rel {
			continue
		}
		n++
		ok := !(cur.Strict < b.Strict && cur.NonStrict > b.NonStrict)
		pos, found := "-", fmt.Sprintf("%d strict, %d not strict (pinned tree: %d / %d)", cur.Strict, cur.NonStrict, b.Strict, b.NonStrict)
		var first ssa.Instruction
		for _, es := range sites[k] {
			if first == nil {
				first = es.Call
			}
			if !es.Strict {
				if !ok {
					found += fmt.Sprintf("; %s: %s", c.P.InstrPos(es.Call), es.Disp)
				}
			}
		}
		if first != nil {
			pos = c.P.InstrPos(first)
		}
		c.Check(rule, b.Fn+":"+b.Callee, pos,
			"a failure of "+b.Callee+" in "+b.Fn+" never flows into the code that runs after its success (the error is returned, or the non-nil branch leaves: return / panic / continue / goto)",
			ok, found, cur.Strict+cur.NonStrict)
	}
	if n == 0 {
		c.Bad(rule, "instances", "-", "at least one error-discipline group in the functions this property reads", "none found")
	}
}
