package rules

import (
	"fmt"
	"strings"

	"golang.org/x/tools/go/ssa"

	"verif/lint/engine"
)

func init() {
	register(&Property{
		ID:          "C03",
		Explanation: "Decided for all paths: acknowledgement/counting is dominated by the durable write (leader: StoreLogs ≺ self-match ≺ setLastLog; follower: StoreLogs ≺ setLastLog ≺ Success=true; vote: persistVote ≺ Granted=true; term: persisted before published; InstallSnapshot: durable snapshot ≺ restore ≺ positions ≺ Success); followers' progress is reported only from successful responses; the leader raises the commit index only to a quorum value that is >= the first index of its own term, after dispatching its no-op; a follower deletes log entries only at the first entry whose term differs from the stored one, from that entry's index to its last log index; voters refuse (vote and pre-vote) candidates whose last (term,index) is behind theirs for all 9 orderings; LogStore.DeleteRange has exactly four callers; the leader assigns index = last+1.. and term = current term to what it appends.",
		NotDecided:  "leader completeness across elections as a property of runs (needs the protocol induction over histories); what a store holds after a crash.",
		RuleText:    "C03.R1 S-DURABLE and install ordering; R2 S-MATCH; R3 S-DELETE; R4 S-UPTODATE; R5 commit rule (C05.R3); R6 truncation guard; R7 index/term assignment in dispatchLogs.",
		Run:         c03,
	})
}

func c03(c *Ctx) {
	sDurable(c, "R1/S-DURABLE")
	sInstallDurable(c, "R1/S-DURABLE")
	sMatch(c, "R2/S-MATCH")
	sDelete(c, "R3/S-DELETE")
	sUpToDate(c, "R4/S-UPTODATE", "(*Raft).requestVote", "RequestVoteRequest", "RequestVoteResponse", true, false)
	sUpToDate(c, "R4/S-UPTODATE", "(*Raft).requestPreVote", "RequestPreVoteRequest", "RequestPreVoteResponse", true, false)
	c05R3(c, "R5")
	c03R6(c, "R6")
	c03R7(c, "R7")
	sState(c, "R8/S-STATE")
	c10R5(c, "R9/C10.R5")
	coreCommitBundle(c, "R10", "S-MATCH", "C05.R3")
	sLockDiscipline(c, "R11/S-LOCK", "raftState", "commitment")
	sAtomicOnly(c, "R11/S-ATOMIC")
	sStoreWriters(c, "R12/S-WRITERS")
	// a follower that is AHEAD of what the leader can read must not be sent a
	// snapshot (it would wipe acknowledged entries on a monotonic store): the
	// snapshot fallback is taken only for ErrLogNotFound (round-7 seed C03-N)
	c12R1(c, "R13/C12.R1")
	// one vote per term also for a candidate: the vote check reads the persisted
	// record, which electSelf's self vote goes through as well (round-8 seed
	// C03-O: an in-memory mirror that the self vote bypassed)
	sVoteIdentity(c, "R14/S-VOTEID")
}

// truncationTracks are the per-iteration tracks of appendEntries' entry loop.
func truncationTracks(c *Ctx) []engine.Track {
	entry := "val(range p2.Entries)"
	return []engine.Track{
		{Name: "iter", If: func(cd engine.Cond, _ *ssa.If) (bool, int) {
			if cd.IsRel && cd.X == "idx(range)" && cd.Y == "len(p2.Entries)" {
				return true, engine.True
			}
			return false, 0
		}, Kills: []string{"beyond", "read", "readErr", "conflict", "deleted", "delErr"}},
		engine.PredRel("beyond", entry+".Index", "recv.raftState.getLastLog()#0", engine.GT),
		engine.Event("read", func(in ssa.Instruction) bool {
			cc := engine.CallCommonOf(in)
			return cc != nil && c.P.CalleeName(cc) == "iface:LogStore.GetLog" && c.P.Arg(in, 0) == entry+".Index"
		}),
		predErr("readErr", "recv.logs.GetLog("+entry+".Index"),
		engine.PredCond("conflict", func(cd engine.Cond) (bool, int) {
			if !cd.IsRel {
				return false, 0
			}
			a, b := cd.X, cd.Y
			if b == entry+".Term" {
				a, b = b, a
			}
			if a != entry+".Term" || !strings.HasPrefix(b, "var(Log)") || !strings.HasSuffix(b, ".Term") {
				return false, 0
			}
			s := cd.EdgeOrd(true)
			if isNE(s) {
				return true, engine.True
			}
			if s == engine.EQ {
				return true, engine.False
			}
			return false, 0
		}),
		engine.Event("deleted", c.P.IsCallTo(engine.Is("iface:LogStore.DeleteRange"))),
		predErr("delErr", "recv.logs.DeleteRange("),
	}
}

func c03R6(c *Ctx, rule string) {
	fn := c.Fn(rule, "(*Raft).appendEntries")
	if fn == nil {
		return
	}
	entry := "val(range p2.Entries)"
	r := c.Run(&engine.Automaton{Fn: fn, Tracks: truncationTracks(c)})
	dels := c.P.CallsIn(fn, engine.Is("iface:LogStore.DeleteRange"))
	if len(dels) != 1 {
		c.Bad(rule, "appendEntries:truncation-site", c.P.Pos(fn.Pos()), "exactly one DeleteRange (suffix truncation)", fmt.Sprintf("%d", len(dels)))
	}
	// the entry read for comparison is the one stored at the same index
	var readDst string
	for _, s := range c.P.CallsIn(fn, engine.Is("iface:LogStore.GetLog")) {
		if c.P.Arg(s.Instr, 0) == entry+".Index" {
			readDst = c.P.Arg(s.Instr, 1)
		}
	}
	for _, s := range dels {
		a0, a1 := c.P.Arg(s.Instr, 0), c.P.Arg(s.Instr, 1)
		c.RequireAt(r, rule, "appendEntries:delete-only-on-term-conflict", s.Instr,
			"in this iteration: entry.Index <= last log index, the stored entry at entry.Index was read without error, and its term differs from the sent entry's term",
			func(v engine.View) bool {
				return v.F("beyond") && v.Seen("read") && v.F("readErr") && v.T("conflict") && !v.Seen("deleted")
			})
		c.Check(rule, "appendEntries:delete-range-bounds", c.P.InstrPos(s.Instr), "DeleteRange(entry.Index, lastLogIndex): from the first conflicting index to the end of the log", a0 == entry+".Index" && a1 == "recv.raftState.getLastLog()#0", "DeleteRange("+a0+", "+a1+")", 1)
	}
	// the conflict comparison reads the term of the entry fetched into readDst
	okCmp := false
	engine.EachInstr(fn, func(in ssa.Instruction) {
		if ifi, ok := in.(*ssa.If); ok {
			cd := c.P.CondOf(ifi.Cond)
			if cd.IsRel && ((cd.X == entry+".Term" && cd.Y == readDst+".Term") || (cd.Y == entry+".Term" && cd.X == readDst+".Term")) {
				okCmp = true
			}
		}
	})
	c.Check(rule, "appendEntries:conflict-compares-same-index", c.P.Pos(fn.Pos()), "the term compared with entry.Term is that of the entry read by GetLog(entry.Index, &x)", okCmp && readDst != "", "stored entry read into "+readDst, 1)
}

func c03R7(c *Ctx, rule string) {
	fn := c.Fn(rule, "(*Raft).dispatchLogs")
	if fn == nil {
		return
	}
	li := c.Field(rule, "Log", "Index")
	lt := c.Field(rule, "Log", "Term")
	if li == nil || lt == nil {
		return
	}
	for _, s := range c.P.FieldWritesIn(fn, li) {
		v, _ := c.P.StoredValue(s.Instr, li)
		ok := false
		why := c.P.D(v)
		if b, isB := v.(*ssa.BinOp); isB && b.Op.String() == "+" {
			if k, isK := b.Y.(*ssa.Const); isK && k.Int64() == 1 {
				if ph, isPhi := b.X.(*ssa.Phi); isPhi {
					start, self := false, false
					for _, e := range ph.Edges {
						if e == ssa.Value(b) {
							self = true
						} else if c.P.D(e) == "recv.raftState.getLastIndex()" {
							start = true
						}
					}
					ok = start && self && len(ph.Edges) == 2
				}
			}
		}
		c.Check(rule, "dispatchLogs:index-assignment", c.P.InstrPos(s.Instr), "entry k of the batch gets index getLastIndex()+k (contiguous, starting right after the last index)", ok && strings.HasPrefix(c.P.D(s.Instr.(*ssa.Store).Addr), "val(range p1).log"), "Index = "+why, 1)
	}
	for _, s := range c.P.FieldWritesIn(fn, lt) {
		v, _ := c.P.StoredValue(s.Instr, lt)
		c.Check(rule, "dispatchLogs:term-assignment", c.P.InstrPos(s.Instr), "every appended entry gets the leader's current term", c.P.D(v) == curTerm, "Term = "+c.P.D(v), 1)
	}
	if len(c.P.FieldWritesIn(fn, li)) == 0 || len(c.P.FieldWritesIn(fn, lt)) == 0 {
		c.Bad(rule, "dispatchLogs:assigns-index-and-term", c.P.Pos(fn.Pos()), "dispatchLogs stores Log.Index and Log.Term", "missing store")
	}
	// what is stored is the batch's logs, in order
	for _, s := range c.P.CallsIn(fn, engine.Is("iface:LogStore.StoreLogs")) {
		a := c.P.Arg(s.Instr, 0)
		filled := false
		engine.EachInstr(fn, func(in ssa.Instruction) {
			if st, ok := in.(*ssa.Store); ok && c.P.D(st.Addr) == "val(range "+a+")" && c.P.D(st.Val) == "val(range p1).log" {
				filled = true
			}
		})
		c.Check(rule, "dispatchLogs:stores-the-batch", c.P.InstrPos(s.Instr), "StoreLogs gets the slice whose k-th element is &applyLogs[k].log", filled || strings.HasPrefix(a, "make([]*Log"), "StoreLogs("+a+")", 1)
	}
	// Log.Index / Log.Term writers in the package
	c.WhoMay(rule, "write Log.Index", c.P.FieldWrites(li), map[string]string{
		"(*Raft).dispatchLogs": "leader append",
		"BootstrapCluster":     "bootstrap entry (index 1, term 1) on an empty store",
	})
	c.WhoMay(rule, "write Log.Term", c.P.FieldWrites(lt), map[string]string{
		"(*Raft).dispatchLogs": "leader append",
		"BootstrapCluster":     "bootstrap entry (index 1, term 1) on an empty store",
	})
}
