package rules

import (
	"fmt"
	"go/types"
	"sort"
	"strings"

	"golang.org/x/tools/go/ssa"

	"verif/lint/engine"
)

func init() {
	register(&Property{
		ID:          "C07",
		Explanation: "Decided for all paths: nextConfiguration rejects a stale prevIndex before doing anything, works only on a fresh Clone() of the current configuration (Clone appends onto a zero slice), changes at most one server entry per call (no path reaches a second mutation; adding is guarded by not-found), validates the result with checkConfiguration and returns the zero value on any error; checkConfiguration returns nil only when every server has a non-empty unique ID and address and at least one server is a Voter; the leader receives membership requests only through configurationChangeChIfStable(), which yields the channel only when latestIndex == committedIndex and commitIndex >= the tracker's startIndex; appendConfigurationEntry dispatches the entry and then installs the same configuration into the tracker, the commitment quorum and replication, in that order; committed-configuration updates are guarded as stated; only a voter of the latest configuration moves to Candidate on timeout; elections, lease and transfer target selection iterate voters only; r.configurations is written only through its two setters, called only from main-loop or start-up functions.",
		NotDecided:  "absence of two uncommitted configurations in any log over all histories (the gate is the mechanism; its sufficiency is the protocol argument), and run-time counting across servers.",
		RuleText:    "C07.R1 single-mutation/clone/validation shape of nextConfiguration; R2 checkConfiguration loop obligations; R3 gate formula and its only use; R4 must-precede chain in appendConfigurationEntry; R5 guards of setCommittedConfiguration sites; R6 voter-only guards; R7 writer tables of r.configurations.",
		Run:         c07,
	})
}

func c07(c *Ctx) {
	c07R1(c, "R1")
	c07R2(c, "R2")
	c07R3(c, "R3")
	c07R4(c, "R4")
	c07R5(c, "R5")
	c07R6(c, "R6")
	c05R1(c, "R6/C05.R1")
	sQuorum(c, "R6/S-QUORUM")
	c07R7(c, "R7")
	sConfigClone(c, "R7/S-CFGCLONE")
	sConfigCodec(c, "R8/S-CFGCODEC")
	c07R9(c, "R9")
	sCommitCoversConfig(c, "R10/S-COMMITCFG")
	c07R11(c, "R11")
	coreCommitBundle(c, "R12", "C05.R1", "S-QUORUM")
	sState(c, "R7/S-STATE")
	c10R1(c, "R13/C10.R1")
	sLockDiscipline(c, "R13/S-LOCK", "commitment")
	sMainOwned(c, "R14/S-OWNER", "configurations", "leaderState")
	// a follower that truncated an uncommitted configuration entry falls back to
	// the committed configuration at once – also when the following StoreLogs
	// fails (round-7 seed C07-M): it must not keep acting on (voting under) a
	// configuration that is in no log
	c04R2(c, "R15/C04.R2")
}

func c07R1(c *Ctx, rule string) {
	fn := c.Fn(rule, "nextConfiguration")
	if fn == nil {
		return
	}
	clones := c.P.CallsIn(fn, engine.Is("(*Configuration).Clone"))
	if len(clones) != 1 {
		c.Bad(rule, "nextConfiguration:clone", c.P.Pos(fn.Pos()), "exactly one Clone() of the current configuration", fmt.Sprintf("%d", len(clones)))
		return
	}
	root := c.CallDesc(clones[0].Instr)
	// mutation sites: stores into the Servers slice or its elements
	isMut := func(in ssa.Instruction) bool {
		st, ok := in.(*ssa.Store)
		if !ok {
			return false
		}
		a := c.P.D(st.Addr)
		return strings.Contains(a, ".Servers")
	}
	r := c.Run(&engine.Automaton{Fn: fn, Tracks: []engine.Track{
		engine.PredRel("hasPrev", "p3.prevIndex", "0", engine.GT),
		engine.PredRel("differs", "p3.prevIndex", "p2", engine.LT|engine.GT),
		engine.Event("cloned", func(in ssa.Instruction) bool { return in == clones[0].Instr }),
		engine.Event("mutated", isMut),
		engine.Event("checked", func(in ssa.Instruction) bool {
			cc := engine.CallCommonOf(in)
			return cc != nil && c.P.CalleeName(cc) == "checkConfiguration" && c.P.Arg(in, 0) == root
		}),
		predErr("checkErr", "checkConfiguration("),
	}})
	c.RequireAt(r, rule, "nextConfiguration:stale-prevIndex-rejected-first", clones[0].Instr, "¬(prevIndex > 0 ∧ prevIndex ≠ currentIndex) before the configuration is even copied", func(v engine.View) bool {
		return v.F("hasPrev") || v.F("differs")
	})
	n := 0
	engine.EachInstr(fn, func(in ssa.Instruction) {
		if !isMut(in) {
			return
		}
		n++
		a := c.P.D(in.(*ssa.Store).Addr)
		rooted := strings.HasPrefix(a, root+".Servers") || strings.HasPrefix(a, "val(range "+root+".Servers)")
		c.RequireAt(r, rule, fmt.Sprintf("nextConfiguration:mutation#%d", n), in,
			"the store goes into the private Clone() (never the caller's configuration) and no other server entry was changed earlier on this path (at most one entry added, removed or modified per change)",
			func(v engine.View) bool { return rooted && v.Seen("cloned") && !v.Seen("mutated") })
	})
	if n < 8 {
		c.Bad(rule, "nextConfiguration:mutation-sites", c.P.Pos(fn.Pos()), "the 8 mutation sites of the five commands", fmt.Sprintf("%d recognised", n))
	}
	// returns
	for i, ret := range engine.ReturnsOf(fn) {
		vals := engine.ReturnValues(ret)
		cfg, errD := c.P.D(vals[0]), c.P.D(vals[1])
		if errD == "nil" {
			c.RequireAt(r, rule, fmt.Sprintf("nextConfiguration:return-ok#%d", i+1), ret, "the clone is returned only after checkConfiguration(clone) returned nil", func(v engine.View) bool {
				return cfg == root && v.Seen("checked") && v.F("checkErr")
			})
		} else {
			c.Check(rule, fmt.Sprintf("nextConfiguration:return-err#%d", i+1), c.P.InstrPos(ret), "errors come with the zero Configuration (a rejected change has no effect)", cfg == "zero(Configuration)", "returns "+cfg, 1)
		}
	}
	// exhaustiveness of the command switch
	if ct := c.P.LookupType("ConfigurationChangeCommand"); ct != nil {
		cases := map[string]bool{}
		engine.EachInstr(fn, func(in ssa.Instruction) {
			if ifi, ok := in.(*ssa.If); ok {
				cd := c.P.CondOf(ifi.Cond)
				if cd.IsRel && cd.X == "p3.command" && cd.EdgeOrd(true) == engine.EQ {
					for _, nm := range strings.Split(cd.Y, "/") {
						cases[nm] = true
					}
				}
			}
		})
		sc := c.P.Pkg.Types.Scope()
		var names []string
		for _, nm := range sc.Names() {
			if k, ok := sc.Lookup(nm).(*types.Const); ok && types.Identical(k.Type(), ct) {
				names = append(names, nm)
			}
		}
		sort.Strings(names)
		for _, nm := range names {
			c.Check(rule, "nextConfiguration:case "+nm, c.P.Pos(fn.Pos()), "every ConfigurationChangeCommand has a case", cases[nm], pick(cases[nm], "case present", "missing"), 1)
		}
	}
	// Clone allocates
	if cf := c.Fn(rule, "(*Configuration).Clone"); cf != nil {
		ok := false
		engine.EachInstr(cf, func(in ssa.Instruction) {
			cc := engine.CallCommonOf(in)
			if cc != nil && c.P.CalleeName(cc) == "builtin:append" && len(cc.Args) == 2 {
				a0 := c.P.D(cc.Args[0])
				if strings.HasPrefix(a0, "var(Configuration)") && strings.HasSuffix(a0, ".Servers") && c.P.D(cc.Args[1]) == "recv.Servers" {
					ok = true
				}
			}
		})
		c.Check(rule, "Configuration.Clone:fresh-backing-array", c.P.Pos(cf.Pos()), "Clone appends the servers onto the zero slice of its fresh result (no aliasing with the source)", ok, pick(ok, "append(copy.Servers(zero), c.Servers...)", "unrecognised body"), 1)
	}
}

func c07R2(c *Ctx, rule string) {
	fn := c.Fn(rule, "checkConfiguration")
	if fn == nil {
		return
	}
	sv := "val(range p1.Servers)"
	var hdr *ssa.If
	var voters ssa.Value
	engine.EachInstr(fn, func(in ssa.Instruction) {
		if ifi, ok := in.(*ssa.If); ok {
			cd := c.P.CondOf(ifi.Cond)
			if cd.IsRel && cd.X == "idx(range)" && cd.Y == "len(p1.Servers)" {
				hdr = ifi
			}
			if cd.IsRel && cd.Y == "0" && cd.EdgeOrd(true) == engine.EQ {
				if _, isPhi := cd.XV.(*ssa.Phi); isPhi {
					voters = cd.XV
				}
			}
		}
	})
	if hdr == nil || voters == nil {
		c.Bad(rule, "checkConfiguration:shape", c.P.Pos(fn.Pos()), "a range over configuration.Servers and a `voters == 0` test", "not recognised")
		return
	}
	isMark := func(typ string) func(ssa.Instruction) bool {
		return func(in ssa.Instruction) bool {
			mu, ok := in.(*ssa.MapUpdate)
			return ok && c.P.D(mu.Map) == "make(map["+typ+"]bool)" && c.P.D(mu.Value) == "true" && strings.HasPrefix(c.P.D(mu.Key), sv+".")
		}
	}
	rb := c.Run(&engine.Automaton{Fn: fn, StartBlock: hdr.Block().Succs[0], StopAt: func(in ssa.Instruction) bool { return in == ssa.Instruction(hdr) }, Tracks: []engine.Track{
		engine.PredRel("emptyID", sv+".ID", `""`, engine.EQ),
		engine.PredRel("emptyAddr", sv+".Address", `""`, engine.EQ),
		engine.PredBool("dupID", DescIs("make(map[ServerID]bool)["+sv+".ID]")),
		engine.PredBool("dupAddr", DescIs("make(map[ServerAddress]bool)["+sv+".Address]")),
		engine.Event("markID", isMark("ServerID")),
		engine.Event("markAddr", isMark("ServerAddress")),
	}})
	c.RequireAt(rb, rule, "checkConfiguration:per-server-checks", hdr, "an iteration completes only for a server with non-empty ID and address that duplicate none seen before, and records both", func(v engine.View) bool {
		return v.F("emptyID") && v.F("emptyAddr") && v.F("dupID") && v.F("dupAddr") && v.Seen("markID") && v.Seen("markAddr")
	})
	incs, ok, why := incrementsOf(voters)
	r := c.Run(&engine.Automaton{Fn: fn, Tracks: []engine.Track{
		engine.PredCond("voter", func(cd engine.Cond) (bool, int) { return voterCond(cd, sv+".Suffrage") }),
		engine.PredRel("none", c.P.D(voters), "0", engine.EQ),
		{Name: "iter", If: func(cd engine.Cond, ifi *ssa.If) (bool, int) { return ifi == hdr, engine.True }, Kills: []string{"voter"}},
	}})
	if !ok || len(incs) == 0 {
		c.Bad(rule, "checkConfiguration:voter-count", c.P.Pos(fn.Pos()), "voters is a counter incremented by 1", why)
	}
	for i, inc := range incs {
		c.RequireAt(r, rule, fmt.Sprintf("checkConfiguration:voter-count#%d", i+1), inc, "counted only under Suffrage == Voter of this iteration's server", func(v engine.View) bool { return v.T("voter") })
	}
	for _, ret := range engine.ReturnsOf(fn) {
		if c.P.D(engine.ReturnValues(ret)[0]) == "nil" {
			c.RequireAt(r, rule, "checkConfiguration:needs-a-voter", ret, "nil only when the loop ran to its end and voters ≠ 0", func(v engine.View) bool { return v.F("none") && v.F("iter") })
		}
	}
}

func c07R3(c *Ctx, rule string) {
	fn := c.Fn(rule, "(*Raft).configurationChangeChIfStable")
	if fn != nil {
		r := c.Run(&engine.Automaton{Fn: fn, Tracks: []engine.Track{
			engine.PredRel("settled", "recv.configurations.latestIndex", "recv.configurations.committedIndex", engine.EQ),
			engine.PredRel("ownTerm", "recv.raftState.getCommitIndex()", "recv.leaderState.commitment.startIndex", engine.GT|engine.EQ),
		}})
		n := 0
		for _, ret := range engine.ReturnsOf(fn) {
			if c.P.D(engine.ReturnValues(ret)[0]) == "recv.configurationChangeCh" {
				n++
				c.RequireAt(r, rule, "configurationChangeChIfStable:gate", ret, "the channel is returned only when latestIndex == committedIndex (previous change committed) ∧ commitIndex >= startIndex (an entry of this leader's term is committed)", func(v engine.View) bool {
					return v.T("settled") && v.T("ownTerm")
				})
			}
		}
		if n == 0 {
			c.Bad(rule, "configurationChangeChIfStable:gate", c.P.Pos(fn.Pos()), "returns r.configurationChangeCh on some path", "never")
		}
	}
	// who receives from configurationChangeCh
	ch := c.Field(rule, "Raft", "configurationChangeCh")
	if ch == nil {
		return
	}
	var direct []engine.Site
	for _, f := range c.P.AllFuncs() {
		for _, op := range c.P.ChanOps(f) {
			if !op.IsSend && engine.ChanField(op.Chan) == ch {
				direct = append(direct, engine.Site{Fn: f, Instr: op.Instr})
			}
		}
	}
	c.WhoMay(rule, "receive directly from Raft.configurationChangeCh", direct, map[string]string{
		"(*Raft).runFollower":  "answers ErrNotLeader",
		"(*Raft).runCandidate": "answers ErrNotLeader",
	})
	// readers of the field (anything that could hand the channel out)
	var readers []engine.Site
	for _, f := range c.P.AllFuncs() {
		engine.EachInstr(f, func(in ssa.Instruction) {
			if fa, ok := in.(*ssa.FieldAddr); ok && engine.FieldOf(fa) == ch {
				readers = append(readers, engine.Site{Fn: f, Instr: in})
			}
		})
	}
	c.WhoMay(rule, "read field Raft.configurationChangeCh", readers, map[string]string{
		"(*Raft).runFollower":                   "reject",
		"(*Raft).runCandidate":                  "reject",
		"(*Raft).configurationChangeChIfStable": "the gate",
		"(*Raft).requestConfigChange":           "API enqueue",
		"NewRaft":                               "creation",
	})
	if ll := c.Fn(rule, "(*Raft).leaderLoop"); ll != nil {
		found := false
		engine.EachInstr(ll, func(in ssa.Instruction) {
			if sel, ok := in.(*ssa.Select); ok {
				for _, st := range sel.States {
					if st.Dir == types.RecvOnly && c.P.D(st.Chan) == "recv.configurationChangeChIfStable()" {
						found = true
					}
				}
			}
		})
		c.Check(rule, "leaderLoop:receives-through-gate", c.P.Pos(ll.Pos()), "the leader's select receives membership requests from configurationChangeChIfStable()", found, pick(found, "case present", "no such case"), 1)
	}
	c.WhoMay(rule, "call (*Raft).configurationChangeChIfStable", c.P.CallsEverywhere(engine.Is("(*Raft).configurationChangeChIfStable")), map[string]string{"(*Raft).leaderLoop": "re-evaluated on every loop iteration"})
	c.WhoMay(rule, "call (*Raft).appendConfigurationEntry", c.P.CallsEverywhere(engine.Is("(*Raft).appendConfigurationEntry")), map[string]string{"(*Raft).leaderLoop": "the gated arm"})
	c.WhoMay(rule, "call nextConfiguration", c.P.CallsEverywhere(engine.Is("nextConfiguration")), map[string]string{"(*Raft).appendConfigurationEntry": "the only producer of new configurations on a running leader"})
	// the gated arm: the future handed to appendConfigurationEntry is the one received through the gate
	if ll := c.P.Fn("(*Raft).leaderLoop"); ll != nil {
		for _, s := range c.P.CallsIn(ll, engine.Is("(*Raft).appendConfigurationEntry")) {
			a := c.P.Arg(s.Instr, 0)
			c.Check(rule, "leaderLoop:gated-future", c.P.InstrPos(s.Instr), "appendConfigurationEntry gets the future received from the gated channel", a == "<-recv.configurationChangeChIfStable()", "argument "+a, 1)
		}
	}
}

func c07R4(c *Ctx, rule string) {
	fn := c.Fn(rule, "(*Raft).appendConfigurationEntry")
	if fn == nil {
		return
	}
	next := c.FirstCall(fn, engine.Is("nextConfiguration"))
	if next == nil {
		c.Bad(rule, "appendConfigurationEntry:next", c.P.Pos(fn.Pos()), "calls nextConfiguration", "no call")
		return
	}
	nd := c.CallDesc(next)
	cfg := nd + "#0"
	a0, a1 := c.P.Arg(next, 0), c.P.Arg(next, 1)
	c.Check(rule, "appendConfigurationEntry:based-on-latest", c.P.InstrPos(next), "nextConfiguration(configurations.latest, configurations.latestIndex, req)", a0 == "recv.configurations.latest" && a1 == "recv.configurations.latestIndex" && c.P.Arg(next, 2) == "p1.req", "nextConfiguration("+a0+", "+a1+", "+c.P.Arg(next, 2)+")", 1)
	r := c.Run(&engine.Automaton{Fn: fn, Tracks: []engine.Track{
		engine.PredRel("nextErr", nd+"#1", "nil", engine.LT|engine.GT),
		engine.Event("dispatched", c.P.IsCallTo(engine.Is("(*Raft).dispatchLogs"))),
		engine.Event("installed", func(in ssa.Instruction) bool {
			cc := engine.CallCommonOf(in)
			return cc != nil && c.P.CalleeName(cc) == "(*Raft).setLatestConfiguration" && c.P.Arg(in, 0) == cfg && c.P.Arg(in, 1) == "p1.logFuture.Index()"
		}),
		engine.Event("quorum", callWithArg0(c, "(*commitment).setConfiguration", cfg)),
		engine.Event("repl", c.P.IsCallTo(engine.Is("(*Raft).startStopReplication"))),
		engine.Event("answered", c.P.IsCallTo(engine.Is("(*deferError).respond"))),
	}})
	for _, s := range c.P.CallsIn(fn, engine.Is("(*Raft).dispatchLogs")) {
		c.RequireAt(r, rule, "appendConfigurationEntry:dispatch-only-valid", s.Instr, "nothing is dispatched when nextConfiguration returned an error", func(v engine.View) bool { return v.F("nextErr") })
	}
	for i, ret := range engine.ReturnsOf(fn) {
		c.RequireAt(r, rule, fmt.Sprintf("appendConfigurationEntry:return#%d", i+1), ret,
			"on error: future answered, nothing dispatched; otherwise dispatchLogs ≺ setLatestConfiguration(cfg, future.Index()) ≺ commitment.setConfiguration(cfg) ≺ startStopReplication, all with the same cfg",
			func(v engine.View) bool {
				if v.T("nextErr") {
					return v.Seen("answered") && !v.Seen("dispatched") && !v.Seen("installed")
				}
				return v.F("nextErr") && v.Seen("dispatched") && v.Seen("installed") && v.Seen("quorum") && v.Seen("repl")
			})
	}
	// order between the four
	order := []struct {
		site func(string) bool
		need []string
		name string
	}{
		{engine.Is("(*Raft).setLatestConfiguration"), []string{"dispatched"}, "install-after-dispatch"},
		{engine.Is("(*commitment).setConfiguration"), []string{"dispatched", "installed"}, "quorum-after-install"},
		{engine.Is("(*Raft).startStopReplication"), []string{"dispatched", "installed", "quorum"}, "replication-after-quorum"},
	}
	for _, o := range order {
		for _, s := range c.P.CallsIn(fn, o.site) {
			need := o.need
			c.RequireAt(r, rule, "appendConfigurationEntry:"+o.name, s.Instr, "order: dispatch, install as latest, update commitment voters, start/stop replication", func(v engine.View) bool {
				for _, n := range need {
					if !v.Seen(n) {
						return false
					}
				}
				return true
			})
		}
	}
	// the entry's payload encodes that same configuration
	okEnc := false
	engine.EachInstr(fn, func(in ssa.Instruction) {
		cc := engine.CallCommonOf(in)
		if cc != nil && (c.P.CalleeName(cc) == "EncodeConfiguration" || c.P.CalleeName(cc) == "encodePeers") && c.P.Arg(in, 0) == cfg {
			okEnc = true
		}
	})
	c.Check(rule, "appendConfigurationEntry:payload", c.P.Pos(fn.Pos()), "the log entry's data encodes the configuration that is installed", okEnc, pick(okEnc, "encodes "+cfg, "payload built from something else"), 1)
}

func c07R5(c *Ctx, rule string) {
	sites := c.P.CallsEverywhere(engine.Is("(*Raft).setCommittedConfiguration"))
	c.WhoMay(rule, "call (*Raft).setCommittedConfiguration", sites, map[string]string{
		"(*Raft).leaderLoop":                   "latest became committed",
		"(*Raft).appendEntries":                "leader's commit index covers the latest configuration",
		"(*Raft).processConfigurationLogEntry": "a newer configuration entry arrives: the previous latest is treated as committed",
		"(*Raft).installSnapshot":              "snapshot's configuration",
		"(*Raft).restoreSnapshot":              "start-up",
		"NewRaft":                              "start-up: the restored commit index covers the latest configuration entry",
	})
	for _, s := range sites {
		name := c.P.Name(s.Fn)
		a0, a1 := c.P.Arg(s.Instr, 0), c.P.Arg(s.Instr, 1)
		latest := a0 == "recv.configurations.latest" && a1 == "recv.configurations.latestIndex"
		switch name {
		case "(*Raft).leaderLoop":
			commit := "recv.leaderState.commitment.getCommitIndex()"
			r := c.Run(&engine.Automaton{Fn: s.Fn, Tracks: []engine.Track{
				engine.Event("loop", isSelect, "above", "covered"),
				engine.PredRel("above", "recv.configurations.latestIndex", "recv.raftState.getCommitIndex()", engine.GT),
				engine.PredRel("covered", "recv.configurations.latestIndex", commit, engine.LT|engine.EQ),
			}})
			c.RequireAt(r, rule, name+":commit-latest", s.Instr, "latestIndex ∈ (old commit index, new commit index] and the value is (latest, latestIndex)", func(v engine.View) bool { return latest && v.T("above") && v.T("covered") })
		case "(*Raft).appendEntries":
			// the new commit index is whatever this handler passes to
			// setCommitIndex (its shape is C05.R4's business)
			idx := ""
			for _, cs := range c.P.CallsIn(s.Fn, engine.Is("(*raftState).setCommitIndex")) {
				idx = c.P.Arg(cs.Instr, 0)
			}
			r := c.Run(&engine.Automaton{Fn: s.Fn, Tracks: []engine.Track{engine.PredRel("covered", "recv.configurations.latestIndex", idx, engine.LT|engine.EQ)}})
			c.RequireAt(r, rule, name+":commit-latest", s.Instr, "latestIndex <= the new commit index and the value is (latest, latestIndex)", func(v engine.View) bool { return latest && v.T("covered") })
		case "NewRaft":
			r := c.Run(&engine.Automaton{Fn: s.Fn, Tracks: []engine.Track{engine.PredRel("covered", "new(Raft).configurations.latestIndex", "new(Raft).raftState.getCommitIndex()", engine.LT|engine.EQ)}})
			isLatest := a0 == "new(Raft).configurations.latest" && a1 == "new(Raft).configurations.latestIndex"
			c.RequireAt(r, rule, name+":commit-latest", s.Instr, "latestIndex <= the (restored) commit index and the value is (latest, latestIndex)", func(v engine.View) bool { return isLatest && v.T("covered") })
		case "(*Raft).processConfigurationLogEntry":
			c.Check(rule, name+":commit-previous-latest", c.P.InstrPos(s.Instr), "value is (latest, latestIndex) – at most one uncommitted configuration is tracked", latest, "("+a0+", "+a1+")", 1)
		}
	}
}

func c07R6(c *Ctx, rule string) {
	if fn := c.Fn(rule, "(*Raft).runFollower"); fn != nil {
		r := c.Run(&engine.Automaton{Fn: fn, Tracks: []engine.Track{
			engine.Event("loop", isSelect, "voter"),
			engine.PredBool("voter", DescIs("hasVote(recv.configurations.latest, recv.localID)")),
		}})
		n := 0
		for _, s := range c.P.CallsIn(fn, engine.Is("(*Raft).setState")) {
			if c.P.Arg(s.Instr, 0) != "Candidate" {
				continue
			}
			n++
			c.RequireAt(r, rule, "runFollower:only-voters-stand", s.Instr, "hasVote(latest configuration, localID) in this iteration", func(v engine.View) bool { return v.T("voter") })
		}
		if n == 0 {
			c.Bad(rule, "runFollower:candidate-transition", c.P.Pos(fn.Pos()), "runFollower moves to Candidate on timeout", "no setState(Candidate)")
		}
	}
	// hasVote means what it says
	if fn := c.Fn(rule, "hasVote"); fn != nil {
		r := c.Run(&engine.Automaton{Fn: fn, Tracks: []engine.Track{
			engine.PredRel("idMatch", "val(range p1.Servers).ID", "p2", engine.EQ),
		}})
		for i, ret := range engine.ReturnsOf(fn) {
			d := c.P.D(engine.ReturnValues(ret)[0])
			switch {
			case d == "false":
				c.Ok(rule, fmt.Sprintf("hasVote:return#%d", i+1), c.P.InstrPos(ret), "false is always safe", "returns false", 1)
			default:
				cd := c.P.CondOf(engine.ReturnValues(ret)[0])
				s, ok := cd.RelOn("val(range p1.Servers).Suffrage", "Voter")
				c.RequireAt(r, rule, fmt.Sprintf("hasVote:return#%d", i+1), ret, "a non-false result is `server.Suffrage == Voter` of the server whose ID matched", func(v engine.View) bool {
					return ok && s == engine.EQ && v.T("idMatch")
				})
			}
		}
	}
	sVoterOnlyBallots(c, rule)
	sv := "val(range recv.configurations.latest.Servers)"
	if fn := c.Fn(rule, "(*Raft).pickServer"); fn != nil {
		// pick is assigned only for voters other than self
		r := c.Run(&engine.Automaton{Fn: fn, Tracks: []engine.Track{
			{Name: "iter", If: func(cd engine.Cond, _ *ssa.If) (bool, int) {
				return cd.IsRel && cd.X == "idx(range)", engine.True
			}, Kills: []string{"self", "nonvoter"}},
			engine.PredRel("self", sv+".ID", "recv.localID", engine.EQ),
			engine.PredRel("nonvoter", sv+".Suffrage", "Voter", engine.LT|engine.GT),
		}})
		n := 0
		retD := ""
		for _, ret := range engine.ReturnsOf(fn) {
			retD += c.P.D(engine.ReturnValues(ret)[0]) + ";"
		}
		engine.EachInstr(fn, func(in ssa.Instruction) {
			if st, ok := in.(*ssa.Store); ok && c.P.TypeStr(st.Val.Type()) == "Server" && strings.Contains(retD, c.P.D(st.Addr)) {
				n++
				c.RequireAt(r, rule, "pickServer:target-is-a-voter", in, "a transfer target is chosen only among voters other than the leader", func(v engine.View) bool { return v.F("self") && v.F("nonvoter") })
			}
		})
		if n == 0 {
			c.Bad(rule, "pickServer:target", c.P.Pos(fn.Pos()), "pickServer copies the chosen server", "no such store")
		}
	}
}

func c07R7(c *Ctx, rule string) {
	setters := map[string][]string{
		"latest": {"(*Raft).setLatestConfiguration"}, "latestIndex": {"(*Raft).setLatestConfiguration"},
		"committed": {"(*Raft).setCommittedConfiguration"}, "committedIndex": {"(*Raft).setCommittedConfiguration"},
	}
	for _, f := range []string{"committed", "committedIndex", "latest", "latestIndex"} {
		fv := c.Field(rule, "configurations", f)
		if fv == nil {
			continue
		}
		var ws []engine.Site
		for _, s := range c.P.FieldWrites(fv) {
			// only writes into the Raft instance's tracker (not into copies)
			if st, ok := s.Instr.(*ssa.Store); ok && strings.HasPrefix(c.P.D(st.Addr), "recv.configurations.") {
				ws = append(ws, s)
			}
		}
		tbl := map[string]string{}
		for _, n := range setters[f] {
			tbl[n] = "the setter"
		}
		c.WhoMay(rule, "write r.configurations."+f, ws, tbl)
	}
	// whole-struct store
	if cf := c.Field(rule, "Raft", "configurations"); cf != nil {
		c.WhoMay(rule, "overwrite Raft.configurations as a whole", c.P.FieldWrites(cf), map[string]string{"NewRaft": "zero value at construction"})
	}
	c.WhoMay(rule, "call (*Raft).setLatestConfiguration", c.P.CallsEverywhere(engine.Is("(*Raft).setLatestConfiguration")), map[string]string{
		"(*Raft).appendConfigurationEntry":     "leader appends a change (main loop)",
		"(*Raft).appendEntries":                "truncation fallback (main loop)",
		"(*Raft).processConfigurationLogEntry": "entry appended / start-up scan (main loop or before goroutines)",
		"(*Raft).installSnapshot":              "snapshot's configuration (main loop)",
		"(*Raft).restoreSnapshot":              "start-up",
	})
	c.WhoMay(rule, "call (*Raft).processConfigurationLogEntry", c.P.CallsEverywhere(engine.Is("(*Raft).processConfigurationLogEntry")), map[string]string{
		"(*Raft).appendEntries": "new entries stored (main loop)",
		"(*Raft).liveBootstrap": "bootstrap entry (main loop, follower)",
		"NewRaft":               "start-up scan",
	})
	// the callers above run on the main loop: they are reachable only from
	// run's state loops / processRPC
	c.WhoMay(rule, "call (*Raft).appendEntries", c.P.CallsEverywhere(engine.Is("(*Raft).appendEntries")), map[string]string{
		"(*Raft).processRPC":       "main loop",
		"(*Raft).processHeartbeat": "transport fast path (documented as main-thread only for heartbeats without entries)",
	})
	c.WhoMay(rule, "call (*Raft).installSnapshot", c.P.CallsEverywhere(engine.Is("(*Raft).installSnapshot")), map[string]string{"(*Raft).processRPC": "main loop"})
	c.WhoMay(rule, "call (*Raft).processRPC", c.P.CallsEverywhere(engine.Is("(*Raft).processRPC")), map[string]string{
		"(*Raft).runFollower": "main loop", "(*Raft).runCandidate": "main loop", "(*Raft).leaderLoop": "main loop",
	})
	c.WhoMay(rule, "call (*Raft).liveBootstrap", c.P.CallsEverywhere(engine.Is("(*Raft).liveBootstrap")), map[string]string{"(*Raft).runFollower": "main loop"})
}

// sVoterOnlyBallots: vote and pre-vote requests, and the candidate's own
// ballot, involve voters of the latest configuration only.
func sVoterOnlyBallots(c *Ctx, rule string) {
	// voter-only iteration in election / lease / transfer-target code
	type vo struct {
		fn     string
		effect func(string) bool
		what   string
	}
	sv := "val(range recv.configurations.latest.Servers)"
	for _, x := range []vo{
		{"(*Raft).preElectSelf", func(n string) bool { return strings.HasPrefix(n, "(*Raft).preElectSelf$askPeer") }, "ask for a pre-vote"},
		{"(*Raft).electSelf", func(n string) bool { return strings.HasPrefix(n, "(*Raft).electSelf$askPeer") }, "ask for a vote"},
	} {
		fn := c.Fn(rule, x.fn)
		if fn == nil {
			continue
		}
		r := c.Run(&engine.Automaton{Fn: fn, Tracks: []engine.Track{engine.PredCond("voter", func(cd engine.Cond) (bool, int) { return voterCond(cd, sv+".Suffrage") })}})
		ss := c.P.CallsIn(fn, x.effect)
		if len(ss) == 0 {
			c.Bad(rule, x.fn+":"+x.what, c.P.Pos(fn.Pos()), x.fn+" does "+x.what, "no site")
		}
		for _, s := range ss {
			c.RequireAt(r, rule, x.fn+":"+x.what+"-voters-only", s.Instr, "Suffrage == Voter", func(v engine.View) bool { return v.T("voter") })
		}
		engine.EachInstr(fn, func(in ssa.Instruction) {
			if _, ok := in.(*ssa.Send); ok {
				c.RequireAt(r, rule, x.fn+":self-ballot-voters-only", in, "the own ballot is cast only as a voter", func(v engine.View) bool { return v.T("voter") })
			}
		})
	}
}

// c07R9: a leader whose newly committed configuration no longer gives it a
// vote (removed OR demoted) gives up leadership in that same pass of the
// commit arm; the test must be about the vote, not mere membership.
func c07R9(c *Ctx, rule string) {
	fn := c.Fn(rule, "(*Raft).leaderLoop")
	if fn == nil {
		return
	}
	var sel *ssa.Select
	commitCase := -1
	engine.EachInstr(fn, func(in ssa.Instruction) {
		if s, ok := in.(*ssa.Select); ok && len(s.States) > 8 {
			for k, st := range s.States {
				if st.Dir == types.RecvOnly && c.P.D(st.Chan) == "recv.leaderState.commitCh" {
					sel, commitCase = s, k
				}
			}
		}
	})
	if sel == nil {
		c.Bad(rule, "leaderLoop:commit-arm", c.P.Pos(fn.Pos()), "a select case receiving from leaderState.commitCh", "not found")
		return
	}
	arm := engine.SelectArmEntry(sel, commitCase)
	if arm == nil {
		c.Bad(rule, "leaderLoop:commit-arm", c.P.InstrPos(sel), "the commit arm's entry block", "not recognised")
		return
	}
	r := c.Run(&engine.Automaton{Fn: fn, StartBlock: arm, StopAt: isSelect, Tracks: []engine.Track{
		engine.Event("newCommitted", c.P.IsCallTo(engine.Is("(*Raft).setCommittedConfiguration")), "voter"),
		engine.PredBool("voter", DescIs("hasVote(recv.configurations.committed, recv.localID)")),
		engine.Event("left", func(in ssa.Instruction) bool {
			cc := engine.CallCommonOf(in)
			if cc == nil {
				return false
			}
			n := c.P.CalleeName(cc)
			return (n == "(*Raft).setState" && c.P.Arg(in, 0) == "Follower") || n == "(*Raft).Shutdown"
		}),
	}})
	n := len(c.P.CallsIn(fn, engine.Is("(*Raft).setCommittedConfiguration")))
	sites := []ssa.Instruction{sel}
	for _, ret := range engine.ReturnsOf(fn) {
		sites = append(sites, ret)
	}
	for i, s := range sites {
		if len(r.StatesAt(s)) == 0 {
			continue
		}
		c.RequireAt(r, rule, fmt.Sprintf("leaderLoop:leader-without-vote-leaves#%d", i+1), s, "once a configuration was marked committed in the commit arm, hasVote(committed, localID) was evaluated on the new value, and when it is false the pass ends with setState(Follower) or Shutdown before the next select", func(v engine.View) bool {
			if !v.Seen("newCommitted") {
				return true
			}
			return v.T("voter") || (v.F("voter") && v.Seen("left"))
		})
	}
	if n == 0 {
		c.Bad(rule, "leaderLoop:marks-committed", c.P.Pos(fn.Pos()), "the commit arm calls setCommittedConfiguration", "no call")
	}
}

// c07R11: the public membership API builds the request the caller asked for:
// each wrapper sets its own command constant, the caller's server ID (and
// address) and the caller's prevIndex, and hands the request to
// requestConfigChange, which queues exactly that request on
// configurationChangeCh. (AddNonvoter building an AddVoter request would make
// a "non-voter" count towards quorum.)
func c07R11(c *Ctx, rule string) {
	type w struct {
		fn, cmd       string
		id, addr, prv string
	}
	for _, x := range []w{
		{"(*Raft).AddVoter", "AddVoter", "p1", "p2", "p3"},
		{"(*Raft).AddNonvoter", "AddNonvoter", "p1", "p2", "p3"},
		{"(*Raft).RemoveServer", "RemoveServer", "p1", "", "p2"},
		{"(*Raft).DemoteVoter", "DemoteVoter", "p1", "", "p2"},
	} {
		fn := c.Fn(rule, x.fn)
		if fn == nil {
			continue
		}
		got := map[string]string{}
		for _, f := range []string{"command", "serverID", "serverAddress", "prevIndex"} {
			fld := c.P.LookupField("configurationChangeRequest", f)
			if fld == nil {
				c.Bad(rule, "anchor:configurationChangeRequest."+f, "-", "field exists", "not found")
				continue
			}
			for _, ws := range c.P.FieldWritesIn(fn, fld) {
				v, _ := c.P.StoredValue(ws.Instr, fld)
				got[f] = c.P.D(v)
			}
		}
		ok := got["command"] == x.cmd && got["serverID"] == x.id && got["prevIndex"] == x.prv && got["serverAddress"] == x.addr
		handed := false
		for _, s := range c.P.CallsIn(fn, engine.Is("(*Raft).requestConfigChange")) {
			handed = strings.HasPrefix(c.P.Arg(s.Instr, 0), "new(configurationChangeRequest)")
		}
		c.Check(rule, x.fn+":builds-its-own-request", c.P.Pos(fn.Pos()), "the request carries this API's command, the caller's server and prevIndex, and is handed to requestConfigChange", ok && handed, fmt.Sprintf("command=%s serverID=%s serverAddress=%s prevIndex=%s", got["command"], got["serverID"], got["serverAddress"], got["prevIndex"]), 1)
	}
	if fn := c.Fn(rule, "(*Raft).requestConfigChange"); fn != nil {
		okReq := false
		if f := c.P.LookupField("configurationChangeFuture", "req"); f != nil {
			for _, ws := range c.P.FieldWritesIn(fn, f) {
				v, _ := c.P.StoredValue(ws.Instr, f)
				okReq = c.P.D(v) == "p1"
			}
		}
		okSend := false
		engine.EachInstr(fn, func(in ssa.Instruction) {
			if sel, ok := in.(*ssa.Select); ok {
				for _, st := range sel.States {
					if st.Dir == types.SendOnly && c.P.D(st.Chan) == "recv.configurationChangeCh" && strings.HasPrefix(c.P.D(st.Send), "new(configurationChangeFuture)") {
						okSend = true
					}
				}
			}
		})
		c.Check(rule, "requestConfigChange:queues-the-request", c.P.Pos(fn.Pos()), "the future queued on configurationChangeCh carries the request passed in", okReq && okSend, fmt.Sprintf("req=p1: %v, queued: %v", okReq, okSend), 1)
	}
}
