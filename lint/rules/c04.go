package rules

import (
	"fmt"
	"strings"

	"golang.org/x/tools/go/ssa"

	"verif/lint/engine"
)

func init() {
	register(&Property{
		ID:          "C04",
		Explanation: "Decided for all paths of the follower handler and the leader's request builder: Success=true is stored only when PrevLogEntry == 0 or PrevLogTerm equals the term of our entry at PrevLogEntry, that term being either the cached tail's (only when PrevLogEntry equals the cached last index) or read with GetLog(PrevLogEntry) (error → reject); in the entries loop an entry is skipped only when the stored entry at its index was read and has the same term, the log is truncated exactly from the first conflicting entry and what is appended is the suffix of the request from that same position (or from the first entry beyond our last index), StoreLogs gets exactly that suffix and the last-log marker its last element; the leader fills PrevLogEntry/PrevLogTerm from one source pair per case and sends a gap-free run of entries starting at nextIndex; the leader appends at last+1 in its own term.",
		NotDecided:  "pairwise equality of two servers' logs at run time (the induction over message histories is not performed); what LogStore implementations return.",
		RuleText:    "C04.R1 guard + phi-edge provenance of the compared term; R2 per-iteration automaton on the entries loop and slice provenance; R3 source pairs in setPreviousLog; R4 loop shape of setNewLogs; R5 = C03.R7; R6 S-STALE for appendEntries.",
		Run:         c04,
	})
}

func c04(c *Ctx) {
	c04R1(c, "R1")
	c04R2(c, "R2")
	c04R3(c, "R3")
	c04R4(c, "R4")
	c03R7(c, "R5")
	sStale(c, "R6/S-STALE", "(*Raft).appendEntries")
	sState(c, "R7/S-STATE")
	sMatch(c, "R8/S-MATCH")
	c19p(c, "R9/C19.")
	sLockDiscipline(c, "R10/S-LOCK", "raftState", "LogCache")
	coreCommitBundle(c, "R11", "S-MATCH")
	c06R4(c, "R11/C06.R4")
	sHeartbeatFastPath(c, "R12/S-FASTPATH")
	sStoreWriters(c, "R13/S-WRITERS")
}

// prevCheckTracks: tracks of the previous-entry check in appendEntries.
func prevCheckTracks(c *Ctx) []engine.Track {
	return []engine.Track{
		engine.PredRel("hasPrev", "p2.PrevLogEntry", "0", engine.GT),
		engine.PredRel("prevIsTail", "p2.PrevLogEntry", "recv.raftState.getLastEntry()#0", engine.EQ),
		engine.Event("readPrev", func(in ssa.Instruction) bool {
			cc := engine.CallCommonOf(in)
			return cc != nil && c.P.CalleeName(cc) == "iface:LogStore.GetLog" && c.P.Arg(in, 0) == "p2.PrevLogEntry"
		}),
		predErr("readPrevErr", "recv.logs.GetLog(p2.PrevLogEntry"),
		engine.PredCond("prevMismatch", func(cd engine.Cond) (bool, int) {
			if !cd.IsRel {
				return false, 0
			}
			if cd.X != "p2.PrevLogTerm" && cd.Y != "p2.PrevLogTerm" {
				return false, 0
			}
			s := cd.EdgeOrd(true)
			if isNE(s) {
				return true, engine.True
			}
			if s == engine.EQ {
				return true, engine.False
			}
			return false, 0
		}),
	}
}

func prevChecked(v engine.View) bool {
	return v.F("hasPrev") || (v.T("hasPrev") && v.F("prevMismatch"))
}

func c04R1(c *Ctx, rule string) {
	fn := c.Fn(rule, "(*Raft).appendEntries")
	succ := c.Field(rule, "AppendEntriesResponse", "Success")
	if fn == nil || succ == nil {
		return
	}
	r := c.Run(&engine.Automaton{Fn: fn, Tracks: prevCheckTracks(c)})
	ss := c.StoresOfConst(fn, succ, true)
	if len(ss) == 0 {
		c.Bad(rule, "appendEntries:success-store", c.P.Pos(fn.Pos()), "a store Success=true", "none")
	}
	for _, s := range ss {
		c.RequireAt(r, rule, "appendEntries:success-needs-prev-check", s.Instr, "PrevLogEntry == 0 ∨ PrevLogTerm == term of our entry at PrevLogEntry", prevChecked)
	}
	// every effect on the log/commit also needs the check
	for _, callee := range []string{"iface:LogStore.StoreLogs", "iface:LogStore.DeleteRange", "(*raftState).setCommitIndex", "(*Raft).processLogs", "(*raftState).setLastLog", "(*Raft).setCommittedConfiguration"} {
		for _, s := range c.P.CallsIn(fn, engine.Is(callee)) {
			c.RequireAt(r, rule, "appendEntries:"+callee+"-needs-prev-check", s.Instr, "the previous-entry check passed before the log or the commit index is touched", prevChecked)
		}
	}
	// provenance of the compared term
	var cmp *ssa.If
	var other ssa.Value
	engine.EachInstr(fn, func(in ssa.Instruction) {
		if ifi, ok := in.(*ssa.If); ok {
			cd := c.P.CondOf(ifi.Cond)
			if cd.IsRel && cd.X == "p2.PrevLogTerm" {
				cmp, other = ifi, cd.YV
			} else if cd.IsRel && cd.Y == "p2.PrevLogTerm" {
				cmp, other = ifi, cd.XV
			}
		}
	})
	if cmp == nil {
		c.Bad(rule, "appendEntries:prev-term-comparison", c.P.Pos(fn.Pos()), "a comparison of a.PrevLogTerm with our term at PrevLogEntry", "none")
		return
	}
	ph, ok := other.(*ssa.Phi)
	if !ok {
		c.Bad(rule, "appendEntries:prev-term-source", c.P.InstrPos(cmp), "our term is chosen between the cached tail and the stored entry", "compared with "+c.P.D(other))
		return
	}
	var readDst string
	for _, s := range c.P.CallsIn(fn, engine.Is("iface:LogStore.GetLog")) {
		if c.P.Arg(s.Instr, 0) == "p2.PrevLogEntry" {
			readDst = c.P.Arg(s.Instr, 1)
		}
	}
	for i, e := range ph.Edges {
		d := c.P.D(e)
		pred := ph.Block().Preds[i]
		states := r.EdgeStates(pred, ph.Block())
		switch {
		case d == "recv.raftState.getLastEntry()#1":
			bad := ""
			for _, v := range states {
				if !v.T("prevIsTail") {
					bad = "tail term used although PrevLogEntry == cached last index was not established: {" + v.String() + "}"
				}
			}
			c.Check(rule, "appendEntries:prev-term-from-cached-tail", c.P.InstrPos(cmp), "the cached tail's term is used only when PrevLogEntry equals the cached tail's index (same getLastEntry() call)", bad == "", pick(bad == "", fmt.Sprintf("%d edge states", len(states)), bad), len(states))
		case readDst != "" && d == readDst+".Term":
			bad := ""
			for _, v := range states {
				if !(v.Seen("readPrev") && v.F("readPrevErr")) {
					bad = "stored term used without a successful GetLog(PrevLogEntry): {" + v.String() + "}"
				}
			}
			c.Check(rule, "appendEntries:prev-term-from-store", c.P.InstrPos(cmp), "otherwise the term is that of the entry read with GetLog(a.PrevLogEntry, &x), read errors rejected", bad == "", pick(bad == "", fmt.Sprintf("%d edge states", len(states)), bad), len(states))
		default:
			c.Bad(rule, "appendEntries:prev-term-source#"+fmt.Sprint(i), c.P.InstrPos(cmp), "term comes from getLastEntry() or GetLog(PrevLogEntry)", "unexpected source "+d)
		}
	}
}

func c04R2(c *Ctx, rule string) {
	fn := c.Fn(rule, "(*Raft).appendEntries")
	if fn == nil {
		return
	}
	entry := "val(range p2.Entries)"
	tracks := truncationTracks(c)
	// loop header
	var hdr *ssa.If
	engine.EachInstr(fn, func(in ssa.Instruction) {
		if ifi, ok := in.(*ssa.If); ok {
			cd := c.P.CondOf(ifi.Cond)
			if cd.IsRel && cd.X == "idx(range)" && cd.Y == "len(p2.Entries)" {
				hdr = ifi
			}
		}
	})
	if hdr == nil {
		c.Bad(rule, "appendEntries:entries-loop", c.P.Pos(fn.Pos()), "a range loop over a.Entries", "not found")
		return
	}
	// (a) skip: coming back to the loop test from the body
	rb := c.Run(&engine.Automaton{Fn: fn, StartBlock: hdr.Block().Succs[0], Tracks: tracks, StopAt: func(in ssa.Instruction) bool { return in == ssa.Instruction(hdr) }})
	c.RequireAt(rb, rule, "appendEntries:skip-only-identical-entries", hdr, "an entry is skipped only if it is not beyond our log, the stored entry at its index was read without error and the terms are equal (and nothing was deleted)", func(v engine.View) bool {
		return v.F("beyond") && v.Seen("read") && v.F("readErr") && v.F("conflict") && !v.Seen("deleted")
	})
	// (b) the suffix taken
	r := c.Run(&engine.Automaton{Fn: fn, Tracks: tracks})
	var slices []*ssa.Slice
	engine.EachInstr(fn, func(in ssa.Instruction) {
		if sl, ok := in.(*ssa.Slice); ok && c.P.D(sl.X) == "p2.Entries" {
			slices = append(slices, sl)
		}
	})
	if len(slices) != 2 {
		c.Bad(rule, "appendEntries:suffix-sites", c.P.Pos(fn.Pos()), "two places take a suffix of a.Entries (beyond our log / after truncation)", fmt.Sprintf("%d found", len(slices)))
	}
	for i, sl := range slices {
		lowOK := sl.Low != nil && c.P.D(sl.Low) == "idx(range)" && sl.High == nil
		c.RequireAt(r, rule, fmt.Sprintf("appendEntries:suffix#%d", i+1), sl,
			"newEntries = a.Entries[i:] with i the current position, taken either because entry i is beyond our last log index or right after the successful truncation at entry i",
			func(v engine.View) bool {
				if !lowOK {
					return false
				}
				return v.T("beyond") || (v.F("beyond") && v.T("conflict") && v.Seen("deleted") && v.F("delErr"))
			})
	}
	// (c) what is stored / published
	var newEntries ssa.Value
	for _, s := range c.P.CallsIn(fn, engine.Is("iface:LogStore.StoreLogs")) {
		newEntries = engine.ArgValue(s.Instr, 0)
		ok := false
		if ph, isPhi := newEntries.(*ssa.Phi); isPhi {
			ok = true
			for _, e := range ph.Edges {
				isSl := false
				for _, sl := range slices {
					if e == ssa.Value(sl) {
						isSl = true
					}
				}
				if !isSl && c.P.D(e) != "nil" {
					ok = false
				}
			}
		}
		c.Check(rule, "appendEntries:stores-exactly-the-suffix", c.P.InstrPos(s.Instr), "StoreLogs gets newEntries, which is nil or one of the two suffixes", ok, "StoreLogs("+c.P.D(newEntries)+")", 1)
	}
	if newEntries != nil {
		ne := c.P.D(newEntries)
		for _, s := range c.P.CallsIn(fn, engine.Is("(*raftState).setLastLog")) {
			a0, a1 := c.P.Arg(s.Instr, 0), c.P.Arg(s.Instr, 1)
			want := ne + "[(len(" + ne + ") - 1)]"
			c.Check(rule, "appendEntries:last-log-is-last-stored", c.P.InstrPos(s.Instr), "setLastLog(index, term of the last element of newEntries)", a0 == want+".Index" && a1 == want+".Term", "setLastLog("+a0+", "+a1+")", 1)
		}
	}
	// (d) truncation falls back to the committed configuration
	for _, s := range c.P.CallsIn(fn, engine.Is("(*Raft).setLatestConfiguration")) {
		a0, a1 := c.P.Arg(s.Instr, 0), c.P.Arg(s.Instr, 1)
		rr := c.Run(&engine.Automaton{Fn: fn, Tracks: append(truncationTracks(c),
			engine.PredRel("cfgCut", entry+".Index", "recv.configurations.latestIndex", engine.LT|engine.EQ))})
		c.RequireAt(rr, rule, "appendEntries:config-fallback-after-truncation", s.Instr, "after a successful truncation at or below latestIndex the latest configuration reverts to the committed one", func(v engine.View) bool {
			return v.Seen("deleted") && v.F("delErr") && v.T("cfgCut") && a0 == "recv.configurations.committed" && a1 == "recv.configurations.committedIndex"
		})
	}
}

func c04R3(c *Ctx, rule string) {
	fn := c.Fn(rule, "(*Raft).setPreviousLog")
	pe := c.Field(rule, "AppendEntriesRequest", "PrevLogEntry")
	pt := c.Field(rule, "AppendEntriesRequest", "PrevLogTerm")
	if fn == nil || pe == nil || pt == nil {
		return
	}
	var logDst string
	for _, s := range c.P.CallsIn(fn, engine.Is("iface:LogStore.GetLog")) {
		if c.P.Arg(s.Instr, 0) == "(p2 - 1)" {
			logDst = c.P.Arg(s.Instr, 1)
		}
	}
	snap := "recv.raftState.getLastSnapshot()"
	pairs := map[string]string{"0": "0", snap + "#0": snap + "#1", logDst + ".Index": logDst + ".Term"}
	storeOf := func(f string, val string) func(ssa.Instruction) bool {
		fld := pe
		if f == "t" {
			fld = pt
		}
		return func(in ssa.Instruction) bool {
			v, ok := c.P.StoredValue(in, fld)
			return ok && c.P.D(v) == val && strings.HasPrefix(c.P.D(in.(*ssa.Store).Addr), "p1.")
		}
	}
	tracks := []engine.Track{
		engine.PredRel("first", "p2", "1", engine.EQ),
		engine.PredRel("atSnap", "(p2 - 1)", snap+"#0", engine.EQ),
		engine.Event("read", func(in ssa.Instruction) bool {
			cc := engine.CallCommonOf(in)
			return cc != nil && c.P.CalleeName(cc) == "iface:LogStore.GetLog" && c.P.Arg(in, 0) == "(p2 - 1)"
		}),
		predErr("readErr", "recv.logs.GetLog((p2 - 1)"),
		engine.Event("e0", storeOf("e", "0")), engine.Event("t0", storeOf("t", "0")),
		engine.Event("eS", storeOf("e", snap+"#0")), engine.Event("tS", storeOf("t", snap+"#1")),
		engine.Event("eL", storeOf("e", logDst+".Index")), engine.Event("tL", storeOf("t", logDst+".Term")),
	}
	r := c.Run(&engine.Automaton{Fn: fn, Tracks: tracks})
	// every store of either field writes one of the known sources
	for _, f := range []struct {
		fld  string
		name string
	}{{"PrevLogEntry", "e"}, {"PrevLogTerm", "t"}} {
		fv := pe
		if f.name == "t" {
			fv = pt
		}
		for _, s := range c.P.FieldWritesIn(fn, fv) {
			v, _ := c.P.StoredValue(s.Instr, fv)
			d := c.P.D(v)
			known := false
			for k, t := range pairs {
				if (f.name == "e" && d == k) || (f.name == "t" && d == t) {
					known = true
				}
			}
			c.Check(rule, "setPreviousLog:"+f.fld+"-source", c.P.InstrPos(s.Instr), f.fld+" is 0, the last snapshot's, or the entry read at nextIndex-1", known, "= "+d, 1)
		}
	}
	n := 0
	for _, ret := range engine.ReturnsOf(fn) {
		if c.P.D(engine.ReturnValues(ret)[0]) != "nil" {
			continue
		}
		n++
		c.RequireAt(r, rule, "setPreviousLog:consistent-pair", ret,
			"on success exactly one case applies and both fields come from the same source: (0,0) iff nextIndex==1; the last snapshot's (index,term) iff nextIndex-1 is the snapshot index; else the (Index,Term) of the entry read at nextIndex-1 without error",
			func(v engine.View) bool {
				zero := v.Seen("e0") && v.Seen("t0")
				snp := v.Seen("eS") && v.Seen("tS")
				lg := v.Seen("eL") && v.Seen("tL")
				any := func(names ...string) bool {
					for _, nm := range names {
						if v.Seen(nm) {
							return true
						}
					}
					return false
				}
				switch {
				case v.T("first"):
					return zero && !any("eS", "tS", "eL", "tL")
				case v.F("first") && v.T("atSnap"):
					return snp && !any("e0", "t0", "eL", "tL")
				case v.F("first") && v.F("atSnap"):
					return lg && v.Seen("read") && v.F("readErr") && !any("e0", "t0", "eS", "tS")
				}
				return false
			})
	}
	if n == 0 {
		c.Bad(rule, "setPreviousLog:success-return", c.P.Pos(fn.Pos()), "a return nil", "none")
	}
	// setupAppendEntries passes the same nextIndex to both helpers, errors returned
	if sf := c.Fn(rule, "(*Raft).setupAppendEntries"); sf != nil {
		rr := c.Run(&engine.Automaton{Fn: sf, Tracks: []engine.Track{
			engine.Event("prev", func(in ssa.Instruction) bool {
				cc := engine.CallCommonOf(in)
				return cc != nil && c.P.CalleeName(cc) == "(*Raft).setPreviousLog" && c.P.Arg(in, 0) == "p2" && c.P.Arg(in, 1) == "p3"
			}),
			predErr("prevErr", "recv.setPreviousLog("),
			engine.Event("logs", func(in ssa.Instruction) bool {
				cc := engine.CallCommonOf(in)
				return cc != nil && c.P.CalleeName(cc) == "(*Raft).setNewLogs" && c.P.Arg(in, 0) == "p2" && c.P.Arg(in, 1) == "p3" && c.P.Arg(in, 2) == "p4"
			}),
			predErr("logsErr", "recv.setNewLogs("),
		}})
		for _, ret := range engine.ReturnsOf(sf) {
			if c.P.D(engine.ReturnValues(ret)[0]) == "nil" {
				c.RequireAt(rr, rule, "setupAppendEntries:prev-and-entries-from-same-nextIndex", ret, "setPreviousLog(req, nextIndex) and setNewLogs(req, nextIndex, lastIndex) both succeeded on the same request and nextIndex",
					func(v engine.View) bool { return v.Seen("prev") && v.F("prevErr") && v.Seen("logs") && v.F("logsErr") })
			}
		}
		if f := c.Field(rule, "AppendEntriesRequest", "LeaderCommitIndex"); f != nil {
			for _, s := range c.P.FieldWritesIn(sf, f) {
				v, _ := c.P.StoredValue(s.Instr, f)
				c.Check(rule, "setupAppendEntries:leader-commit", c.P.InstrPos(s.Instr), "LeaderCommitIndex = getCommitIndex()", c.P.D(v) == "recv.raftState.getCommitIndex()", "= "+c.P.D(v), 1)
			}
		}
	}
}

func c04R4(c *Ctx, rule string) {
	fn := c.Fn(rule, "(*Raft).setNewLogs")
	if fn == nil {
		return
	}
	var idx *ssa.Phi
	var readDst ssa.Value
	var getLog ssa.Instruction
	for _, s := range c.P.CallsIn(fn, engine.Is("iface:LogStore.GetLog")) {
		if ph, ok := engine.ArgValue(s.Instr, 0).(*ssa.Phi); ok {
			idx, getLog = ph, s.Instr
			readDst = engine.ArgValue(s.Instr, 1)
		}
	}
	if idx == nil {
		c.Bad(rule, "setNewLogs:loop", c.P.Pos(fn.Pos()), "entries are read with GetLog(i, …) in a counting loop", "not recognised")
		return
	}
	startOK, stepOK := false, false
	for _, e := range idx.Edges {
		if b, ok := e.(*ssa.BinOp); ok && b.X == ssa.Value(idx) {
			if k, ok := b.Y.(*ssa.Const); ok && b.Op.String() == "+" && k.Int64() == 1 {
				stepOK = true
			}
			continue
		}
		if c.P.D(e) == "p2" {
			startOK = true
		}
	}
	c.Check(rule, "setNewLogs:contiguous-from-nextIndex", c.P.InstrPos(getLog), "the loop starts at nextIndex and advances by 1", startOK && stepOK && len(idx.Edges) == 2, "index = "+c.P.D(idx), 1)
	// bound
	boundOK := false
	var bound string
	engine.EachInstr(fn, func(in ssa.Instruction) {
		if ifi, ok := in.(*ssa.If); ok {
			cd := c.P.CondOf(ifi.Cond)
			if cd.IsRel && cd.YV == ssa.Value(idx) {
				cd = cd.Flipped()
			}
			if cd.IsRel && cd.XV == ssa.Value(idx) && cd.EdgeOrd(true) == engine.LT|engine.EQ {
				bound = cd.Y
				boundOK = strings.HasPrefix(cd.Y, "min(") && strings.HasSuffix(cd.Y, ", p3)")
			}
		}
	})
	c.Check(rule, "setNewLogs:bounded-by-lastIndex", c.P.InstrPos(getLog), "the loop runs while i <= min(…, lastIndex)", boundOK, "bound "+bound, 1)
	// every read error returns; every successful read is appended, in order
	r := c.Run(&engine.Automaton{Fn: fn, StartBlock: getLog.Block(), Tracks: []engine.Track{
		predErr("readErr", "recv.logs.GetLog("),
		engine.Event("appended", func(in ssa.Instruction) bool {
			cc := engine.CallCommonOf(in)
			if cc == nil || c.P.CalleeName(cc) != "builtin:append" || len(cc.Args) != 2 {
				return false
			}
			return c.P.D(cc.Args[0]) == "p1.Entries"
		}),
	}, StopAt: func(in ssa.Instruction) bool {
		ifi, ok := in.(*ssa.If)
		return ok && c.P.CondOf(ifi.Cond).XV == ssa.Value(idx)
	}})
	engine.EachInstr(fn, func(in ssa.Instruction) {
		ifi, ok := in.(*ssa.If)
		if ok && c.P.CondOf(ifi.Cond).XV == ssa.Value(idx) {
			c.RequireAt(r, rule, "setNewLogs:no-gaps", ifi, "an iteration continues only after its entry was read without error and appended to req.Entries", func(v engine.View) bool { return v.F("readErr") && v.Seen("appended") })
		}
	})
	// the appended element is the entry just read
	okElem := false
	engine.EachInstr(fn, func(in ssa.Instruction) {
		if st, ok := in.(*ssa.Store); ok && st.Val == readDst && strings.HasPrefix(c.P.D(st.Addr), "new([1]*Log)") {
			okElem = true
		}
	})
	c.Check(rule, "setNewLogs:appends-the-read-entry", c.P.InstrPos(getLog), "the element appended is the Log that GetLog just filled", okElem, pick(okElem, "varargs element is the read destination", "appended element is something else"), 1)
}
