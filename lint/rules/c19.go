package rules

import (
	"fmt"
	"strings"

	"golang.org/x/tools/go/ssa"

	"verif/lint/engine"
)

func init() {
	register(&Property{
		ID:          "C19",
		Explanation: "Decided by an inductive invariant whose five proof obligations are structural and checked on all paths. Invariant I: every non-nil cache slot holds a *Log that the backend accepted as the latest write at slot.Index, and no later backend delete covers it. Obligations: (1) the cache slice and its elements are written only by NewLogCache, StoreLogs and DeleteRange; (2) StoreLogs fills slots only after the backend's StoreLogs returned nil, for every log of the batch, at slot l.Index % len(cache) with that very l; (3) DeleteRange replaces the whole cache by a fresh slice on every path, whatever the backend answers; (4) GetLog returns the cached copy only when the slot is non-nil and its Index equals the requested index (same slot expression), otherwise the backend's answer unchanged; (5) FirstIndex/LastIndex/IsMonotonic are pass-through and capacity <= 0 is rejected (no modulo by zero).",
		NotDecided:  "backend atomicity (a backend StoreLogs that fails after writing a prefix), callers mutating a *Log after storing it, and equality of error values (StoreLogs wraps the backend error).",
		Assumptions: []string{"backend StoreLogs is all-or-nothing on error", "callers do not mutate a *Log after handing it to StoreLogs"},
		RuleText:    "C19.R1 writer tables; R2 success-checked must-precede + slot/value descriptors; R3 reset-before-return; R4 guard of the cached return; R5 pass-through returns and capacity guard.",
		Run:         c19,
	})
}

func c19(c *Ctx) {
	c19p(c, "")
	sLockDiscipline(c, "R6/S-LOCK", "LogCache")
}

// c19p runs the LogCache rules under a rule-name prefix (shared into C04:
// the follower's previous-entry check and conflict scan read through the cache).
func c19p(c *Ctx, pfx string) {
	cache := c.Field(pfx+"R1", "LogCache", "cache")
	if cache == nil {
		return
	}
	// R1
	c.WhoMay(pfx+"R1", "write LogCache.cache", c.P.FieldWrites(cache), map[string]string{
		"NewLogCache":             "allocation",
		"(*LogCache).DeleteRange": "wholesale reset",
	})
	var elemStores []engine.Site
	for _, fn := range c.P.AllFuncs() {
		engine.EachInstr(fn, func(in ssa.Instruction) {
			st, ok := in.(*ssa.Store)
			if !ok {
				return
			}
			if ia, ok := st.Addr.(*ssa.IndexAddr); ok {
				if u, ok := ia.X.(*ssa.UnOp); ok {
					if fa, ok := u.X.(*ssa.FieldAddr); ok && engine.FieldOf(fa) == cache {
						elemStores = append(elemStores, engine.Site{Fn: fn, Instr: in})
					}
				}
			}
		})
	}
	c.WhoMay(pfx+"R1", "store into a slot of LogCache.cache", elemStores, map[string]string{"(*LogCache).StoreLogs": "fill after a successful backend write"})
	esc := c.P.AddrEscapes(cache)
	c.Check(pfx+"R1", "LogCache.cache:no-alias", "-", "the cache slice's address does not escape", len(esc) == 0, fmt.Sprintf("%d escaping uses", len(esc)), 1)

	// R2
	if fn := c.Fn(pfx+"R2", "(*LogCache).StoreLogs"); fn != nil {
		r := c.Run(&engine.Automaton{Fn: fn, Tracks: []engine.Track{
			engine.Event("backend", func(in ssa.Instruction) bool {
				cc := engine.CallCommonOf(in)
				return cc != nil && c.P.CalleeName(cc) == "iface:LogStore.StoreLogs" && c.P.D(cc.Value) == "recv.store" && c.P.Arg(in, 0) == "p1"
			}),
			predErr("backendErr", "recv.store.StoreLogs("),
			engine.Event("locked", c.P.IsCallTo(engine.Is("(*sync.RWMutex).Lock"))),
		}})
		for _, s := range elemStores {
			if s.Fn != fn {
				continue
			}
			st := s.Instr.(*ssa.Store)
			ad, vd := c.P.D(st.Addr), c.P.D(st.Val)
			slotOK := ad == "recv.cache[(val(range p1).Index % len(recv.cache))]" && vd == "val(range p1)"
			c.RequireAt(r, pfx+"R2", "StoreLogs:fill-after-backend-success", s.Instr, "the backend accepted exactly this batch (StoreLogs(logs) == nil) before any slot is filled; slot l.Index % len(cache) receives that l; under the write lock", func(v engine.View) bool {
				return slotOK && v.Seen("backend") && v.F("backendErr") && v.Seen("locked")
			})
		}
		rangeBodyAlways(c, pfx+"R2", fn, "StoreLogs:every-log-cached", "p1", func(in ssa.Instruction) bool {
			for _, s := range elemStores {
				if s.Instr == in {
					return true
				}
			}
			return false
		}, "every log of the accepted batch overwrites its slot (a stale entry of the same slot never survives a rewrite of that index)")
		for _, ret := range engine.RawReturnsOf(fn) {
			d := c.P.D(engine.ReturnValues(ret)[0])
			c.RequireAt(r, pfx+"R2", "StoreLogs:return "+pick(d == "nil", "nil", "error"), ret, "nil iff the backend returned nil", func(v engine.View) bool {
				if d == "nil" {
					return v.Seen("backend") && v.F("backendErr")
				}
				return v.T("backendErr")
			})
		}
	}
	if fn := c.Fn(pfx+"R2", "(*LogCache).StoreLog"); fn != nil {
		ok := false
		for _, s := range c.P.CallsIn(fn, engine.Is("(*LogCache).StoreLogs")) {
			ok = strings.HasPrefix(c.P.Arg(s.Instr, 0), "new([1]*Log)")
			engine.EachInstr(fn, func(in ssa.Instruction) {
				if st, isSt := in.(*ssa.Store); isSt && strings.HasPrefix(c.P.D(st.Addr), "new([1]*Log)") && c.P.D(st.Val) != "p1" {
					ok = false
				}
			})
		}
		rets := engine.RawReturnsOf(fn)
		for _, rt := range rets {
			d := c.P.D(engine.ReturnValues(rt)[0])
			if !strings.HasPrefix(d, "recv.StoreLogs(") && !(d == "nil" && len(rets) > 1) {
				ok = false
			}
		}
		ok = ok && len(rets) >= 1 && len(c.P.CallsIn(fn, engine.Is("(*LogCache).StoreLogs"))) == 1
		c.Check(pfx+"R2", "StoreLog:delegates", c.P.Pos(fn.Pos()), "StoreLog(l) = StoreLogs([]*Log{l})", ok, pick(ok, "delegates", "does something else"), 1)
	}

	// R3
	if fn := c.Fn(pfx+"R3", "(*LogCache).DeleteRange"); fn != nil {
		r := c.Run(&engine.Automaton{Fn: fn, Tracks: []engine.Track{
			engine.Event("reset", func(in ssa.Instruction) bool {
				v, ok := c.P.StoredValue(in, cache)
				return ok && strings.HasPrefix(c.P.D(v), "make([]*Log, len(recv.cache))")
			}),
			engine.Event("backend", c.P.IsCallTo(engine.Is("iface:LogStore.DeleteRange"))),
			predErr("backendErr", "recv.store.DeleteRange(p1, p2)"),
		}})
		for i, ret := range engine.RawReturnsOf(fn) {
			d := c.P.D(engine.ReturnValues(ret)[0])
			c.RequireAt(r, pfx+"R3", fmt.Sprintf("DeleteRange:return#%d", i+1), ret, "the whole cache was replaced by a fresh slice of the same length before returning, and the backend's answer is returned unchanged (directly, or as 'err' / nil after testing it)", func(v engine.View) bool {
				same := d == "recv.store.DeleteRange(p1, p2)" || (d == "nil" && v.F("backendErr"))
				return v.Seen("reset") && v.Seen("backend") && same
			})
		}
		for _, s := range c.P.CallsIn(fn, engine.Is("iface:LogStore.DeleteRange")) {
			c.RequireAt(r, pfx+"R3", "DeleteRange:reset-before-backend", s.Instr, "the cache is dropped before the backend delete (a concurrent reader can never see a deleted entry from the cache)", func(v engine.View) bool { return v.Seen("reset") })
		}
	}

	// R4
	if fn := c.Fn(pfx+"R4", "(*LogCache).GetLog"); fn != nil {
		slot := "recv.cache[(p1 % len(recv.cache))]"
		r := c.Run(&engine.Automaton{Fn: fn, Tracks: []engine.Track{
			engine.PredRel("present", slot, "nil", engine.LT|engine.GT),
			engine.PredRel("same", slot+".Index", "p1", engine.EQ),
			engine.Event("copied", func(in ssa.Instruction) bool {
				st, ok := in.(*ssa.Store)
				return ok && c.P.D(st.Addr) == "p2" && c.P.D(st.Val) == slot
			}),
			engine.Event("backend", func(in ssa.Instruction) bool {
				cc := engine.CallCommonOf(in)
				return cc != nil && c.P.CalleeName(cc) == "iface:LogStore.GetLog" && c.P.Arg(in, 0) == "p1" && c.P.Arg(in, 1) == "p2"
			}),
		}})
		n := 0
		engine.EachInstr(fn, func(in ssa.Instruction) {
			if st, ok := in.(*ssa.Store); ok && c.P.D(st.Addr) == "p2" {
				n++
				c.RequireAt(r, pfx+"R4", "GetLog:hit-only-for-the-requested-index", in, "*log is overwritten from the cache only when the slot idx % len(cache) is non-nil and its Index equals idx", func(v engine.View) bool {
					return c.P.D(st.Val) == slot && v.T("present") && v.T("same")
				})
			}
		})
		if n == 0 {
			c.Bad(pfx+"R4", "GetLog:hit-path", c.P.Pos(fn.Pos()), "a cache-hit path copying the cached entry", "none")
		}
		for i, ret := range engine.RawReturnsOf(fn) {
			d := c.P.D(engine.ReturnValues(ret)[0])
			c.RequireAt(r, pfx+"R4", fmt.Sprintf("GetLog:return#%d", i+1), ret, "either a verified hit (copied, nil) or exactly the backend's GetLog(idx, log) result", func(v engine.View) bool {
				if d == "nil" {
					return v.Seen("copied") && v.T("present") && v.T("same") && !v.Seen("backend")
				}
				return d == "recv.store.GetLog(p1, p2)" && v.Seen("backend") && !v.Seen("copied")
			})
		}
	}

	// R5
	for _, m := range []string{"FirstIndex", "LastIndex"} {
		if fn := c.Fn(pfx+"R5", "(*LogCache)."+m); fn != nil {
			for _, ret := range engine.RawReturnsOf(fn) {
				vals := engine.ReturnValues(ret)
				ok := len(vals) == 2 && c.P.D(vals[0]) == "recv.store."+m+"()#0" && c.P.D(vals[1]) == "recv.store."+m+"()#1"
				c.Check(pfx+"R5", m+":pass-through", c.P.InstrPos(ret), m+"() returns the backend's result unmodified", ok, "returns "+c.P.D(vals[0])+", "+c.P.D(vals[len(vals)-1]), 1)
			}
		}
	}
	if fn := c.Fn(pfx+"R5", "(*LogCache).IsMonotonic"); fn != nil {
		for _, ret := range engine.RawReturnsOf(fn) {
			d := c.P.D(engine.ReturnValues(ret)[0])
			ok := d == "false" || d == "recv.store.(MonotonicLogStore)#0.IsMonotonic()"
			c.Check(pfx+"R5", "IsMonotonic:pass-through", c.P.InstrPos(ret), "the backend's IsMonotonic() or false when it has none", ok, "returns "+d, 1)
		}
	}
	if fn := c.Fn(pfx+"R5", "NewLogCache"); fn != nil {
		r := c.Run(&engine.Automaton{Fn: fn, Tracks: []engine.Track{engine.PredRel("bad", "p1", "0", engine.LT|engine.EQ)}})
		for _, s := range c.P.FieldWritesIn(fn, cache) {
			v, _ := c.P.StoredValue(s.Instr, cache)
			c.RequireAt(r, pfx+"R5", "NewLogCache:positive-capacity", s.Instr, "capacity > 0 (slot expression idx % len(cache) never divides by zero) and the slice has that length", func(vw engine.View) bool {
				return vw.F("bad") && c.P.D(v) == "make([]*Log, p1)"
			})
		}
		if st := c.P.LookupField("LogCache", "store"); st != nil {
			for _, s := range c.P.FieldWritesIn(fn, st) {
				v, _ := c.P.StoredValue(s.Instr, st)
				c.Check(pfx+"R5", "NewLogCache:wraps-given-store", c.P.InstrPos(s.Instr), "the wrapped store is the constructor's argument", c.P.D(v) == "p2", "= "+c.P.D(v), 1)
			}
			c.WhoMay(pfx+"R5", "write LogCache.store", c.P.FieldWrites(st), map[string]string{"NewLogCache": "set once"})
		}
	}
}
