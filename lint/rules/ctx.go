// Package rules holds the repository-specific rule sets, one file per
// property plus shared groups.
package rules

import (
	"fmt"
	"go/types"
	"sort"
	"strings"

	"golang.org/x/tools/go/ssa"

	"verif/lint/engine"
)

// Obligation is one rule instance (rule x construct) and its verdict.
type Obligation struct {
	Rule       string `json:"rule"`
	Key        string `json:"key"` // stable: rule + construct, never a line number
	Pos        string `json:"pos"`
	Require    string `json:"require"`
	Found      string `json:"found"`
	OK         bool   `json:"ok"`
	Nontrivial bool   `json:"nontrivial"`
	States     int    `json:"states,omitempty"`
	Known      bool   `json:"known_finding,omitempty"`
}

// Ctx collects obligations for one property on one loaded program.
type Ctx struct {
	P    *engine.Program
	Prop string
	Obs  []*Obligation
	// FnsTouched records which functions rules looked at.
	FnsTouched map[string]bool
	// PathStates / PathEdges accumulate automaton work.
	PathStates, PathEdges int
	Config                string
}

// NewCtx makes a context.
func NewCtx(p *engine.Program, prop string) *Ctx {
	return &Ctx{P: p, Prop: prop, FnsTouched: map[string]bool{}}
}

func (c *Ctx) add(o *Obligation) *Obligation {
	o.Rule = c.Prop + "." + o.Rule
	// keys must be unique per rule
	base := o.Key
	n := 1
	for _, e := range c.Obs {
		if e.Rule == o.Rule && e.Key == o.Key {
			n++
			o.Key = fmt.Sprintf("%s#%d", base, n)
		}
	}
	c.Obs = append(c.Obs, o)
	return o
}

// Ok records a discharged obligation.
func (c *Ctx) Ok(rule, key, pos, require, found string, states int) {
	c.add(&Obligation{Rule: rule, Key: key, Pos: pos, Require: require, Found: found, OK: true, Nontrivial: states > 0, States: states})
}

// Bad records a violated obligation.
func (c *Ctx) Bad(rule, key, pos, require, found string) {
	c.add(&Obligation{Rule: rule, Key: key, Pos: pos, Require: require, Found: found, OK: false, Nontrivial: true})
}

// Check records either.
func (c *Ctx) Check(rule, key, pos, require string, ok bool, found string, states int) {
	if ok {
		c.Ok(rule, key, pos, require, found, states)
	} else {
		c.Bad(rule, key, pos, require, found)
	}
}

// Fn fetches an anchor function; a missing anchor is a violated obligation of
// the rule that needed it (the mechanism is no longer recognisable).
func (c *Ctx) Fn(rule, name string) *ssa.Function {
	fn := c.P.Fn(name)
	if fn == nil {
		c.Bad(rule, "anchor:"+name, "-", "function "+name+" exists (anchor of this rule)", "anchor function not found in package")
		return nil
	}
	c.FnsTouched[name] = true
	return fn
}

// Field fetches an anchor field.
func (c *Ctx) Field(rule, typ, field string) *types.Var {
	f := c.P.LookupField(typ, field)
	if f == nil {
		c.Bad(rule, "anchor:"+typ+"."+field, "-", "field "+typ+"."+field+" exists (anchor of this rule)", "anchor field not found")
	}
	return f
}

// Run runs an automaton and accounts for its work.
func (c *Ctx) Run(a *engine.Automaton) *engine.Result {
	a.P = c.P
	r := a.Run()
	c.PathStates += r.Visited
	c.PathEdges += r.Edges
	if a.Fn != nil {
		c.FnsTouched[c.P.Name(a.Fn)] = true
	}
	return r
}

// RequireAt checks a formula at a site and records the obligation.
func (c *Ctx) RequireAt(r *engine.Result, rule, key string, site ssa.Instruction, require string, f func(engine.View) bool) bool {
	pos := c.P.InstrPos(site)
	if !r.Reached(site) {
		// unreachable site: vacuous for a safety guard
		c.Ok(rule, key, pos, require, "site unreachable in CFG", 0)
		return true
	}
	ok, n, diag := r.Require(site, f)
	if ok {
		c.Ok(rule, key, pos, require, fmt.Sprintf("holds in all %d product states reaching the site", n), n)
	} else {
		c.Bad(rule, key, pos, require, diag)
	}
	return ok
}

// ---- small helpers shared by rules ---------------------------------------

// ParamOfType returns the descriptor name of fn's parameter with the given
// type string (relative to the subject package), e.g. "*RequestVoteRequest".
func (c *Ctx) ParamOfType(fn *ssa.Function, typ string) string {
	for _, pr := range fn.Params {
		if c.P.TypeStr(pr.Type()) == typ {
			return c.P.D(pr)
		}
	}
	return ""
}

// FirstCall returns the first call in fn to a matching callee (by position).
func (c *Ctx) FirstCall(fn *ssa.Function, m func(string) bool) ssa.Instruction {
	ss := c.P.CallsIn(fn, m)
	if len(ss) == 0 {
		return nil
	}
	sort.SliceStable(ss, func(i, j int) bool { return ss[i].Instr.Pos() < ss[j].Instr.Pos() })
	return ss[0].Instr
}

// CallDesc returns the descriptor of a call instruction's value.
func (c *Ctx) CallDesc(in ssa.Instruction) string {
	if v, ok := in.(ssa.Value); ok {
		return c.P.D(v)
	}
	return ""
}

// SiteFns renders the distinct function names of sites.
func (c *Ctx) SiteFns(ss []engine.Site) []string {
	set := map[string]bool{}
	for _, s := range ss {
		set[c.P.Name(s.Fn)] = true
	}
	var out []string
	for n := range set {
		out = append(out, n)
	}
	sort.Strings(out)
	return out
}

// WhoMay checks that the set of functions containing the given sites equals
// the frozen table (name -> reason). Missing entries ("anchor gone") and extra
// entries (new writer/caller) are both violations, one obligation per entry.
func (c *Ctx) WhoMay(rule, what string, sites []engine.Site, table map[string]string) {
	got := map[string][]engine.Site{}
	for _, s := range sites {
		n := c.P.Name(s.Fn)
		if _, listed := table[n]; !listed && c.P.ThinGoWrapper(s.Fn) {
			// go func() { f() }() / goFunc(func() { f() }): the one-call
			// literal is the spelling of "start f"; the site belongs to the
			// function that starts it
			n = c.P.Name(s.Fn.Parent())
		}
		got[n] = append(got[n], s)
	}
	var names []string
	for n := range table {
		names = append(names, n)
	}
	sort.Strings(names)
	for _, n := range names {
		if ss, ok := got[n]; ok {
			c.Ok(rule, what+" in "+n, c.P.InstrPos(ss[0].Instr), "allowed: "+table[n], fmt.Sprintf("%d site(s)", len(ss)), len(ss))
			c.FnsTouched[n] = true
		} else {
			c.Bad(rule, what+" in "+n, "-", "expected site: "+table[n], "no such site any more (anchor gone: the mechanism this rule pins is not recognisable)")
		}
	}
	var extra []string
	for n := range got {
		if _, ok := table[n]; !ok {
			extra = append(extra, n)
		}
	}
	sort.Strings(extra)
	for _, n := range extra {
		c.Bad(rule, what+" in "+n, c.P.InstrPos(got[n][0].Instr), "only "+strings.Join(names, ", ")+" may do this", what+" also happens in "+n)
	}
}

// ConstBool reports whether v is the boolean constant b.
func ConstBool(v ssa.Value, b bool) bool {
	k, ok := v.(*ssa.Const)
	if !ok || k.Value == nil {
		return false
	}
	if bt, ok := k.Type().Underlying().(*types.Basic); !ok || bt.Info()&types.IsBoolean == 0 {
		return false
	}
	return (k.Value.String() == "true") == b
}

// StoresOfConst lists stores in fn writing constant bool b to field f.
func (c *Ctx) StoresOfConst(fn *ssa.Function, f *types.Var, b bool) []engine.Site {
	var out []engine.Site
	for _, s := range c.P.FieldWritesIn(fn, f) {
		if v, ok := c.P.StoredValue(s.Instr, f); ok && ConstBool(v, b) {
			out = append(out, s)
		}
	}
	return out
}

// HasPrefix / Contains matchers for boolean descriptors.
func DescIs(s string) func(string) bool { return func(d string) bool { return d == s } }
func DescHasPrefix(s string) func(string) bool {
	return func(d string) bool { return strings.HasPrefix(d, s) }
}

// isNE reports whether an ordering set means "not equal".
func isNE(s engine.OrdSet) bool { return s == engine.LT|engine.GT }

// isNEc reports whether the true edge of a comparison means "operands
// differ"; for a non-negative operand compared with 0, "> 0" is that test.
func isNEc(cd engine.Cond) bool {
	s := cd.EdgeOrd(true)
	if s == engine.LT|engine.GT {
		return true
	}
	return s == engine.GT && cd.Y == "0" && engine.NonNegative(cd.XV)
}
