package rules

import (
	"fmt"
	"go/types"
	"reflect"
	"sort"
	"strings"

	"golang.org/x/tools/go/ssa"

	"verif/lint/engine"
)

func init() {
	register(&Property{
		ID:          "C16",
		Explanation: "Decided structurally: for each of the five rpc type bytes the Go type the sender encodes equals the type the receiver decodes for that byte, which has a case in Raft.processRPC, and the response type the sender decodes into equals the type that RPC's handler passes to Respond; every type byte has a receiver case and unknown bytes are an error; frame order agrees on both sides (type byte ≺ request ≺ flush | read byte ≺ decode request; error string ≺ response | decode string ≺ decode response), InstallSnapshot streams its body after the request and before reading the response on a connection that is always released, the receiver limits its reader to req.Size on the very buffered reader the decoder uses; every struct that crosses the codec has only exported, untagged fields of encodable kinds (recursively); a connection is returned to the pool only when both response decodes succeeded and is released on every encode/decode error; each pipeline has exactly one decoder goroutine, requests are written before being queued, responses are decoded into the queued future's own response object and delivered in queue order, and the pipeline's send side has a single caller chain.",
		NotDecided:  "value round-trip through the msgpack library (that every field value decodes equal to what was encoded), TCP behaviour, and timing (deadlines).",
		Assumptions: []string{"go-msgpack encodes every exported untagged field and decodes it back", "a bufio.Reader shared between the decoder and the LimitReader delivers bytes in order"},
		RuleText:    "C16.R1 sibling-table agreement sender/receiver/handler per rpc constant; R2 must-precede frame-order rules; R3 release-on-error and return-to-pool guards; R4 struct-type facts over the wire types; R5 single decoder goroutine / queue-order rules; R6 client-connection wiring (encoder on the flushed writer, dialled and pooled under its own target, handed out and removed from that target's pool only) and RPC.Respond pass-through.",
		Run:         c16,
	})
}

func c16(c *Ctx) {
	c16R1(c, "R1")
	c16R2(c, "R2")
	c16R3(c, "R3")
	c16R4(c, "R4")
	c16R5(c, "R5")
	c16R6(c, "R6")
	sDispatch(c, "R7/S-DISPATCH")
	sLockDiscipline(c, "R8/S-LOCK", "NetworkTransport")
	sHeartbeatFastPath(c, "R8/S-FASTPATH")
}

// c16R6: a client connection is one consistent bundle (encoder writes into the
// very writer that sendRPC flushes, decoder and writer sit on the dialled
// stream), it is dialled to and pooled under the target it belongs to, and a
// pooled connection is handed out only for the target it was pooled under.
func c16R6(c *Ctx, rule string) {
	if fn := c.Fn(rule, "(*NetworkTransport).getConn"); fn != nil {
		want := map[string]func(string) bool{
			"target": func(d string) bool { return d == "p1" },
			"conn":   func(d string) bool { return d == "recv.stream.Dial(p1, recv.timeout)#0" },
			"dec": func(d string) bool {
				return strings.Contains(d, "codec.NewDecoder(bufio.NewReader(recv.stream.Dial(p1, recv.timeout)#0)")
			},
			"w": func(d string) bool {
				return strings.HasPrefix(d, "bufio.NewWriterSize(recv.stream.Dial(p1, recv.timeout)#0,") || d == "bufio.NewWriter(recv.stream.Dial(p1, recv.timeout)#0)"
			},
			"enc": func(d string) bool { return strings.Contains(d, "codec.NewEncoder(new(netConn).w,") },
		}
		var names []string
		for k := range want {
			names = append(names, k)
		}
		sort.Strings(names)
		for _, k := range names {
			f := c.P.LookupField("netConn", k)
			if f == nil {
				c.Bad(rule, "anchor:netConn."+k, "-", "field exists", "not found")
				continue
			}
			ws := c.P.FieldWritesIn(fn, f)
			ok := len(ws) == 1
			got := "no write"
			for _, w := range ws {
				v, _ := c.P.StoredValue(w.Instr, f)
				got = c.P.D(v)
				ok = ok && want[k](got)
			}
			c.Check(rule, "getConn:netConn."+k, c.P.Pos(fn.Pos()), "a new client connection is dialled to the requested target and its encoder writes into the buffered writer that sendRPC flushes; decoder and writer sit on that same stream", ok, k+" = "+got, 1)
		}
		for _, ret := range engine.ReturnsOf(fn) {
			vals := engine.ReturnValues(ret)
			d := c.P.D(vals[0])
			ok := d == "nil" || d == "new(netConn)" || d == "recv.getPooledConn(p1)"
			c.Check(rule, "getConn:returns-conn-of-target", c.P.InstrPos(ret), "getConn returns the pooled connection of this target or the one it just dialled to it", ok, "returns "+d, 1)
		}
	}
	// the pool is keyed by the RESOLVED address: only getConn (which is given
	// the resolved address) consults it, and getConnFromAddressProvider hands
	// getConn the provider's answer for (id, target) – a lookup by the caller's
	// possibly stale address can return a connection to a different server
	c.WhoMay(rule, "call getPooledConn", c.P.CallsEverywhere(engine.Is("(*NetworkTransport).getPooledConn")), map[string]string{
		"(*NetworkTransport).getConn": "lookup under the address that will be dialled",
	})
	if fn := c.Fn(rule, "(*NetworkTransport).getConnFromAddressProvider"); fn != nil {
		ss := c.P.CallsIn(fn, engine.Is("(*NetworkTransport).getConn"))
		ok := len(ss) == 1 && c.P.Arg(ss[0].Instr, 0) == "recv.getProviderAddressOrFallback(p1, p2)"
		got := "no single getConn call"
		if len(ss) == 1 {
			got = "getConn(" + c.P.Arg(ss[0].Instr, 0) + ")"
		}
		c.Check(rule, "getConnFromAddressProvider:resolved-address", c.P.Pos(fn.Pos()), "the connection is obtained for the address the provider resolves (id, target) to", ok, got, 1)
		for _, ret := range engine.RawReturnsOf(fn) {
			d := c.P.D(engine.ReturnValues(ret)[0])
			okr := strings.HasPrefix(d, "recv.getConn(recv.getProviderAddressOrFallback(p1, p2))")
			c.Check(rule, "getConnFromAddressProvider:returns-that-connection", c.P.InstrPos(ret), "the result is getConn's result for the resolved address", okr, "returns "+d, 1)
		}
	}
	// decoders accept every wire spelling the peers may use (both time
	// formats): the handle given to codec.NewDecoder is a fresh zero
	// MsgpackHandle that nobody configures – sharing the encoder's handle
	// makes decoding depend on the LOCAL MsgpackUseNewTimeFormat setting
	for _, name := range []string{"(*NetworkTransport).getConn", "(*NetworkTransport).handleConn"} {
		fn := c.Fn(rule, name)
		if fn == nil {
			continue
		}
		ds := c.P.CallsIn(fn, engine.Is("github.com/hashicorp/go-msgpack/v2/codec.NewDecoder"))
		if len(ds) == 0 {
			c.Bad(rule, name+":decoder", c.P.Pos(fn.Pos()), "a codec.NewDecoder call", "none found")
		}
		for _, d := range ds {
			h := engine.ArgValue(d.Instr, 1)
			if mi, ok := h.(*ssa.MakeInterface); ok {
				h = mi.X
			}
			a, isAlloc := h.(*ssa.Alloc)
			configured := false
			if isAlloc {
				if refs := a.Referrers(); refs != nil {
					for _, r := range *refs {
						switch x := r.(type) {
						case *ssa.FieldAddr:
							configured = true
						case *ssa.Store:
							if x.Addr == ssa.Value(a) {
								if _, zero := x.Val.(*ssa.Const); !zero {
									configured = true
								}
							}
						case ssa.CallInstruction:
							if x != d.Instr.(ssa.CallInstruction) {
								configured = true
							}
						case *ssa.MakeInterface:
							if mrefs := x.Referrers(); mrefs != nil && len(*mrefs) > 1 {
								configured = true
							}
						}
					}
				}
			}
			c.Check(rule, name+":decoder-handle-unconfigured", c.P.InstrPos(d.Instr), "the decoder's handle is a fresh zero MsgpackHandle used by nothing else (decoding does not depend on local encoder settings)", isAlloc && !configured, "handle = "+c.P.D(engine.ArgValue(d.Instr, 1)), 1)
		}
	}
	if fn := c.Fn(rule, "(*NetworkTransport).returnConn"); fn != nil {
		n := 0
		engine.EachInstr(fn, func(in ssa.Instruction) {
			if mu, ok := in.(*ssa.MapUpdate); ok && c.P.D(mu.Map) == "recv.connPool" {
				n++
				c.Check(rule, "returnConn:pooled-under-own-target", c.P.InstrPos(in), "a connection is pooled under the address it is connected to", c.P.D(mu.Key) == "p1.target", "key "+c.P.D(mu.Key), 1)
			}
		})
		if n != 1 {
			c.Bad(rule, "returnConn:pool-update", c.P.Pos(fn.Pos()), "one update of connPool", fmt.Sprintf("%d", n))
		}
	}
	if fn := c.Fn(rule, "(*NetworkTransport).getPooledConn"); fn != nil {
		for _, ret := range engine.ReturnsOf(fn) {
			d := c.P.D(engine.ReturnValues(ret)[0])
			// the named result cell: every store into it is nil or an element of connPool[p1]
			_ = d
		}
		n := 0
		engine.EachInstr(fn, func(in ssa.Instruction) {
			st, ok := in.(*ssa.Store)
			if !ok || !strings.HasPrefix(c.P.D(st.Addr), "new(*netConn)") {
				return
			}
			n++
			d := c.P.D(st.Val)
			c.Check(rule, "getPooledConn:only-from-targets-pool", c.P.InstrPos(in), "a pooled connection is handed out only from the pool of the requested target", d == "nil" || strings.HasPrefix(d, "recv.connPool[p1]#0["), "result = "+d, 1)
		})
		m := 0
		engine.EachInstr(fn, func(in ssa.Instruction) {
			if mu, ok := in.(*ssa.MapUpdate); ok && c.P.D(mu.Map) == "recv.connPool" {
				m++
				c.Check(rule, "getPooledConn:removes-from-same-pool", c.P.InstrPos(in), "the connection handed out is removed from that same target's pool (no connection is shared by two users)", c.P.D(mu.Key) == "p1" && strings.HasPrefix(c.P.D(mu.Value), "recv.connPool[p1]#0[:(len(recv.connPool[p1]#0) - 1)"), "connPool["+c.P.D(mu.Key)+"] = "+c.P.D(mu.Value), 1)
			}
		})
		if n == 0 || m != 1 {
			c.Bad(rule, "getPooledConn:shape", c.P.Pos(fn.Pos()), "result stores and one pool update", fmt.Sprintf("%d stores, %d updates", n, m))
		}
	}
	if fn := c.Fn(rule, "(*RPC).Respond"); fn != nil {
		ok := false
		n := 0
		engine.EachInstr(fn, func(in ssa.Instruction) {
			if s, isSend := in.(*ssa.Send); isSend {
				n++
				ok = c.P.D(s.Chan) == "recv.RespChan" && strings.HasPrefix(c.P.D(s.X), "new(RPCResponse)")
			}
		})
		for _, pr := range [][2]string{{"Response", "p1"}, {"Error", "p2"}} {
			f := c.P.LookupField("RPCResponse", pr[0])
			if f == nil {
				ok = false
				continue
			}
			for _, w := range c.P.FieldWritesIn(fn, f) {
				v, _ := c.P.StoredValue(w.Instr, f)
				ok = ok && c.P.D(v) == pr[1]
			}
		}
		c.Check(rule, "RPC.Respond:delivers-what-handler-gave", c.P.Pos(fn.Pos()), "Respond sends exactly (resp, err) on this RPC's own response channel", ok && n == 1, fmt.Sprintf("%d sends", n), 1)
	}
}

// rpcConsts maps the numeric value of each rpc* constant to its name.
func rpcConsts(c *Ctx) map[string]string {
	out := map[string]string{}
	sc := c.P.Pkg.Types.Scope()
	for _, nm := range sc.Names() {
		k, ok := sc.Lookup(nm).(*types.Const)
		if !ok || !strings.HasPrefix(nm, "rpc") {
			continue
		}
		if b, ok := k.Type().Underlying().(*types.Basic); ok && b.Kind() == types.Uint8 {
			out[k.Val().String()] = nm
		}
	}
	return out
}

func ifaceArgType(c *Ctx, v ssa.Value) string {
	if mi, ok := v.(*ssa.MakeInterface); ok {
		return c.P.TypeStr(mi.X.Type())
	}
	// a field holding an interface-typed pointer is not resolvable; a typed
	// pointer passed through a load
	return c.P.TypeStr(v.Type())
}

func c16R1(c *Ctx, rule string) {
	consts := rpcConsts(c)
	if len(consts) < 5 {
		c.Bad(rule, "rpc-constants", "-", "the five rpc* type bytes", fmt.Sprintf("%v", consts))
		return
	}
	type pair struct{ req, resp, where string }
	sender := map[string][]pair{}
	// genericRPC callers
	for _, s := range c.P.CallsEverywhere(engine.Is("(*NetworkTransport).genericRPC")) {
		k := c.P.Arg(s.Instr, 2)
		sender[k] = append(sender[k], pair{ifaceArgType(c, engine.ArgValue(s.Instr, 3)), ifaceArgType(c, engine.ArgValue(s.Instr, 4)), c.P.Name(s.Fn)})
		got := c.P.Arg(s.Instr, 0) + ", " + c.P.Arg(s.Instr, 1) + ", _, " + c.P.Arg(s.Instr, 3) + ", " + c.P.Arg(s.Instr, 4)
		c.Check(rule, "forwards-callers-objects "+c.P.Name(s.Fn), c.P.InstrPos(s.Instr), "the transport method sends the caller's own request to the caller's target and decodes into the caller's own response object", got == "p1, p2, _, p3, p4", "genericRPC("+got+")", 1)
	}
	// … and hands genericRPC's verdict back unchanged: candidates and leaders
	// interpret transport errors (a pre-vote answered "unexpected command"
	// counts as a grant from an old server), so a wrapper that rewrites one
	// error into another changes who is believed to have answered what
	for _, s := range c.P.CallsEverywhere(engine.Is("(*NetworkTransport).genericRPC")) {
		for _, ret := range engine.RawReturnsOf(s.Fn) {
			vals := engine.ReturnValues(ret)
			d := c.P.D(vals[len(vals)-1])
			ok := d == "nil" || strings.HasPrefix(d, "recv.genericRPC(")
			c.Check(rule, "returns-genericRPC-result "+c.P.Name(s.Fn), c.P.InstrPos(ret), "the transport method returns genericRPC's error (or nil after checking it), never a different one", ok, "returns "+d, 1)
		}
	}
	// direct sendRPC users
	for _, s := range c.P.CallsEverywhere(engine.Is("sendRPC")) {
		name := c.P.Name(s.Fn)
		if name == "(*NetworkTransport).genericRPC" {
			// generic: type byte and args are its parameters
			ok := c.P.Arg(s.Instr, 1) == "p3" && c.P.Arg(s.Instr, 2) == "p4"
			c.Check(rule, "genericRPC:forwards-type-and-args", c.P.InstrPos(s.Instr), "genericRPC sends exactly the type byte and args it was given", ok, "sendRPC(conn, "+c.P.Arg(s.Instr, 1)+", "+c.P.Arg(s.Instr, 2)+")", 1)
			continue
		}
		k := c.P.Arg(s.Instr, 1)
		req := ifaceArgType(c, engine.ArgValue(s.Instr, 2))
		resp := ""
		for _, d := range c.P.CallsIn(s.Fn, engine.Is("decodeResponse")) {
			resp = ifaceArgType(c, engine.ArgValue(d.Instr, 1))
		}
		if name == "(*netPipeline).AppendEntries" {
			// the response is decoded by the pipeline's decoder into future.resp
			if f := c.P.LookupField("appendFuture", "resp"); f != nil {
				resp = c.P.TypeStr(f.Type())
			}
		}
		sender[k] = append(sender[k], pair{req, resp, name})
	}
	if gf := c.P.Fn("(*NetworkTransport).genericRPC"); gf != nil {
		for _, d := range c.P.CallsIn(gf, engine.Is("decodeResponse")) {
			c.Check(rule, "genericRPC:decodes-into-callers-response", c.P.InstrPos(d.Instr), "genericRPC decodes the response into the resp object it was given", c.P.Arg(d.Instr, 1) == "p5", "decodeResponse(conn, "+c.P.Arg(d.Instr, 1)+")", 1)
		}
	}
	// receiver table
	recvT := map[string]string{}
	hc := c.Fn(rule, "(*NetworkTransport).handleCommand")
	if hc == nil {
		return
	}
	var tracks []engine.Track
	var keys []string
	for k := range consts {
		keys = append(keys, k)
	}
	sort.Strings(keys)
	for _, k := range keys {
		tracks = append(tracks, engine.PredRel("is"+k, "p1.ReadByte()#0", k, engine.EQ))
	}
	r := c.Run(&engine.Automaton{Fn: hc, Tracks: tracks})
	for _, s := range c.P.CallsIn(hc, func(n string) bool { return strings.HasSuffix(n, "codec.Decoder).Decode") }) {
		t := ""
		if a, ok := engine.ArgValue(s.Instr, 0).(*ssa.MakeInterface); ok {
			t = c.P.TypeStr(a.X.Type())
		}
		for _, k := range keys {
			all := true
			vs := r.StatesAt(s.Instr)
			for _, v := range vs {
				if !v.T("is" + k) {
					all = false
				}
			}
			if all && len(vs) > 0 {
				recvT[k] = t
			}
		}
	}
	// processRPC cases and handler response types
	handled := map[string]string{} // request type -> handler
	if pf := c.Fn(rule, "(*Raft).processRPC"); pf != nil {
		engine.EachInstr(pf, func(in ssa.Instruction) {
			if ta, ok := in.(*ssa.TypeAssert); ok {
				handled[c.P.TypeStr(ta.AssertedType)] = ""
			}
		})
		for _, s := range c.P.CallsIn(pf, func(n string) bool { return strings.HasPrefix(n, "(*Raft).") }) {
			if t := engine.ArgValue(s.Instr, 1); t != nil {
				handled[c.P.TypeStr(t.Type())] = s.Note
			}
		}
	}
	respondType := func(handler string) string {
		var out string
		for _, name := range []string{handler, handler + "$defer"} {
			fn := c.P.Fn(name)
			if fn == nil {
				continue
			}
			for _, s := range c.P.CallsIn(fn, engine.Is("(RPC).Respond", "(*RPC).Respond")) {
				a := engine.ArgValue(s.Instr, 0)
				if mi, ok := a.(*ssa.MakeInterface); ok {
					out = c.P.TypeStr(mi.X.Type())
				}
			}
		}
		return out
	}
	for _, k := range keys {
		name := consts[k]
		ss := sender[k]
		if len(ss) == 0 {
			c.Bad(rule, name+":sender", "-", "at least one sender of "+name, "none found")
			continue
		}
		rt, okR := recvT[k]
		c.Check(rule, name+":receiver-case", c.P.Pos(hc.Pos()), "handleCommand has a case for "+name+" that decodes a request", okR, pick(okR, "decodes "+rt, "no case"), 1)
		for _, p := range ss {
			c.Check(rule, name+":request-type "+p.where, c.P.Pos(hc.Pos()), "the sender encodes "+p.req+" and the receiver decodes the same struct type for this type byte", okR && p.req == rt, "sender "+p.req+" / receiver "+rt, 1)
			h, okH := handled[p.req]
			c.Check(rule, name+":dispatched "+p.where, "-", "Raft.processRPC has a case for "+p.req, okH && h != "", pick(okH, "→ "+h, "no case"), 1)
			if okH && h != "" {
				ht := respondType(h)
				c.Check(rule, name+":response-type "+p.where, "-", "the handler answers with the type the sender decodes into", ht == p.resp && ht != "", "handler "+h+" responds "+ht+" / sender expects "+p.resp, 1)
			}
		}
	}
	// default: unknown byte is an error
	rd := c.Run(&engine.Automaton{Fn: hc, Tracks: tracks})
	okDef := true
	n := 0
	engine.EachInstr(hc, func(in ssa.Instruction) {
		if sel, ok := in.(*ssa.Select); ok {
			for _, st := range sel.States {
				if st.Dir == types.SendOnly {
					n++
					for _, v := range rd.StatesAt(in) {
						any := false
						for _, k := range keys {
							if v.T("is" + k) {
								any = true
							}
						}
						if !any {
							okDef = false
						}
					}
				}
			}
		}
	})
	c.Check(rule, "handleCommand:unknown-type-rejected", c.P.Pos(hc.Pos()), "an RPC is handed to the consumer only when its type byte matched one of the known constants", okDef && n > 0, pick(okDef, "all hand-offs follow a matched case", "a hand-off is reachable without a matched case"), n)
}

func c16R2(c *Ctx, rule string) {
	if fn := c.Fn(rule, "sendRPC"); fn != nil {
		r := c.Run(&engine.Automaton{Fn: fn, Tracks: []engine.Track{
			engine.Event("type", func(in ssa.Instruction) bool {
				cc := engine.CallCommonOf(in)
				return cc != nil && c.P.CalleeName(cc) == "(*bufio.Writer).WriteByte" && c.P.D(engine.RecvValue(in)) == "p1.w" && c.P.Arg(in, 0) == "p2"
			}),
			predErr("typeErr", "p1.w.WriteByte("),
			engine.Event("args", func(in ssa.Instruction) bool {
				cc := engine.CallCommonOf(in)
				return cc != nil && strings.HasSuffix(c.P.CalleeName(cc), "codec.Encoder).Encode") && c.P.D(engine.RecvValue(in)) == "p1.enc" && c.P.Arg(in, 0) == "p3"
			}),
			predErr("argsErr", "p1.enc.Encode("),
			engine.Event("flush", func(in ssa.Instruction) bool {
				cc := engine.CallCommonOf(in)
				return cc != nil && c.P.CalleeName(cc) == "(*bufio.Writer).Flush" && c.P.D(engine.RecvValue(in)) == "p1.w"
			}),
			predErr("flushErr", "p1.w.Flush("),
			engine.Event("released", c.P.IsCallTo(engine.Is("(*netConn).Release"))),
		}})
		for i, ret := range engine.ReturnsOf(fn) {
			d := c.P.D(engine.ReturnValues(ret)[0])
			if d == "nil" {
				c.RequireAt(r, rule, "sendRPC:frame-order", ret, "success = WriteByte(type) ≺ Encode(args) ≺ Flush, each checked, on conn.w / conn.enc", func(v engine.View) bool {
					return v.Seen("type") && v.F("typeErr") && v.Seen("args") && v.F("argsErr") && v.Seen("flush") && v.F("flushErr")
				})
			} else {
				c.RequireAt(r, rule, fmt.Sprintf("sendRPC:release-on-error#%d", i+1), ret, "every failed write releases the connection (never pooled in an unknown state)", func(v engine.View) bool { return v.Seen("released") })
			}
		}
		for _, s := range c.P.CallsIn(fn, engine.Is("(*bufio.Writer).Flush")) {
			c.RequireAt(r, rule, "sendRPC:flush-after-body", s.Instr, "the writer is flushed after the request body was encoded into it", func(v engine.View) bool { return v.Seen("type") && v.F("typeErr") && v.Seen("args") && v.F("argsErr") })
		}
		for _, s := range c.P.CallsIn(fn, func(n string) bool { return strings.HasSuffix(n, "codec.Encoder).Encode") }) {
			c.RequireAt(r, rule, "sendRPC:type-byte-first", s.Instr, "the type byte is written before the request body", func(v engine.View) bool { return v.Seen("type") && v.F("typeErr") })
		}
	}
	if fn := c.Fn(rule, "decodeResponse"); fn != nil {
		isDec := func(arg string) func(ssa.Instruction) bool {
			return func(in ssa.Instruction) bool {
				cc := engine.CallCommonOf(in)
				if cc == nil || !strings.HasSuffix(c.P.CalleeName(cc), "codec.Decoder).Decode") || c.P.D(engine.RecvValue(in)) != "p1.dec" {
					return false
				}
				a := c.P.Arg(in, 0)
				if arg == "string" {
					return strings.HasPrefix(a, "var(string)") || strings.HasPrefix(a, "new(string)")
				}
				return a == arg
			}
		}
		r := c.Run(&engine.Automaton{Fn: fn, Tracks: []engine.Track{
			engine.Event("errStr", isDec("string")),
			engine.PredCond("errStrErr", func(cd engine.Cond) (bool, int) {
				if cd.IsRel && strings.HasPrefix(cd.X, "p1.dec.Decode(") && strings.Contains(cd.X, "string") && cd.Y == "nil" {
					if isNEc(cd) {
						return true, engine.True
					}
					return true, engine.False
				}
				return false, 0
			}),
			engine.Event("body", isDec("p2")),
			predErr("bodyErr", "p1.dec.Decode(p2"),
			engine.Event("released", c.P.IsCallTo(engine.Is("(*netConn).Release"))),
		}})
		for i, ret := range engine.ReturnsOf(fn) {
			vals := engine.ReturnValues(ret)
			can := c.P.D(vals[0])
			c.RequireAt(r, rule, fmt.Sprintf("decodeResponse:return#%d", i+1), ret, "canReturn=true only after the error string and then the response body were both decoded without error; any decode error releases the connection and reports canReturn=false", func(v engine.View) bool {
				if can == "true" {
					return v.Seen("errStr") && v.F("errStrErr") && v.Seen("body") && v.F("bodyErr") && !v.Seen("released")
				}
				return can == "false" && v.Seen("released") && c.P.D(vals[1]) != "nil"
			})
		}
		for _, s := range c.P.CallsIn(fn, func(n string) bool { return strings.HasSuffix(n, "codec.Decoder).Decode") }) {
			if c.P.Arg(s.Instr, 0) == "p2" {
				c.RequireAt(r, rule, "decodeResponse:error-string-first", s.Instr, "the error string is decoded before the response body (same order the receiver encodes them)", func(v engine.View) bool { return v.Seen("errStr") && v.F("errStrErr") })
			}
		}
	}
	if fn := c.Fn(rule, "(*NetworkTransport).handleCommand"); fn != nil {
		isEnc := func(in ssa.Instruction) bool {
			cc := engine.CallCommonOf(in)
			return cc != nil && strings.HasSuffix(c.P.CalleeName(cc), "codec.Encoder).Encode") && c.P.D(engine.RecvValue(in)) == "p3"
		}
		r := c.Run(&engine.Automaton{Fn: fn, Tracks: []engine.Track{
			engine.Event("typeRead", c.P.IsCallTo(engine.Is("(*bufio.Reader).ReadByte"))),
			engine.PredRel("typeErr", "p1.ReadByte()#1", "nil", engine.LT|engine.GT),
			engine.Event("errStr", func(in ssa.Instruction) bool {
				return isEnc(in) && strings.Contains(c.P.Arg(in, 0), ".Error.Error()")
			}),
			engine.PredCond("errStrErr", func(cd engine.Cond) (bool, int) {
				if cd.IsRel && strings.HasPrefix(cd.X, "p3.Encode(phi(") && cd.Y == "nil" {
					if isNEc(cd) {
						return true, engine.True
					}
					return true, engine.False
				}
				return false, 0
			}),
		}})
		for _, s := range c.P.CallsIn(fn, func(n string) bool { return strings.HasSuffix(n, "codec.Decoder).Decode") }) {
			c.RequireAt(r, rule, "handleCommand:read-type-before-body", s.Instr, "the receiver reads the type byte (error checked) before decoding the request, with the decoder it was given", func(v engine.View) bool {
				return v.Seen("typeRead") && v.F("typeErr") && c.P.D(engine.RecvValue(s.Instr)) == "p2"
			})
		}
		nResp := 0
		engine.EachInstr(fn, func(in ssa.Instruction) {
			if isEnc(in) && strings.HasSuffix(c.P.Arg(in, 0), ".Response") {
				nResp++
				c.RequireAt(r, rule, "handleCommand:response-after-error-string", in, "the response body is encoded after the error string, both from the RPCResponse received for this very RPC", func(v engine.View) bool { return v.Seen("errStr") && v.F("errStrErr") })
			}
		})
		if nResp != 1 {
			c.Bad(rule, "handleCommand:response-encode", c.P.Pos(fn.Pos()), "one Encode(resp.Response)", fmt.Sprintf("%d", nResp))
		}
		// the reply always has both frames: a nil return means error string
		// AND response body were encoded (the caller always decodes two values)
		rb := c.Run(&engine.Automaton{Fn: fn, Tracks: []engine.Track{
			engine.Event("errStr", func(in ssa.Instruction) bool { return isEnc(in) && strings.Contains(c.P.Arg(in, 0), ".Error.Error()") }),
			engine.Event("body", func(in ssa.Instruction) bool { return isEnc(in) && strings.HasSuffix(c.P.Arg(in, 0), ".Response") }),
			engine.PredCond("bodyErr", func(cd engine.Cond) (bool, int) {
				if cd.IsRel && strings.HasPrefix(cd.X, "p3.Encode(") && strings.HasSuffix(cd.X, ".Response)") && cd.Y == "nil" {
					if isNEc(cd) {
						return true, engine.True
					}
					return true, engine.False
				}
				return false, 0
			}),
		}})
		nNil := 0
		for _, ret := range engine.ReturnsOf(fn) {
			if c.P.D(engine.ReturnValues(ret)[0]) != "nil" {
				continue
			}
			nNil++
			c.RequireAt(rb, rule, "handleCommand:reply-always-two-frames", ret, "a handled command is answered with exactly the two frames the caller decodes: error string, then response body – both on every path (also when the handler answered with a nil response)", func(v engine.View) bool {
				return v.Seen("errStr") && v.Seen("body") && v.F("bodyErr")
			})
		}
		if nNil == 0 {
			c.Bad(rule, "handleCommand:reply-always-two-frames", c.P.Pos(fn.Pos()), "a nil return after replying", "none")
		}
		// the decoded request reaches the handler untouched
		nMut := 0
		var mutD string
		engine.EachInstr(fn, func(in ssa.Instruction) {
			st, ok := in.(*ssa.Store)
			if !ok {
				return
			}
			a := c.P.D(st.Addr)
			if strings.HasPrefix(a, "var(") && strings.Contains(a, "Request)") && strings.Contains(a, ".") {
				nMut++
				mutD = a + " = " + c.P.D(st.Val)
			}
		})
		c.Check(rule, "handleCommand:request-not-modified", c.P.Pos(fn.Pos()), "between decoding and hand-off the receiver never writes into the decoded request (the handler sees every field as sent)", nMut == 0, pick(nMut == 0, "no stores into request structs", mutD), 1)
		// the response channel is per RPC
		okCh := false
		if f := c.P.LookupField("RPC", "RespChan"); f != nil {
			for _, w := range c.P.FieldWritesIn(fn, f) {
				v, _ := c.P.StoredValue(w.Instr, f)
				okCh = c.P.D(v) == "make(chan RPCResponse, 1)"
			}
		}
		c.Check(rule, "handleCommand:response-channel-per-rpc", c.P.Pos(fn.Pos()), "each RPC carries a fresh response channel of capacity 1, which is the one the receiver then waits on", okCh, pick(okCh, "fresh channel", "shared or unbuffered channel"), 1)
		// streamed body
		okLim := false
		if f := c.P.LookupField("RPC", "Reader"); f != nil {
			for _, w := range c.P.FieldWritesIn(fn, f) {
				v, _ := c.P.StoredValue(w.Instr, f)
				okLim = c.P.D(v) == "io.LimitReader(p1, var(InstallSnapshotRequest).Size)"
			}
		}
		c.Check(rule, "handleCommand:snapshot-body-reader", c.P.Pos(fn.Pos()), "the snapshot body is read from the connection's own buffered reader, limited to req.Size bytes", okLim, pick(okLim, "io.LimitReader(r, req.Size)", "different reader/limit"), 1)
	}
	if fn := c.Fn(rule, "(*NetworkTransport).handleConn"); fn != nil {
		// decoder reads from the same buffered reader that handleCommand receives
		ok := false
		for _, s := range c.P.CallsIn(fn, engine.Is("(*NetworkTransport).handleCommand")) {
			rd := c.P.Arg(s.Instr, 0)
			dec := c.P.Arg(s.Instr, 1)
			ok = strings.HasPrefix(rd, "bufio.NewReaderSize(p2") && strings.Contains(dec, "NewDecoder("+rd)
			c.Check(rule, "handleConn:decoder-and-body-share-reader", c.P.InstrPos(s.Instr), "the msgpack decoder is built on the same bufio.Reader that is passed for the type byte and the snapshot body", ok, "reader "+rd+", decoder "+dec, 1)
		}
		// flush after each command
		r := c.Run(&engine.Automaton{Fn: fn, Tracks: []engine.Track{
			engine.Event("cmd", c.P.IsCallTo(engine.Is("(*NetworkTransport).handleCommand")), "flushed"),
			predErr("cmdErr", "recv.handleCommand("),
			engine.Event("flushed", c.P.IsCallTo(engine.Is("(*bufio.Writer).Flush"))),
		}})
		for _, s := range c.P.CallsIn(fn, engine.Is("(*NetworkTransport).handleCommand")) {
			c.RequireAt(r, rule, "handleConn:flush-between-commands", s.Instr, "before the next command is read, the previous response was flushed", func(v engine.View) bool { return !v.Seen("cmd") || v.Seen("flushed") })
		}
	}
	if fn := c.Fn(rule, "(*NetworkTransport).InstallSnapshot"); fn != nil {
		r := c.Run(&engine.Automaton{Fn: fn, Tracks: []engine.Track{
			predErr("connErr", "recv.getConnFromAddressProvider("),
			engine.PredRel("connErr2", "recv.getConnFromAddressProvider(p1, p2)#1", "nil", engine.LT|engine.GT),
			engine.Event("deferRelease", func(in ssa.Instruction) bool {
				d, ok := in.(*ssa.Defer)
				return ok && c.P.CalleeName(d.Common()) == "(*NetworkTransport).InstallSnapshot$defer"
			}),
			engine.Event("sent", func(in ssa.Instruction) bool {
				cc := engine.CallCommonOf(in)
				return cc != nil && c.P.CalleeName(cc) == "sendRPC" && c.P.Arg(in, 2) == "p3"
			}),
			predErr("sendErr", "sendRPC("),
			engine.Event("body", func(in ssa.Instruction) bool {
				cc := engine.CallCommonOf(in)
				return cc != nil && c.P.CalleeName(cc) == "io.Copy" && strings.HasSuffix(c.P.Arg(in, 0), ".w") && c.P.Arg(in, 1) == "p5"
			}),
			engine.PredCond("bodyErr", func(cd engine.Cond) (bool, int) {
				if cd.IsRel && strings.HasPrefix(cd.X, "io.Copy(") && strings.HasSuffix(cd.X, "#1") && cd.Y == "nil" {
					if isNEc(cd) {
						return true, engine.True
					}
					return true, engine.False
				}
				return false, 0
			}),
			engine.Event("flush", c.P.IsCallTo(engine.Is("(*bufio.Writer).Flush"))),
			engine.PredCond("flushErr", func(cd engine.Cond) (bool, int) {
				if cd.IsRel && strings.HasSuffix(cd.X, ".w.Flush()") && cd.Y == "nil" {
					if isNEc(cd) {
						return true, engine.True
					}
					return true, engine.False
				}
				return false, 0
			}),
		}})
		for _, s := range c.P.CallsIn(fn, engine.Is("decodeResponse")) {
			c.RequireAt(r, rule, "InstallSnapshot:body-between-request-and-response", s.Instr, "request sent ≺ body copied from the caller's reader ≺ flushed, all without error, before the response is read; the connection's release is already deferred", func(v engine.View) bool {
				return v.Seen("deferRelease") && v.Seen("sent") && v.F("sendErr") && v.Seen("body") && v.F("bodyErr") && v.Seen("flush") && v.F("flushErr") && c.P.Arg(s.Instr, 1) == "p4"
			})
		}
		for _, s := range c.P.CallsIn(fn, engine.Is("sendRPC")) {
			c.RequireAt(r, rule, "InstallSnapshot:dedicated-connection-released", s.Instr, "the connection used for the stream is released on every path (deferred right after it was obtained), never returned to the pool", func(v engine.View) bool { return v.Seen("deferRelease") && v.F("connErr2") })
		}
		// a deadline, when one is set, grows with the announced size
		nDl := 0
		for _, s := range c.P.CallsIn(fn, engine.Is("iface:net.Conn.SetDeadline")) {
			nDl++
			d := c.P.Arg(s.Instr, 0)
			ok := strings.Contains(d, "p3.Size") && strings.Contains(d, "recv.TimeoutScale")
			c.Check(rule, "InstallSnapshot:deadline-scales-with-size", c.P.InstrPos(s.Instr), "the deadline for the whole exchange is derived from args.Size / TimeoutScale (never the flat RPC timeout alone), so a large snapshot is not cut off mid-stream on a healthy connection", ok, "deadline "+d, 1)
		}
		if nDl == 0 {
			c.Ok(rule, "InstallSnapshot:deadline-scales-with-size", c.P.Pos(fn.Pos()), "no deadline is set at all", "no SetDeadline call", 1)
		}
		c.Check(rule, "InstallSnapshot:never-pooled", c.P.Pos(fn.Pos()), "InstallSnapshot never calls returnConn", len(c.P.CallsIn(fn, engine.Is("(*NetworkTransport).returnConn"))) == 0, "no returnConn", 1)
	}
}

func c16R3(c *Ctx, rule string) {
	fn := c.Fn(rule, "(*NetworkTransport).genericRPC")
	if fn == nil {
		return
	}
	r := c.Run(&engine.Automaton{Fn: fn, Tracks: []engine.Track{
		engine.PredBool("can", DescIs("decodeResponse(recv.getConnFromAddressProvider(p1, p2)#0, p5)#0")),
		engine.Event("sent", c.P.IsCallTo(engine.Is("sendRPC"))),
		predErr("sendErr", "sendRPC("),
		engine.Event("decoded", c.P.IsCallTo(engine.Is("decodeResponse"))),
	}})
	n := 0
	for _, s := range c.P.CallsIn(fn, engine.Is("(*NetworkTransport).returnConn")) {
		n++
		c.RequireAt(r, rule, "genericRPC:pool-only-healthy-connections", s.Instr, "a connection goes back to the pool only when sendRPC succeeded and decodeResponse reported canReturn", func(v engine.View) bool {
			return v.Seen("sent") && v.F("sendErr") && v.Seen("decoded") && v.T("can")
		})
	}
	if n != 1 {
		c.Bad(rule, "genericRPC:returnConn", c.P.Pos(fn.Pos()), "one returnConn call", fmt.Sprintf("%d", n))
	}
	for _, s := range c.P.CallsIn(fn, engine.Is("decodeResponse")) {
		c.RequireAt(r, rule, "genericRPC:response-only-after-request", s.Instr, "the response is read only after the request was written without error", func(v engine.View) bool { return v.Seen("sent") && v.F("sendErr") })
	}
	// the error delivered is the decoded error, the response object the caller's
	for _, ret := range engine.RawReturnsOf(fn) {
		d := c.P.D(engine.ReturnValues(ret)[0])
		ok := strings.HasPrefix(d, "decodeResponse(") || strings.HasPrefix(d, "sendRPC(") || strings.HasPrefix(d, "recv.getConnFromAddressProvider(")
		c.Check(rule, "genericRPC:error-passthrough", c.P.InstrPos(ret), "the caller gets the error of the step that failed (or the remote error string), unchanged", ok, "returns "+d, 1)
	}
	c.WhoMay(rule, "call (*NetworkTransport).returnConn", c.P.CallsEverywhere(engine.Is("(*NetworkTransport).returnConn")), map[string]string{"(*NetworkTransport).genericRPC": "after a complete, clean exchange"})
	// remote error string → error
	if df := c.P.Fn("decodeResponse"); df != nil {
		r2 := c.Run(&engine.Automaton{Fn: df, Tracks: []engine.Track{engine.PredCond("remoteErr", func(cd engine.Cond) (bool, int) {
			if cd.IsRel && cd.Y == `""` && (strings.HasPrefix(cd.X, "var(string)") || strings.HasPrefix(cd.X, "new(string)")) {
				if isNEc(cd) {
					return true, engine.True
				}
				return true, engine.False
			}
			return false, 0
		})}})
		for i, ret := range engine.ReturnsOf(df) {
			vals := engine.ReturnValues(ret)
			if c.P.D(vals[0]) != "true" {
				continue
			}
			isNil := c.P.D(vals[1]) == "nil"
			c.RequireAt(r2, rule, fmt.Sprintf("decodeResponse:remote-error#%d", i+1), ret, "a non-empty remote error string becomes the returned error; nil only for an empty string", func(v engine.View) bool {
				if isNil {
					return v.F("remoteErr")
				}
				return v.T("remoteErr") && strings.HasPrefix(c.P.D(vals[1]), "errors.New(")
			})
		}
	}
}

// c16R4: every struct that crosses the codec is fully encodable.
func c16R4(c *Ctx, rule string) {
	roots := []string{"AppendEntriesRequest", "AppendEntriesResponse", "RequestVoteRequest", "RequestVoteResponse", "RequestPreVoteRequest", "RequestPreVoteResponse",
		"InstallSnapshotRequest", "InstallSnapshotResponse", "TimeoutNowRequest", "TimeoutNowResponse", "RPCHeader", "Log"}
	seen := map[string]bool{}
	var check func(t types.Type, path string, depth int) string
	check = func(t types.Type, path string, depth int) string {
		if depth > 6 {
			return ""
		}
		switch u := t.Underlying().(type) {
		case *types.Basic:
			if u.Kind() == types.UnsafePointer || u.Kind() == types.Complex64 || u.Kind() == types.Complex128 {
				return path + ": kind " + u.String() + " is not encodable"
			}
			return ""
		case *types.Pointer:
			return check(u.Elem(), path, depth+1)
		case *types.Slice:
			return check(u.Elem(), path+"[]", depth+1)
		case *types.Array:
			return check(u.Elem(), path+"[]", depth+1)
		case *types.Map:
			if e := check(u.Key(), path+"{key}", depth+1); e != "" {
				return e
			}
			return check(u.Elem(), path+"{val}", depth+1)
		case *types.Struct:
			if n, ok := t.(*types.Named); ok {
				if n.Obj().Pkg() != nil && n.Obj().Pkg().Path() == "time" && n.Obj().Name() == "Time" {
					return ""
				}
				if seen[n.String()] {
					return ""
				}
				seen[n.String()] = true
			}
			for i := 0; i < u.NumFields(); i++ {
				f := u.Field(i)
				if !f.Exported() {
					return path + "." + f.Name() + ": unexported field is silently dropped by the codec"
				}
				tag := reflect.StructTag(u.Tag(i))
				for _, key := range []string{"codec", "json", "msgpack"} {
					if tv, ok := tag.Lookup(key); ok && (tv == "-" || strings.Contains(tv, "omitempty") || strings.HasPrefix(tv, "-,")) {
						return path + "." + f.Name() + ": tag `" + key + ":\"" + tv + "\"` drops or alters the value on the wire"
					}
				}
				if e := check(f.Type(), path+"."+f.Name(), depth+1); e != "" {
					return e
				}
			}
			return ""
		case *types.Chan, *types.Signature:
			return path + ": " + u.String() + " cannot be encoded"
		case *types.Interface:
			return path + ": interface-typed field has no fixed wire type"
		}
		return ""
	}
	for _, rname := range roots {
		n := c.P.LookupType(rname)
		if n == nil {
			c.Bad(rule, "wire-type:"+rname, "-", "type "+rname+" exists", "not found")
			continue
		}
		delete(seen, n.String())
		e := check(n, rname, 0)
		st, _ := n.Underlying().(*types.Struct)
		nf := 0
		if st != nil {
			nf = st.NumFields()
		}
		c.Check(rule, "wire-type:"+rname, c.P.Pos(n.Obj().Pos()), "every field (recursively) is exported, carries no dropping/omitempty tag and has an encodable kind, so what the handler sees has every field the sender set", e == "", pick(e == "", fmt.Sprintf("%d fields checked", nf), e), nf)
	}
	// requests embed the header and expose it
	for _, rname := range roots[:10] {
		n := c.P.LookupType(rname)
		if n == nil || rname == "InstallSnapshotResponse" {
			continue
		}
		st, _ := n.Underlying().(*types.Struct)
		has := false
		for i := 0; st != nil && i < st.NumFields(); i++ {
			if st.Field(i).Embedded() && st.Field(i).Name() == "RPCHeader" {
				has = true
			}
		}
		c.Check(rule, "wire-type:"+rname+":header", c.P.Pos(n.Obj().Pos()), rname+" embeds RPCHeader (protocol version / sender identity travel with it)", has, pick(has, "embedded", "missing"), 1)
	}
}

func c16R5(c *Ctx, rule string) {
	var starts []engine.Site
	for _, fn := range c.P.AllFuncs() {
		engine.EachInstr(fn, func(in ssa.Instruction) {
			if g, ok := in.(*ssa.Go); ok && c.P.GoTargetName(g) == "(*netPipeline).decodeResponses" {
				starts = append(starts, engine.Site{Fn: fn, Instr: in})
			}
		})
	}
	c.WhoMay(rule, "start (*netPipeline).decodeResponses", starts, map[string]string{"newNetPipeline": "exactly one decoder goroutine per pipeline, started by its constructor"})
	c.WhoMay(rule, "call (*netPipeline).decodeResponses synchronously", c.P.CallsEverywhere(func(n string) bool { return false }), map[string]string{})
	if nf := c.P.Fn("newNetPipeline"); nf != nil {
		inLoop := false
		for _, s := range starts {
			if s.Fn == nf && reachesSelf(s.Instr.Block()) {
				inLoop = true
			}
		}
		c.Check(rule, "newNetPipeline:one-decoder", c.P.Pos(nf.Pos()), "the constructor starts the decoder once (not in a loop)", len(starts) == 1 && !inLoop, fmt.Sprintf("%d go statements, in loop: %v", len(starts), inLoop), 1)
	}
	c.WhoMay(rule, "call newNetPipeline", c.P.CallsEverywhere(engine.Is("newNetPipeline")), map[string]string{"(*NetworkTransport).AppendEntriesPipeline": "one pipeline per call, on its own connection"})
	if fn := c.Fn(rule, "(*netPipeline).AppendEntries"); fn != nil {
		r := c.Run(&engine.Automaton{Fn: fn, Tracks: []engine.Track{
			engine.Event("sent", func(in ssa.Instruction) bool {
				cc := engine.CallCommonOf(in)
				return cc != nil && c.P.CalleeName(cc) == "sendRPC" && c.P.Arg(in, 0) == "recv.conn" && strings.HasSuffix(c.P.Arg(in, 2), ".args")
			}),
			predErr("sendErr", "sendRPC("),
		}})
		n := 0
		engine.EachInstr(fn, func(in ssa.Instruction) {
			if sel, ok := in.(*ssa.Select); ok {
				for _, st := range sel.States {
					if st.Dir == types.SendOnly && c.P.D(st.Chan) == "recv.inprogressCh" {
						n++
						c.RequireAt(r, rule, "netPipeline.AppendEntries:write-then-queue", in, "the request is on the wire (sendRPC ok) before its future is queued for the decoder, so queue order = wire order", func(v engine.View) bool {
							return v.Seen("sent") && v.F("sendErr") && strings.HasPrefix(c.P.D(st.Send), "new(appendFuture)")
						})
					}
				}
			}
		})
		if n != 1 {
			c.Bad(rule, "netPipeline.AppendEntries:queue", c.P.Pos(fn.Pos()), "one send on inprogressCh", fmt.Sprintf("%d", n))
		}
		for _, pair := range [][2]string{{"args", "p1"}, {"resp", "p2"}} {
			if f := c.P.LookupField("appendFuture", pair[0]); f != nil {
				for _, w := range c.P.FieldWritesIn(fn, f) {
					v, _ := c.P.StoredValue(w.Instr, f)
					c.Check(rule, "netPipeline.AppendEntries:future."+pair[0], c.P.InstrPos(w.Instr), "the future carries the caller's own "+pair[0]+" object", c.P.D(v) == pair[1], "= "+c.P.D(v), 1)
				}
			}
		}
	}
	if fn := c.Fn(rule, "(*netPipeline).decodeResponses"); fn != nil {
		fut := "<-recv.inprogressCh"
		r := c.Run(&engine.Automaton{Fn: fn, Tracks: []engine.Track{
			engine.Event("loop", func(in ssa.Instruction) bool {
				s, ok := in.(*ssa.Select)
				return ok && len(s.States) == 2 && c.P.D(s.States[0].Chan) == "recv.inprogressCh"
			}, "decoded", "answered"),
			engine.Event("decoded", func(in ssa.Instruction) bool {
				cc := engine.CallCommonOf(in)
				return cc != nil && c.P.CalleeName(cc) == "decodeResponse" && c.P.Arg(in, 0) == "recv.conn" && c.P.Arg(in, 1) == fut+".resp"
			}),
			engine.Event("answered", func(in ssa.Instruction) bool {
				cc := engine.CallCommonOf(in)
				return cc != nil && c.P.CalleeName(cc) == "(*deferError).respond" && strings.HasPrefix(c.P.D(engine.RecvValue(in)), fut) && strings.HasPrefix(c.P.Arg(in, 0), "decodeResponse(")
			}),
		}})
		n := 0
		engine.EachInstr(fn, func(in ssa.Instruction) {
			if sel, ok := in.(*ssa.Select); ok {
				for _, st := range sel.States {
					if st.Dir == types.SendOnly && c.P.D(st.Chan) == "recv.doneCh" {
						n++
						c.RequireAt(r, rule, "decodeResponses:decode-own-response-then-deliver", in, "the future taken from the queue gets the next response decoded into its own resp object, is answered with that decode's error, and only then delivered on doneCh", func(v engine.View) bool {
							return v.Seen("decoded") && v.Seen("answered") && c.P.D(st.Send) == fut
						})
					}
				}
			}
		})
		if n != 1 {
			c.Bad(rule, "decodeResponses:deliver", c.P.Pos(fn.Pos()), "one send on doneCh", fmt.Sprintf("%d", n))
		}
	}
	// channel ends
	for _, ch := range []struct{ name, dir, owner, why string }{
		{"inprogressCh", "recv", "(*netPipeline).decodeResponses", "single consumer keeps FIFO order"},
		{"inprogressCh", "send", "(*netPipeline).AppendEntries", "the only producer"},
		{"doneCh", "send", "(*netPipeline).decodeResponses", "the only producer"},
	} {
		f := c.P.LookupField("netPipeline", ch.name)
		if f == nil {
			c.Bad(rule, "anchor:netPipeline."+ch.name, "-", "field exists", "not found")
			continue
		}
		var ops []engine.Site
		for _, fn := range c.P.AllFuncs() {
			for _, op := range c.P.ChanOps(fn) {
				if engine.ChanField(op.Chan) == f && op.IsSend == (ch.dir == "send") {
					ops = append(ops, engine.Site{Fn: fn, Instr: op.Instr})
				}
			}
		}
		c.WhoMay(rule, ch.dir+" on netPipeline."+ch.name, ops, map[string]string{ch.owner: ch.why})
	}
	// only the replication pipeline sender calls the pipeline
	c.WhoMay(rule, "call AppendPipeline.AppendEntries", c.P.CallsEverywhere(engine.Is("iface:AppendPipeline.AppendEntries")), map[string]string{"(*Raft).pipelineSend": "single sender goroutine per pipeline"})
	c.WhoMay(rule, "call (*Raft).pipelineSend", c.P.CallsEverywhere(engine.Is("(*Raft).pipelineSend")), map[string]string{"(*Raft).pipelineReplicate": "one goroutine per pipeline"})
}
