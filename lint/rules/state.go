package rules

import (
	"fmt"
	"strings"

	"golang.org/x/tools/go/ssa"

	"verif/lint/engine"
)

// S-STATE: the tiny accessors every other rule trusts by name. A getter that
// returns the wrong field, or a setter that writes the wrong one, would turn
// all descriptor-level guarantees into statements about the wrong quantity.
func sState(c *Ctx, rule string) {
	atomicPairs := []struct{ get, set, field string }{
		{"(*raftState).getCurrentTerm", "(*raftState).setCurrentTerm", "currentTerm"},
		{"(*raftState).getCommitIndex", "(*raftState).setCommitIndex", "commitIndex"},
		{"(*raftState).getLastApplied", "(*raftState).setLastApplied", "lastApplied"},
	}
	for _, ap := range atomicPairs {
		if fn := c.Fn(rule, ap.get); fn != nil {
			for _, ret := range engine.ReturnsOf(fn) {
				d := c.P.D(engine.ReturnValues(ret)[0])
				c.Check(rule, ap.get+":reads "+ap.field, c.P.InstrPos(ret), "returns an atomic load of raftState."+ap.field, d == "sync/atomic.LoadUint64(recv."+ap.field+")", "returns "+d, 1)
			}
		}
		if fn := c.Fn(rule, ap.set); fn != nil {
			f := c.P.LookupField("raftState", ap.field)
			ws := c.P.FieldWritesIn(fn, f)
			ok := len(ws) == 1
			d := ""
			if ok {
				v, _ := c.P.StoredValue(ws[0].Instr, f)
				d = c.P.D(v)
				ok = d == "p1"
			}
			c.Check(rule, ap.set+":writes "+ap.field, c.P.Pos(fn.Pos()), "atomically stores its argument into raftState."+ap.field+" (and nothing else)", ok, fmt.Sprintf("%d write(s), value %s", len(ws), d), 1)
		}
	}
	pairs := []struct{ get, set, idx, term string }{
		{"(*raftState).getLastLog", "(*raftState).setLastLog", "lastLogIndex", "lastLogTerm"},
		{"(*raftState).getLastSnapshot", "(*raftState).setLastSnapshot", "lastSnapshotIndex", "lastSnapshotTerm"},
	}
	for _, pp := range pairs {
		if fn := c.Fn(rule, pp.get); fn != nil {
			for _, ret := range engine.ReturnsOf(fn) {
				vals := engine.ReturnValues(ret)
				ok := len(vals) == 2 && c.P.D(vals[0]) == "recv."+pp.idx && c.P.D(vals[1]) == "recv."+pp.term
				c.Check(rule, pp.get+":returns-pair", c.P.InstrPos(ret), "returns ("+pp.idx+", "+pp.term+")", ok, "returns "+c.P.D(vals[0])+", "+c.P.D(vals[len(vals)-1]), 1)
			}
		}
		if fn := c.Fn(rule, pp.set); fn != nil {
			ok := true
			got := []string{}
			for i, f := range []string{pp.idx, pp.term} {
				fv := c.P.LookupField("raftState", f)
				ws := c.P.FieldWritesIn(fn, fv)
				if len(ws) != 1 {
					ok = false
					continue
				}
				v, _ := c.P.StoredValue(ws[0].Instr, fv)
				got = append(got, f+"="+c.P.D(v))
				if c.P.D(v) != fmt.Sprintf("p%d", i+1) {
					ok = false
				}
			}
			c.Check(rule, pp.set+":stores-pair", c.P.Pos(fn.Pos()), "stores (index, term) into ("+pp.idx+", "+pp.term+")", ok, strings.Join(got, ", "), 1)
			settersUnconditional(c, rule, pp.set, "raftState", pp.idx, pp.term)
		}
	}
	// each of the four position fields has exactly its setter as writer
	for _, f := range []string{"lastLogIndex", "lastLogTerm", "lastSnapshotIndex", "lastSnapshotTerm"} {
		fv := c.P.LookupField("raftState", f)
		if fv == nil {
			c.Bad(rule, "anchor:raftState."+f, "-", "field exists", "not found")
			continue
		}
		setter := "(*raftState).setLastLog"
		if strings.Contains(f, "Snapshot") {
			setter = "(*raftState).setLastSnapshot"
		}
		c.WhoMay(rule, "write raftState."+f, c.P.FieldWrites(fv), map[string]string{setter: "the setter"})
	}
	if fn := c.Fn(rule, "(*raftState).getLastIndex"); fn != nil {
		for _, ret := range engine.ReturnsOf(fn) {
			d := c.P.D(engine.ReturnValues(ret)[0])
			ok := d == "max(recv.lastLogIndex, recv.lastSnapshotIndex)" || d == "max(recv.lastSnapshotIndex, recv.lastLogIndex)"
			c.Check(rule, "getLastIndex:max-of-log-and-snapshot", c.P.InstrPos(ret), "last index = max(last log index, last snapshot index)", ok, "returns "+d, 1)
		}
	}
	if fn := c.Fn(rule, "(*raftState).getLastEntry"); fn != nil {
		bad := ""
		for _, o := range []engine.OrdSet{engine.LT, engine.EQ, engine.GT} {
			r := c.Run(&engine.Automaton{Fn: fn, Oracle: func(ifi *ssa.If, cd engine.Cond) engine.EdgeChoice {
				if s, ok := cd.RelOn("recv.lastLogIndex", "recv.lastSnapshotIndex"); ok {
					if s&o != 0 {
						return engine.TrueOnly
					}
					return engine.FalseOnly
				}
				return engine.Both
			}})
			n := 0
			for _, ret := range engine.ReturnsOf(fn) {
				if !r.Reached(ret) {
					continue
				}
				n++
				vals := engine.ReturnValues(ret)
				i, t := c.P.D(vals[0]), c.P.D(vals[1])
				logPair := i == "recv.lastLogIndex" && t == "recv.lastLogTerm"
				snapPair := i == "recv.lastSnapshotIndex" && t == "recv.lastSnapshotTerm"
				switch o {
				case engine.GT:
					if !logPair {
						bad = "log ahead of snapshot but returns (" + i + ", " + t + ")"
					}
				case engine.LT:
					if !snapPair {
						bad = "snapshot ahead of log but returns (" + i + ", " + t + ")"
					}
				default:
					// a tie is decided for the log: after an InstallSnapshot that kept the
					// log, a stale entry of an older term may sit at the snapshot index;
					// answering with the snapshot's term would let the follower accept a
					// request built on the leader's entry and append behind the stale one
					if !logPair {
						bad = "equal indexes: must return the log's own pair, returns (" + i + ", " + t + ")"
					}
				}
			}
			if n != 1 && bad == "" {
				bad = fmt.Sprintf("%d reachable returns for log %s snapshot", n, ordNames[o])
			}
		}
		c.Check(rule, "getLastEntry:newest-of-log-and-snapshot", c.P.Pos(fn.Pos()), "returns the (index, term) pair of whichever of log tail / snapshot has the larger index, the log's pair on a tie, never a mixed pair (3 orderings)", bad == "", pick(bad == "", "verified over 3 orderings", bad), 3)
	}
	// configuration setters
	for _, sp := range []struct{ fn, cfg, idx string }{
		{"(*Raft).setLatestConfiguration", "latest", "latestIndex"},
		{"(*Raft).setCommittedConfiguration", "committed", "committedIndex"},
	} {
		fn := c.Fn(rule, sp.fn)
		if fn == nil {
			continue
		}
		ok := true
		var got []string
		for i, f := range []string{sp.cfg, sp.idx} {
			fv := c.P.LookupField("configurations", f)
			n := 0
			for _, w := range c.P.FieldWritesIn(fn, fv) {
				v, _ := c.P.StoredValue(w.Instr, fv)
				d := c.P.D(v)
				got = append(got, f+"="+d)
				n++
				if d != fmt.Sprintf("p%d", i+1) && !(i == 0 && d == "var(Configuration)") {
					ok = false
				}
			}
			if n != 1 {
				ok = false
			}
		}
		c.Check(rule, sp.fn+":stores-pair", c.P.Pos(fn.Pos()), "stores (configuration, index) into configurations."+sp.cfg+" / ."+sp.idx, ok, strings.Join(got, ", "), 1)
		settersUnconditional(c, rule, sp.fn, "configurations", sp.cfg, sp.idx)
		if sp.cfg == "latest" {
			// what other goroutines (GetConfiguration, Stats, the transport's
			// address lookups) can reach is a deep copy, never the main loop's own
			// Servers slice: a caller editing "its" configuration must not be
			// editing the voter set that quorumSize and the lease check read
			n := 0
			for _, st := range c.P.CallsIn(fn, engine.Is("(*sync/atomic.Value).Store")) {
				if c.P.D(engine.RecvValue(st.Instr)) != "recv.latestConfiguration" {
					continue
				}
				n++
				a := c.P.Arg(st.Instr, 0)
				c.Check(rule, sp.fn+":publishes-a-clone", c.P.InstrPos(st.Instr), "the configuration published for other goroutines is Clone() of the one the main loop keeps", strings.HasSuffix(a, ".Clone()"), "Store("+a+")", 1)
			}
			if n != 1 {
				c.Bad(rule, sp.fn+":publishes-a-clone", c.P.Pos(fn.Pos()), "one latestConfiguration.Store", fmt.Sprintf("%d", n))
			}
		}
	}
	if fn := c.Fn(rule, "(*Raft).processConfigurationLogEntry"); fn != nil {
		for _, s := range c.P.CallsIn(fn, engine.Is("(*Raft).setLatestConfiguration")) {
			a0, a1 := c.P.Arg(s.Instr, 0), c.P.Arg(s.Instr, 1)
			ok := (a0 == "DecodeConfiguration(p1.Data)" || a0 == "decodePeers(p1.Data, recv.trans)#0") && a1 == "p1.Index"
			c.Check(rule, "processConfigurationLogEntry:latest-from-entry", c.P.InstrPos(s.Instr), "the latest configuration becomes the one decoded from this entry, at this entry's index", ok, "("+a0+", "+a1+")", 1)
		}
		r := c.Run(&engine.Automaton{Fn: fn, Tracks: []engine.Track{
			engine.Event("shifted", func(in ssa.Instruction) bool {
				cc := engine.CallCommonOf(in)
				return cc != nil && c.P.CalleeName(cc) == "(*Raft).setCommittedConfiguration" && c.P.Arg(in, 0) == "recv.configurations.latest" && c.P.Arg(in, 1) == "recv.configurations.latestIndex"
			}),
		}})
		for _, s := range c.P.CallsIn(fn, engine.Is("(*Raft).setLatestConfiguration")) {
			c.RequireAt(r, rule, "processConfigurationLogEntry:previous-latest-becomes-committed", s.Instr, "before a newer configuration replaces it, the previous latest configuration is recorded as committed (at most one uncommitted configuration is tracked)", func(v engine.View) bool { return v.Seen("shifted") })
		}
	}
	if fn := c.Fn(rule, "asyncNotifyCh"); fn != nil {
		ok := false
		engine.EachInstr(fn, func(in ssa.Instruction) {
			if sel, isSel := in.(*ssa.Select); isSel && !sel.Blocking && len(sel.States) == 1 && c.P.D(sel.States[0].Chan) == "p1" {
				ok = true
			}
		})
		c.Check(rule, "asyncNotifyCh:non-blocking-send", c.P.Pos(fn.Pos()), "a non-blocking send on the given channel", ok, pick(ok, "select{case ch<-: default:}", "different shape"), 1)
	}
	if fn := c.Fn(rule, "inConfiguration"); fn != nil {
		r := c.Run(&engine.Automaton{Fn: fn, Tracks: []engine.Track{engine.PredRel("idMatch", "val(range p1.Servers).ID", "p2", engine.EQ)}})
		for i, ret := range engine.ReturnsOf(fn) {
			d := c.P.D(engine.ReturnValues(ret)[0])
			if d == "true" {
				c.RequireAt(r, rule, fmt.Sprintf("inConfiguration:return-true#%d", i+1), ret, "true only for a server whose ID matched", func(v engine.View) bool { return v.T("idMatch") })
			}
		}
	}
}

// sTransferFlag: the leadership-transfer flag the leader loop tests before
// taking client requests means what its accessors say.
func sTransferFlag(c *Ctx, rule string) {
	fld := c.P.LookupField("leaderState", "leadershipTransferInProgress")
	if fld == nil {
		c.Bad(rule, "anchor:leaderState.leadershipTransferInProgress", "-", "field exists", "not found")
		return
	}
	if fn := c.Fn(rule, "(*Raft).getLeadershipTransferInProgress"); fn != nil {
		for _, ret := range engine.ReturnsOf(fn) {
			d := c.P.D(engine.ReturnValues(ret)[0])
			c.Check(rule, "getLeadershipTransferInProgress:reads-flag", c.P.InstrPos(ret), "true exactly when the flag is 1", d == "(sync/atomic.LoadInt32(recv.leaderState.leadershipTransferInProgress) == 1)", "returns "+d, 1)
		}
	}
	if fn := c.Fn(rule, "(*Raft).setLeadershipTransferInProgress"); fn != nil {
		r := c.Run(&engine.Automaton{Fn: fn, Tracks: []engine.Track{engine.PredBool("on", DescIs("p1"))}})
		n := 0
		for _, w := range c.P.FieldWritesIn(fn, fld) {
			v, _ := c.P.StoredValue(w.Instr, fld)
			d := c.P.D(v)
			n++
			c.RequireAt(r, rule, "setLeadershipTransferInProgress:"+d, w.Instr, "stores 1 for true and 0 for false", func(vw engine.View) bool {
				return (d == "1" && vw.T("on")) || (d == "0" && vw.F("on"))
			})
		}
		if n != 2 {
			c.Bad(rule, "setLeadershipTransferInProgress:writes", c.P.Pos(fn.Pos()), "two stores (1 / 0)", fmt.Sprintf("%d", n))
		}
	}
	c.WhoMay(rule, "write leaderState.leadershipTransferInProgress", c.P.FieldWrites(fld), map[string]string{"(*Raft).setLeadershipTransferInProgress": "the setter"})
	// the flag is raised by the main loop itself, in the very iteration that
	// accepts the transfer and before the worker is started: raised by another
	// goroutine, the next iteration can still take a Restore/Apply/membership
	// request although the hand-over has begun
	if ll := c.P.Fn("(*Raft).leaderLoop"); ll != nil {
		var raisers []engine.Site
		for _, s := range c.P.CallsEverywhere(engine.Is("(*Raft).setLeadershipTransferInProgress")) {
			if c.P.Arg(s.Instr, 0) != "false" {
				raisers = append(raisers, s)
			}
		}
		c.WhoMay(rule, "raise the leadership-transfer flag", raisers, map[string]string{"(*Raft).leaderLoop": "the main loop, synchronously in the arm that accepts the transfer"})
		lsel := loopSelect(c, ll)
		r := c.Run(&engine.Automaton{Fn: ll, Tracks: []engine.Track{
			engine.Event("raised", callWithArg0(c, "(*Raft).setLeadershipTransferInProgress", "true")),
			engine.Event("nextIteration", func(in ssa.Instruction) bool { return lsel != nil && in == ssa.Instruction(lsel) }, "raised"),
		}})
		n := 0
		engine.EachInstr(ll, func(in ssa.Instruction) {
			g, ok := in.(*ssa.Go)
			if !ok || c.P.GoTargetName(g) != "(*Raft).leadershipTransfer" {
				return
			}
			n++
			c.RequireAt(r, rule, "leaderLoop:flag-raised-before-transfer-worker", in, "the worker is started only after setLeadershipTransferInProgress(true) ran in this iteration of the main loop", func(v engine.View) bool { return v.Seen("raised") })
		})
		if n != 1 {
			c.Bad(rule, "leaderLoop:transfer-worker-start", c.P.Pos(ll.Pos()), "one start of the transfer worker", fmt.Sprintf("%d", n))
		}
	}
	// every client-facing arm of the leader loop consults the flag first
	if ll := c.Fn(rule, "(*Raft).leaderLoop"); ll != nil {
		sel := loopSelect(c, ll)
		if sel != nil {
			for k, st := range sel.States {
				chd := c.P.D(st.Chan)
				switch chd {
				case "recv.applyCh", "recv.userRestoreCh", "recv.configurationChangeChIfStable()", "recv.leadershipTransferCh":
				default:
					continue
				}
				arm := engine.SelectArmEntry(sel, k)
				if arm == nil {
					continue
				}
				first := ""
				for _, in := range arm.Instrs {
					cc := engine.CallCommonOf(in)
					if cc == nil {
						continue
					}
					n := c.P.CalleeName(cc)
					if strings.Contains(n, "saturation") || strings.Contains(n, "hclog") || strings.Contains(n, "metrics") {
						continue
					}
					first = n
					break
				}
				c.Check(rule, "leaderLoop:"+strings.TrimPrefix(chd, "recv.")+"-arm-tests-transfer-first", c.P.InstrPos(sel), "the arm's first action is the leadership-transfer test (requests are refused, not queued, while leadership is being handed over)", first == "(*Raft).getLeadershipTransferInProgress", "first call: "+first, 1)
			}
		}
	}
}

// settersUnconditional: a plain setter writes its fields on every path – a
// guard such as "only if the index moves forward" silently drops the rollback
// that callers rely on (appendEntries re-installing the committed
// configuration after truncating an uncommitted one, setLastLog after a
// wholesale log reset).
func settersUnconditional(c *Ctx, rule, fnName string, typ string, fields ...string) {
	fn := c.P.Fn(fnName)
	if fn == nil {
		return
	}
	var tracks []engine.Track
	for _, f := range fields {
		fv := c.P.LookupField(typ, f)
		if fv == nil {
			continue
		}
		fv2 := fv
		tracks = append(tracks, engine.Event(f, func(in ssa.Instruction) bool {
			_, ok := c.P.StoredValue(in, fv2)
			return ok
		}))
	}
	r := c.Run(&engine.Automaton{Fn: fn, Tracks: tracks})
	for i, ret := range engine.RawReturnsOf(fn) {
		c.RequireAt(r, rule, fmt.Sprintf("%s:writes-on-every-path#%d", fnName, i+1), ret, "the setter stores "+strings.Join(fields, " and ")+" on every path (no early return, no guard)", func(v engine.View) bool {
			for _, f := range fields {
				if !v.Seen(f) {
					return false
				}
			}
			return true
		})
	}
}
