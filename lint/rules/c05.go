package rules

import (
	"fmt"
	"go/token"
	"go/types"
	"strings"

	"golang.org/x/tools/go/ssa"

	"verif/lint/engine"
)

func init() {
	register(&Property{
		ID:          "C05",
		Explanation: "Decided structurally: the commitment tracker has slots only for voters (both constructors guard the map store with Suffrage == Voter) and updates a slot only when it exists and the new match is larger; recalculate() collects exactly the slot values, sorts them ascending and picks index k(n) which, folded for every n in 1..64, is stored by a strict majority of slots (2(n-k) > n, 0 <= k < n); it raises commitIndex only when the quorum value is larger than the current one and >= startIndex, startIndex being lastIndex+1 at the moment leadership starts; the leader counts itself only after its own StoreLogs succeeded and followers only from successful responses; the reported commit index has exactly three writers: leaderLoop (the tracker's value), appendEntries (only upward, min(leaderCommit, lastIndex)) and start-up replay (clamped to LastIndex()).",
		NotDecided:  "that a follower's acknowledged match reflects durable state on that remote server at run time (the follower-side ordering is decided per handler by S-DURABLE, linking the two is behavioural).",
		RuleText:    "C05.R1 guards of every matchIndexes update; R2 sort direction + folded quorum index; R3 guards of the commitIndex store and origin of startIndex; R4 frozen table and guards of setCommitIndex callers; R5 shared groups S-DURABLE, S-MATCH, S-QUORUM.",
		Run:         c05,
	})
}

func c05(c *Ctx) {
	c05R1(c, "R1")
	c05R2(c, "R2")
	c05R3(c, "R3")
	c05R4(c, "R4")
	sDurable(c, "R5/S-DURABLE")
	sMatch(c, "R5/S-MATCH")
	sQuorum(c, "R5/S-QUORUM")
	sState(c, "R6/S-STATE")
	c05R7(c, "R7")
	sLockDiscipline(c, "R8/S-LOCK", "commitment")
	sAtomicOnly(c, "R8/S-ATOMIC")
}

func c05R1(c *Ctx, rule string) {
	mi := c.Field(rule, "commitment", "matchIndexes")
	if mi == nil {
		return
	}
	// all map updates whose map is (or becomes) commitment.matchIndexes
	type upd struct {
		fn *ssa.Function
		in *ssa.MapUpdate
	}
	var ups []upd
	for _, name := range []string{"newCommitment", "(*commitment).setConfiguration", "(*commitment).match"} {
		fn := c.Fn(rule, name)
		if fn == nil {
			continue
		}
		engine.EachInstr(fn, func(in ssa.Instruction) {
			if mu, ok := in.(*ssa.MapUpdate); ok {
				if strings.HasPrefix(c.P.TypeStr(mu.Map.Type()), "map[ServerID]uint64") {
					ups = append(ups, upd{fn, mu})
				}
			}
		})
	}
	// nobody else touches the map
	var sites []engine.Site
	for _, fn := range c.P.AllFuncs() {
		engine.EachInstr(fn, func(in ssa.Instruction) {
			if mu, ok := in.(*ssa.MapUpdate); ok && c.P.TypeStr(mu.Map.Type()) == "map[ServerID]uint64" {
				sites = append(sites, engine.Site{Fn: fn, Instr: in})
			}
		})
	}
	c.WhoMay(rule, "update a map[ServerID]uint64 (the match-index table)", sites, map[string]string{
		"newCommitment":                  "initial slots, voters only",
		"(*commitment).setConfiguration": "re-keyed slots, voters only",
		"(*commitment).match":            "raise an existing slot",
	})
	c.WhoMay(rule, "write commitment.matchIndexes", c.P.FieldWrites(mi), map[string]string{
		"newCommitment":                  "fresh map",
		"(*commitment).setConfiguration": "fresh map on reconfiguration",
	})
	for _, u := range ups {
		name := c.P.Name(u.fn)
		switch name {
		case "newCommitment", "(*commitment).setConfiguration":
			r := c.Run(&engine.Automaton{Fn: u.fn, Tracks: []engine.Track{engine.PredCond("voter", func(cd engine.Cond) (bool, int) {
				if cd.IsRel && strings.HasSuffix(cd.X, ".Suffrage") {
					return voterCond(cd, cd.X)
				}
				return false, 0
			})}})
			key := c.P.D(u.in.Key)
			c.RequireAt(r, rule, name+":slot-only-for-voters", u.in, "Suffrage == Voter of the very server whose ID keys the slot", func(v engine.View) bool {
				return v.T("voter") && strings.HasPrefix(key, "val(range ") && strings.HasSuffix(key, ".Servers).ID")
			})
		case "(*commitment).match":
			r := c.Run(&engine.Automaton{Fn: u.fn, Tracks: []engine.Track{
				engine.PredBool("has", DescIs("recv.matchIndexes[p1]#1")),
				engine.PredRel("larger", "p2", "recv.matchIndexes[p1]#0", engine.GT),
				engine.Event("locked", c.P.IsCallTo(engine.Is("(*sync.Mutex).Lock"))),
				// the lookup that the guard tests and the update happen in ONE critical
				// section: an Unlock in between lets setConfiguration swap the table
				engine.Event("looked", func(in ssa.Instruction) bool {
					lk, ok := in.(*ssa.Lookup)
					return ok && lk.CommaOk && c.P.D(lk.X) == "recv.matchIndexes"
				}, "released"),
				engine.Event("released", func(in ssa.Instruction) bool {
					if _, isDefer := in.(*ssa.Defer); isDefer {
						return false
					}
					cc := engine.CallCommonOf(in)
					return cc != nil && (c.P.CalleeName(cc) == "(*sync.Mutex).Unlock" || c.P.CalleeName(cc) == "(*sync.RWMutex).Unlock" || c.P.CalleeName(cc) == "(*sync.RWMutex).RUnlock")
				}),
			}})
			c.RequireAt(r, rule, "match:check-and-update-in-one-critical-section", u.in, "the slot lookup the guard tests and the update are not separated by an Unlock", func(v engine.View) bool {
				return v.Seen("looked") && !v.Seen("released")
			})
			ok := c.P.D(u.in.Key) == "p1" && c.P.D(u.in.Value) == "p2"
			c.RequireAt(r, rule, "match:raise-existing-slot-only", u.in, "slot exists (comma-ok) ∧ new match > previous, under the lock; stores matchIndexes[server] = matchIndex", func(v engine.View) bool {
				return ok && v.T("has") && v.T("larger") && v.Seen("locked")
			})
		}
	}
	if len(ups) < 3 {
		c.Bad(rule, "matchIndexes:update-sites", "-", "three update sites (constructor, reconfiguration, match)", fmt.Sprintf("%d found", len(ups)))
	}
	// setConfiguration recalculates after re-keying
	if fn := c.P.Fn("(*commitment).setConfiguration"); fn != nil {
		r := c.Run(&engine.Automaton{Fn: fn, Tracks: []engine.Track{engine.Event("recalc", c.P.IsCallTo(engine.Is("(*commitment).recalculate")))}})
		for _, ret := range engine.ReturnsOf(fn) {
			c.RequireAt(r, rule, "setConfiguration:recalculates", ret, "recalculate() runs after the slots were re-keyed", func(v engine.View) bool { return v.Seen("recalc") })
		}
	}
}

func peel(v ssa.Value) ssa.Value {
	for {
		switch x := v.(type) {
		case *ssa.ChangeType:
			v = x.X
		case *ssa.Convert:
			v = x.X
		case *ssa.MakeInterface:
			v = x.X
		default:
			return v
		}
	}
}

func c05R2(c *Ctx, rule string) {
	fn := c.Fn(rule, "(*commitment).recalculate")
	ci := c.Field(rule, "commitment", "commitIndex")
	if fn == nil || ci == nil {
		return
	}
	ws := c.P.FieldWritesIn(fn, ci)
	if len(ws) != 1 {
		c.Bad(rule, "recalculate:commitIndex-store", c.P.Pos(fn.Pos()), "exactly one store to commitIndex", fmt.Sprintf("%d", len(ws)))
		return
	}
	val, _ := c.P.StoredValue(ws[0].Instr, ci)
	// val is a load of IndexAddr(slice, k)
	var slice, kexpr ssa.Value
	if u, ok := val.(*ssa.UnOp); ok && u.Op == token.MUL {
		if ia, ok := u.X.(*ssa.IndexAddr); ok {
			slice, kexpr = ia.X, ia.Index
		}
	}
	if ix, ok := val.(*ssa.Index); ok {
		slice, kexpr = ix.X, ix.Index
	}
	if slice == nil {
		c.Bad(rule, "recalculate:quorum-value-shape", c.P.InstrPos(ws[0].Instr), "the committed value is an element of the sorted match slice", "value is "+c.P.D(val))
		return
	}
	// sorted by sort.Sort on the same slice
	var sortCall ssa.Instruction
	var sortType types.Type
	for _, s := range c.P.CallsIn(fn, engine.Is("sort.Sort", "sort.Stable")) {
		arg := engine.CallCommonOf(s.Instr).Args[0]
		if peel(arg) == peel(slice) {
			sortCall = s.Instr
			if mi, ok := arg.(*ssa.MakeInterface); ok {
				sortType = mi.X.Type()
			}
		}
	}
	if sortCall == nil || sortType == nil {
		c.Bad(rule, "recalculate:sorted", c.P.InstrPos(ws[0].Instr), "the slice indexed for the quorum value was sorted with sort.Sort", "no sort.Sort call on that slice")
		return
	}
	// must-precede: sort before the index
	r := c.Run(&engine.Automaton{Fn: fn, Tracks: []engine.Track{
		engine.Event("sorted", func(in ssa.Instruction) bool { return in == sortCall }),
		engine.PredRel("empty", "len(recv.matchIndexes)", "0", engine.EQ),
	}})
	c.RequireAt(r, rule, "recalculate:sort-before-pick", ws[0].Instr, "sorted before the quorum element is read; empty table returned early", func(v engine.View) bool { return v.Seen("sorted") && v.F("empty") })
	// Less direction
	asc, lessOK := lessDirection(c, sortType)
	c.Check(rule, "recalculate:less-shape", c.P.InstrPos(sortCall), "the sort's Less is p[i] < p[j] (ascending) or p[i] > p[j] (descending)", lessOK, pick(lessOK, pick(asc, "ascending", "descending"), "unrecognised Less body for "+c.P.TypeStr(sortType)), 1)
	if n, ok := sortType.(*types.Named); ok {
		sortSupportSound(c, rule, n.Obj().Name())
	}
	if !lessOK {
		return
	}
	// slice is filled with every slot value
	filled := false
	engine.EachInstr(fn, func(in ssa.Instruction) {
		if st, ok := in.(*ssa.Store); ok && c.P.D(st.Val) == "val(range recv.matchIndexes)" {
			filled = true
		}
	})
	c.Check(rule, "recalculate:collects-all-slots", c.P.Pos(fn.Pos()), "the sorted slice is built by appending every value of matchIndexes", filled, pick(filled, "append of val(range matchIndexes) found", "no such append"), 1)
	// fold k(n)
	f := engine.NewFolder(c.P)
	leaves := f.Leaves(kexpr)
	if len(leaves) != 1 || !strings.HasPrefix(c.P.D(leaves[0]), "len(") {
		c.Bad(rule, "recalculate:quorum-index", c.P.InstrPos(ws[0].Instr), "the index is a function of len(slice) only", "index "+c.P.D(kexpr))
		return
	}
	bad := ""
	for n := int64(1); n <= 64; n++ {
		k, err := f.Eval(kexpr, map[ssa.Value]int64{leaves[0]: n})
		if err != nil {
			bad = err.Error()
			break
		}
		if k < 0 || k >= n {
			bad = fmt.Sprintf("n=%d: index %d out of range", n, k)
			break
		}
		holders := n - k // ascending: elements >= picked
		if !asc {
			holders = k + 1
		}
		if !(2*holders > n) {
			bad = fmt.Sprintf("n=%d voters: element %d of the %s slice is matched by only %d servers – not a strict majority", n, k, pick(asc, "ascending", "descending"), holders)
			break
		}
		// not needlessly conservative either (liveness): holders-1 would not be a majority... only informational
	}
	c.Check(rule, "recalculate:quorum-index", c.P.InstrPos(ws[0].Instr), "for every n in 1..64 the picked element is stored by a strict majority of the n voters; index = "+c.P.D(kexpr), bad == "", pick(bad == "", "holds for n = 1..64", bad), 64)
}

// lessDirection inspects the Less method of a sort.Interface implementation.
func lessDirection(c *Ctx, t types.Type) (asc bool, ok bool) {
	n, isNamed := t.(*types.Named)
	if !isNamed {
		return false, false
	}
	fn := c.P.Fn("(" + n.Obj().Name() + ").Less")
	if fn == nil {
		fn = c.P.Fn("(*" + n.Obj().Name() + ").Less")
	}
	if fn == nil {
		return false, false
	}
	c.FnsTouched[c.P.Name(fn)] = true
	rets := engine.ReturnsOf(fn)
	if len(rets) != 1 || len(rets[0].Results) != 1 {
		return false, false
	}
	cd := c.P.CondOf(rets[0].Results[0])
	if !cd.IsRel {
		return false, false
	}
	if s, ok := cd.RelOn("recv[p1]", "recv[p2]"); ok {
		if s == engine.LT {
			return true, true
		}
		if s == engine.GT {
			return false, true
		}
	}
	return false, false
}

func c05R3(c *Ctx, rule string) {
	fn := c.Fn(rule, "(*commitment).recalculate")
	ci := c.Field(rule, "commitment", "commitIndex")
	si := c.Field(rule, "commitment", "startIndex")
	if fn == nil || ci == nil || si == nil {
		return
	}
	c.WhoMay(rule, "write commitment.commitIndex", c.P.FieldWrites(ci), map[string]string{
		"newCommitment":             "initialised to 0",
		"(*commitment).recalculate": "raised to the quorum value",
	})
	for _, s := range c.P.FieldWritesIn(fn, ci) {
		v, _ := c.P.StoredValue(s.Instr, ci)
		d := c.P.D(v)
		r := c.Run(&engine.Automaton{Fn: fn, Tracks: []engine.Track{
			engine.PredRel("higher", d, "recv.commitIndex", engine.GT),
			engine.PredRel("thisTerm", d, "recv.startIndex", engine.GT|engine.EQ),
		}})
		c.RequireAt(r, rule, "recalculate:monotone-and-current-term", s.Instr, "quorum value > commitIndex (never decreases) ∧ quorum value >= startIndex (nothing commits before an entry of this leader's term does)", func(v engine.View) bool {
			return v.T("higher") && v.T("thisTerm")
		})
	}
	ws := c.P.FieldWrites(si)
	c.WhoMay(rule, "write commitment.startIndex", ws, map[string]string{"newCommitment": "constructor"})
	for _, s := range ws {
		v, _ := c.P.StoredValue(s.Instr, si)
		c.Check(rule, "newCommitment:startIndex-from-parameter", c.P.InstrPos(s.Instr), "startIndex = the constructor's startIndex parameter", c.P.D(v) == "p3", "= "+c.P.D(v), 1)
	}
	calls := c.P.CallsEverywhere(engine.Is("newCommitment"))
	c.WhoMay(rule, "call newCommitment", calls, map[string]string{"(*Raft).setupLeaderState": "once per leadership"})
	for _, s := range calls {
		a := c.P.Arg(s.Instr, 2)
		c.Check(rule, "setupLeaderState:startIndex-value", c.P.InstrPos(s.Instr), "startIndex = getLastIndex()+1 (first index of this leader's term)", a == "(recv.raftState.getLastIndex() + 1)", "= "+a, 1)
		a1 := c.P.Arg(s.Instr, 1)
		c.Check(rule, "setupLeaderState:voter-set", c.P.InstrPos(s.Instr), "the tracker is built from configurations.latest", a1 == "recv.configurations.latest", "= "+a1, 1)
	}
	c.WhoMay(rule, "call (*Raft).setupLeaderState", c.P.CallsEverywhere(engine.Is("(*Raft).setupLeaderState")), map[string]string{"(*Raft).runLeader": "on becoming leader"})
	// runLeader: setup ≺ replication ≺ no-op ≺ loop
	if rl := c.Fn(rule, "(*Raft).runLeader"); rl != nil {
		r := c.Run(&engine.Automaton{Fn: rl, Tracks: []engine.Track{
			engine.Event("setup", c.P.IsCallTo(engine.Is("(*Raft).setupLeaderState"))),
			engine.Event("repl", c.P.IsCallTo(engine.Is("(*Raft).startStopReplication"))),
			engine.Event("noop", c.P.IsCallTo(engine.Is("(*Raft).dispatchLogs"))),
		}})
		for _, s := range c.P.CallsIn(rl, engine.Is("(*Raft).leaderLoop")) {
			c.RequireAt(r, rule, "runLeader:noop-before-loop", s.Instr, "setupLeaderState ≺ startStopReplication ≺ dispatchLogs(no-op) ≺ leaderLoop", func(v engine.View) bool { return v.Seen("setup") && v.Seen("repl") && v.Seen("noop") })
		}
		for _, s := range c.P.CallsIn(rl, engine.Is("(*Raft).dispatchLogs")) {
			a := c.P.Arg(s.Instr, 0)
			// the dispatched future's log type is LogNoop
			isNoop := false
			if lt := c.P.LookupField("Log", "Type"); lt != nil {
				for _, w := range c.P.FieldWritesIn(rl, lt) {
					v, _ := c.P.StoredValue(w.Instr, lt)
					if c.P.D(v) == "LogNoop" {
						isNoop = true
					}
				}
			}
			c.RequireAt(r, rule, "runLeader:noop-dispatch", s.Instr, "a LogNoop entry of the new term is dispatched after leader state and replication are set up", func(v engine.View) bool { return v.Seen("setup") && v.Seen("repl") && isNoop })
			_ = a
		}
	}
}

func c05R4(c *Ctx, rule string) {
	sites := c.P.CallsEverywhere(engine.Is("(*raftState).setCommitIndex"))
	c.WhoMay(rule, "call (*raftState).setCommitIndex", sites, map[string]string{
		"(*Raft).leaderLoop":               "value of the commitment tracker",
		"(*Raft).appendEntries":            "min(leaderCommit, last index the request covers), only upward",
		"(*Raft).restoreFromCommittedLogs": "start-up, clamped to LastIndex() (C10.R5)",
	})
	if f := c.Field(rule, "raftState", "commitIndex"); f != nil {
		c.WhoMay(rule, "write raftState.commitIndex", c.P.FieldWrites(f), map[string]string{"(*raftState).setCommitIndex": "the setter"})
	}
	for _, s := range sites {
		a := c.P.Arg(s.Instr, 0)
		switch c.P.Name(s.Fn) {
		case "(*Raft).leaderLoop":
			c.Check(rule, "leaderLoop:commit-value", c.P.InstrPos(s.Instr), "setCommitIndex(commitment.getCommitIndex())", a == "recv.leaderState.commitment.getCommitIndex()", "= "+a, 1)
		case "(*Raft).appendEntries":
			// Raft's follower rule: commit = min(leaderCommit, index of the last
			// entry THIS REQUEST covered). The follower's own last index is no
			// bound: what it holds beyond the request can be a stale suffix of
			// an older term (defect F9: such a suffix was committed, applied, and
			// the commit index then moved backwards). And the value itself –
			// not just leaderCommit – must exceed the current commit index.
			okB, whyB := followerCommitBound(c, s.Fn, engine.ArgValue(s.Instr, 0))
			r := c.Run(&engine.Automaton{Fn: s.Fn, Tracks: []engine.Track{
				engine.PredRel("up", a, "recv.raftState.getCommitIndex()", engine.GT),
			}})
			c.RequireAt(r, rule, "appendEntries:commit-only-upward-and-clamped", s.Instr, "value = min(a.LeaderCommitIndex, last index covered by this request) ∧ value > getCommitIndex()", func(v engine.View) bool {
				return v.T("up") && okB
			})
			c.Check(rule, "appendEntries:commit-bound-is-what-the-request-verified", c.P.InstrPos(s.Instr), "setCommitIndex(min(a.LeaderCommitIndex, a.Entries[last].Index when the request carries entries, else a.PrevLogEntry))", okB, whyB, 2)
		}
	}
	// util.min / util.max mean what their names say
	minMaxShape(c, rule)
	// getCommitIndex returns the field
	if fn := c.Fn(rule, "(*commitment).getCommitIndex"); fn != nil {
		for _, ret := range engine.ReturnsOf(fn) {
			d := c.P.D(engine.ReturnValues(ret)[0])
			c.Check(rule, "commitment.getCommitIndex:returns-field", c.P.InstrPos(ret), "returns commitIndex", d == "recv.commitIndex", "returns "+d, 1)
		}
	}
}

// minMaxShape: evaluate the bodies of util.min and util.max over the three
// orderings of their operands.
func minMaxShape(c *Ctx, rule string) {
	for _, name := range []string{"min", "max"} {
		if c.P.Fn(name) == nil && c.P.Pkg.Types.Scope().Lookup(name) == nil {
			// the package no longer declares its own helper: every min/max call
			// is the language builtin, whose meaning is not this package's to get wrong
			c.Check(rule, "util."+name+":meaning", "-", name+"(a,b) returns the "+pick(name == "min", "smaller", "larger")+" operand", true, "language builtin (no package-level "+name+")", 1)
			continue
		}
		fn := c.Fn(rule, name)
		if fn == nil {
			continue
		}
		bad := ""
		for _, o := range []engine.OrdSet{engine.LT, engine.EQ, engine.GT} {
			r := c.Run(&engine.Automaton{Fn: fn, Oracle: func(ifi *ssa.If, cd engine.Cond) engine.EdgeChoice {
				if s, ok := cd.RelOn("p1", "p2"); ok {
					if s&o != 0 {
						return engine.TrueOnly
					}
					return engine.FalseOnly
				}
				return engine.Both
			}})
			for _, ret := range engine.ReturnsOf(fn) {
				if !r.Reached(ret) {
					continue
				}
				d := c.P.D(engine.ReturnValues(ret)[0])
				want := map[string]bool{}
				switch {
				case o == engine.EQ:
					want["p1"], want["p2"] = true, true
				case (o == engine.LT) == (name == "min"):
					want["p1"] = true
				default:
					want["p2"] = true
				}
				if !want[d] {
					bad = fmt.Sprintf("%s(a,b) with a %s b returns %s", name, ordNames[o], d)
				}
			}
		}
		c.Check(rule, "util."+name+":meaning", c.P.Pos(fn.Pos()), name+"(a,b) returns the "+pick(name == "min", "smaller", "larger")+" operand for each of the 3 orderings", bad == "", pick(bad == "", "verified over 3 orderings", bad), 3)
	}
}

// c05R7: commit notifications cannot cross terms. Each term's leader state
// gets a fresh commitCh, the term's commitment tracker signals on that very
// channel, and the channel is dropped when leadership ends. (A notification
// left over from an earlier term would make the next term's leader loop copy
// the new tracker's still-zero commit index over the real one.)
func c05R7(c *Ctx, rule string) {
	f := c.Field(rule, "leaderState", "commitCh")
	if f == nil {
		return
	}
	sites := c.P.FieldWrites(f)
	c.WhoMay(rule, "write leaderState.commitCh", sites, map[string]string{
		"(*Raft).setupLeaderState": "fresh channel per term",
		"(*Raft).runLeader$defer":  "dropped when leadership ends",
	})
	if fn := c.Fn(rule, "(*Raft).setupLeaderState"); fn != nil {
		r := c.Run(&engine.Automaton{Fn: fn, Tracks: []engine.Track{
			engine.Event("fresh", func(in ssa.Instruction) bool {
				v, ok := c.P.StoredValue(in, f)
				return ok && c.P.D(v) == "make(chan struct{}, 1)"
			}),
		}})
		n := 0
		for _, s := range c.P.CallsIn(fn, engine.Is("newCommitment")) {
			n++
			c.RequireAt(r, rule, "setupLeaderState:commitment-on-fresh-channel", s.Instr, "on every path the term's commitment tracker is created on leaderState.commitCh right after that field received a new channel of capacity 1", func(v engine.View) bool {
				return v.Seen("fresh") && c.P.Arg(s.Instr, 0) == "recv.leaderState.commitCh"
			})
		}
		if n != 1 {
			c.Bad(rule, "setupLeaderState:commitment", c.P.Pos(fn.Pos()), "one newCommitment call", fmt.Sprintf("%d", n))
		}
	}
	if fn := c.Fn(rule, "(*Raft).runLeader$defer"); fn != nil {
		r := c.Run(&engine.Automaton{Fn: fn, Tracks: []engine.Track{
			engine.Event("dropped", func(in ssa.Instruction) bool {
				v, ok := c.P.StoredValue(in, f)
				return ok && c.P.D(v) == "nil"
			}),
		}})
		for i, ret := range engine.ReturnsOf(fn) {
			c.RequireAt(r, rule, fmt.Sprintf("runLeader$defer:drops-commitCh#%d", i+1), ret, "every exit from leadership clears leaderState.commitCh", func(v engine.View) bool { return v.Seen("dropped") })
		}
	}
}

// followerCommitBound decides whether v is min(a.LeaderCommitIndex, B) with B
// the last index the AppendEntries request covers: a phi of
// a.Entries[len(a.Entries)-1].Index (chosen only under len(a.Entries) > 0) and
// a.PrevLogEntry, or the arithmetic a.PrevLogEntry + len(a.Entries).
func followerCommitBound(c *Ctx, fn *ssa.Function, v ssa.Value) (bool, string) {
	call, ok := v.(*ssa.Call)
	if !ok {
		return false, "not a min(…) call: " + c.P.D(v)
	}
	n := c.P.CalleeName(call.Common())
	if (n != "min" && n != "builtin:min") || len(call.Call.Args) != 2 {
		return false, "not a min(a, b) call: " + c.P.D(v)
	}
	var bound ssa.Value
	switch {
	case c.P.D(call.Call.Args[0]) == "p2.LeaderCommitIndex":
		bound = call.Call.Args[1]
	case c.P.D(call.Call.Args[1]) == "p2.LeaderCommitIndex":
		bound = call.Call.Args[0]
	default:
		return false, "a.LeaderCommitIndex is not an operand: " + c.P.D(v)
	}
	const prev, last = "p2.PrevLogEntry", "p2.Entries[(len(p2.Entries) - 1)].Index"
	bd := c.P.D(bound)
	if bd == "(p2.PrevLogEntry + len(p2.Entries))" || bd == "(len(p2.Entries) + p2.PrevLogEntry)" {
		return true, "bound = " + bd
	}
	ph, ok := bound.(*ssa.Phi)
	if !ok || len(ph.Edges) != 2 {
		return false, "bound is " + bd + " – the follower's own last index (or anything else) does not say what this request verified"
	}
	r := c.Run(&engine.Automaton{Fn: fn, Tracks: []engine.Track{engine.PredRel("hasEntries", "len(p2.Entries)", "0", engine.GT)}})
	seen := map[string]bool{}
	for i, e := range ph.Edges {
		d := c.P.D(e)
		seen[d] = true
		for _, st := range r.EdgeStates(ph.Block().Preds[i], ph.Block()) {
			switch d {
			case last:
				if !st.T("hasEntries") {
					return false, "a.Entries[last].Index chosen without len(a.Entries) > 0"
				}
			case prev:
				if !st.F("hasEntries") {
					return false, "a.PrevLogEntry chosen although the request carries entries"
				}
			default:
				return false, "unexpected bound source " + d
			}
		}
	}
	if !seen[prev] || !seen[last] {
		return false, "bound = " + bd
	}
	return true, "bound = " + bd
}
