package engine

import (
	"fmt"
	"go/token"
	"go/types"

	"golang.org/x/tools/go/ssa"
)

// Folder evaluates the value tree of one side-effect-free integer expression
// over assignments to its leaves. It understands constants, + - * / %,
// conversions, and min/max (the repository's util.min/util.max — whose bodies
// are checked separately by a shape rule — and the builtins). Everything else
// is a leaf. No control flow, no memory, no repository code is executed.
type Folder struct {
	p *Program
	// ByDesc supplies leaf values by descriptor when a leaf is not in the
	// by-value environment.
	ByDesc map[string]int64
	// Underflow is set when an unsigned subtraction went below zero during the
	// last Eval.
	Underflow bool
}

// NewFolder makes a folder.
func NewFolder(p *Program) *Folder { return &Folder{p: p} }

func isMinMaxCall(p *Program, c *ssa.Call) (isMin, ok bool) {
	cc := c.Common()
	if cc.IsInvoke() {
		return false, false
	}
	switch f := cc.Value.(type) {
	case *ssa.Builtin:
		if f.Name() == "min" {
			return true, true
		}
		if f.Name() == "max" {
			return false, true
		}
	case *ssa.Function:
		if f.Pkg == p.SSA && f.Signature.Recv() == nil && len(cc.Args) == 2 {
			if f.Name() == "min" {
				return true, true
			}
			if f.Name() == "max" {
				return false, true
			}
		}
	}
	return false, false
}

// Leaves lists the leaf values of the expression tree of v.
func (f *Folder) Leaves(v ssa.Value) []ssa.Value {
	var out []ssa.Value
	seen := map[ssa.Value]bool{}
	var walk func(v ssa.Value)
	walk = func(v ssa.Value) {
		switch x := v.(type) {
		case *ssa.Const:
			return
		case *ssa.BinOp:
			switch x.Op {
			case token.ADD, token.SUB, token.MUL, token.QUO, token.REM:
				walk(x.X)
				walk(x.Y)
				return
			}
		case *ssa.Convert:
			walk(x.X)
			return
		case *ssa.ChangeType:
			walk(x.X)
			return
		case *ssa.Call:
			if _, ok := isMinMaxCall(f.p, x); ok {
				for _, a := range x.Common().Args {
					walk(a)
				}
				return
			}
		}
		if !seen[v] {
			seen[v] = true
			out = append(out, v)
		}
	}
	walk(v)
	return out
}

func isUnsigned(t types.Type) bool {
	b, ok := t.Underlying().(*types.Basic)
	return ok && b.Info()&types.IsUnsigned != 0
}

// Eval folds v under env (leaf value -> integer). Leaves missing from env are
// looked up by descriptor in f.ByDesc.
func (f *Folder) Eval(v ssa.Value, env map[ssa.Value]int64) (int64, error) {
	f.Underflow = false
	return f.eval(v, env, 0)
}

func (f *Folder) eval(v ssa.Value, env map[ssa.Value]int64, depth int) (int64, error) {
	if depth > 40 {
		return 0, fmt.Errorf("expression too deep")
	}
	if n, ok := env[v]; ok {
		return n, nil
	}
	switch x := v.(type) {
	case *ssa.Const:
		if x.Value == nil {
			return 0, nil
		}
		return x.Int64(), nil
	case *ssa.Convert:
		return f.eval(x.X, env, depth+1)
	case *ssa.ChangeType:
		return f.eval(x.X, env, depth+1)
	case *ssa.BinOp:
		a, err := f.eval(x.X, env, depth+1)
		if err != nil {
			return 0, err
		}
		b, err := f.eval(x.Y, env, depth+1)
		if err != nil {
			return 0, err
		}
		switch x.Op {
		case token.ADD:
			return a + b, nil
		case token.SUB:
			if isUnsigned(x.Type()) && a-b < 0 {
				f.Underflow = true
				return (a - b) + (1 << 40), nil // a very large number stands in for the wrapped value
			}
			return a - b, nil
		case token.MUL:
			return a * b, nil
		case token.QUO:
			if b == 0 {
				return 0, fmt.Errorf("division by zero")
			}
			return a / b, nil
		case token.REM:
			if b == 0 {
				return 0, fmt.Errorf("modulo by zero")
			}
			return a % b, nil
		}
	case *ssa.Call:
		if isMin, ok := isMinMaxCall(f.p, x); ok {
			args := x.Common().Args
			best, err := f.eval(args[0], env, depth+1)
			if err != nil {
				return 0, err
			}
			for _, a := range args[1:] {
				n, err := f.eval(a, env, depth+1)
				if err != nil {
					return 0, err
				}
				if (isMin && n < best) || (!isMin && n > best) {
					best = n
				}
			}
			return best, nil
		}
	}
	if f.ByDesc != nil {
		if n, ok := f.ByDesc[f.p.D(v)]; ok {
			return n, nil
		}
	}
	return 0, fmt.Errorf("unbound leaf %s", f.p.D(v))
}
