// Package engine is the program model behind raftlint: it loads the
// type-checked sources of the repository under analysis, builds go/ssa form
// for them and offers descriptors, predicates, path automata, who-may tables
// and finite-domain folding on top. Nothing of the subject is executed.
package engine

import (
	"fmt"
	"go/ast"
	"go/token"
	"go/types"
	"os"
	"path/filepath"
	"sort"
	"strings"

	"golang.org/x/tools/go/packages"
	"golang.org/x/tools/go/ssa"
	"golang.org/x/tools/go/ssa/ssautil"
)

// SubjectPath is the import path of the package every rule is about.
const SubjectPath = "github.com/hashicorp/raft"

// Program is the loaded subject.
type Program struct {
	Dir   string
	Fset  *token.FileSet
	Pkgs  []*packages.Package
	Pkg   *packages.Package // SubjectPath
	Prog  *ssa.Program
	SSA   *ssa.Package
	Files []string

	// Funcs holds every function with a body in the subject package (methods,
	// functions, and function literals), keyed by its stable name (see Name).
	Funcs map[string]*ssa.Function
	names map[*ssa.Function]string
	// CallSites counts call instructions seen in the subject package.
	CallSites int

	BuildTags []string
	GOARCH    string

	aliases   []string
	shortName map[*ssa.Function]string // baseline short name of renamed functions

	cellCache      map[*ssa.Function]map[*ssa.Alloc]*cellInfo
	allocNameCache map[*ssa.Alloc]string
}

// LoadOpts selects a build configuration.
type LoadOpts struct {
	Dir    string
	Tags   []string
	GOARCH string
}

// Load type-checks Dir/... from source and builds SSA for the subject package.
func Load(o LoadOpts) (*Program, error) {
	env := os.Environ()
	// go list must be run by a toolchain at least as new as the one that built
	// this binary; the sandbox's pre-installed go1.26.8 is used when present.
	if _, err := os.Stat("/opt/veriftools/go1.26.8/bin/go"); err == nil {
		if !strings.HasPrefix(os.Getenv("PATH"), "/opt/veriftools/go1.26.8/bin:") {
			os.Setenv("PATH", "/opt/veriftools/go1.26.8/bin:"+os.Getenv("PATH"))
		}
		env = os.Environ()
	}
	env = append(env, "GOWORK=off", "GOFLAGS=-mod=mod", "GOPROXY=off", "GOSUMDB=off", "GOTOOLCHAIN=local")
	if o.GOARCH != "" {
		env = append(env, "GOARCH="+o.GOARCH, "CGO_ENABLED=0")
	}
	cfg := &packages.Config{
		Mode:  packages.LoadSyntax,
		Dir:   o.Dir,
		Tests: false,
		Env:   env,
	}
	if len(o.Tags) > 0 {
		cfg.BuildFlags = []string{"-tags=" + strings.Join(o.Tags, ",")}
	}
	pkgs, err := packages.Load(cfg, "./...")
	if err != nil {
		return nil, fmt.Errorf("load: %w", err)
	}
	if len(pkgs) == 0 {
		return nil, fmt.Errorf("load: no packages under %s", o.Dir)
	}
	p := &Program{Dir: o.Dir, Pkgs: pkgs, BuildTags: o.Tags, GOARCH: o.GOARCH}
	for _, pk := range pkgs {
		if len(pk.Errors) > 0 {
			var sb strings.Builder
			for _, e := range pk.Errors {
				sb.WriteString(e.Error())
				sb.WriteString("\n")
			}
			return nil, fmt.Errorf("load: package %s has errors:\n%s", pk.PkgPath, sb.String())
		}
		if pk.PkgPath == SubjectPath {
			p.Pkg = pk
		}
	}
	if p.Pkg == nil {
		return nil, fmt.Errorf("load: package %s not found under %s", SubjectPath, o.Dir)
	}
	if p.Pkg.Types == nil || p.Pkg.TypesInfo == nil || len(p.Pkg.Syntax) == 0 {
		return nil, fmt.Errorf("load: package %s has no type information", SubjectPath)
	}
	p.Fset = p.Pkg.Fset
	prog, spkgs := ssautil.Packages(pkgs, ssa.InstantiateGenerics)
	p.Prog = prog
	for i, sp := range spkgs {
		if sp == nil {
			return nil, fmt.Errorf("load: no SSA for %s", pkgs[i].PkgPath)
		}
		sp.Build()
		if pkgs[i] == p.Pkg {
			p.SSA = sp
		}
	}
	for _, f := range p.Pkg.GoFiles {
		p.Files = append(p.Files, filepath.Base(f))
	}
	sort.Strings(p.Files)
	base := loadBaseline()
	if base != nil {
		p.computeFieldAliases(base)
	}
	p.indexFuncs(base)
	return p, nil
}

func (p *Program) indexFuncs(base *Baseline) {
	p.Funcs = map[string]*ssa.Function{}
	p.names = map[*ssa.Function]string{}
	p.shortName = map[*ssa.Function]string{}
	roles := p.closureRoles()
	// first pass: current top-level names, to find renamed functions
	rename := map[string]string{}
	if base != nil {
		cur := map[string]*ssa.Function{}
		for _, m := range p.SSA.Members {
			switch m := m.(type) {
			case *ssa.Function:
				if (m.Synthetic == "" || m.Name() == "init") && m.Blocks != nil {
					cur[m.Name()] = m
				}
			case *ssa.Type:
				for _, T := range []types.Type{m.Type(), types.NewPointer(m.Type())} {
					ms := p.Prog.MethodSets.MethodSet(T)
					for i := 0; i < ms.Len(); i++ {
						fn := p.Prog.MethodValue(ms.At(i))
						if fn == nil || fn.Synthetic != "" || fn.Pkg != p.SSA || fn.Blocks == nil {
							continue
						}
						cur[fn.RelString(p.SSA.Pkg)] = fn
					}
				}
			}
		}
		rename = p.funcAliases(base, cur)
		for now, was := range rename {
			_, short := recvKey(was)
			p.shortName[cur[now]] = short
		}
	}
	canon := func(n string) string {
		if w, ok := rename[n]; ok {
			return w
		}
		return n
	}
	var add func(fn *ssa.Function, name string)
	add = func(fn *ssa.Function, name string) {
		if fn == nil || fn.Blocks == nil {
			return
		}
		if _, dup := p.Funcs[name]; dup {
			for k := 2; ; k++ {
				n2 := fmt.Sprintf("%s#%d", name, k)
				if _, d := p.Funcs[n2]; !d {
					name = n2
					break
				}
			}
		}
		p.Funcs[name] = fn
		p.names[fn] = name
		for _, b := range fn.Blocks {
			for _, in := range b.Instrs {
				if _, ok := in.(ssa.CallInstruction); ok {
					p.CallSites++
				}
			}
		}
		kids := map[string]*ssa.Function{}
		var order []string
		for _, an := range fn.AnonFuncs {
			role := "func"
			if lit, ok := an.Syntax().(*ast.FuncLit); ok {
				if r, ok := roles[lit]; ok {
					role = r
				}
			}
			kn := name + "$" + role
			for k := 2; kids[kn] != nil; k++ {
				kn = fmt.Sprintf("%s$%s#%d", name, role, k)
			}
			kids[kn] = an
			order = append(order, kn)
		}
		ren := p.closureAliases(base, name, kids)
		for _, kn := range order {
			target := kn
			if w, ok := ren[kn]; ok {
				target = w
			}
			add(kids[kn], target)
		}
	}
	var members []string
	for n := range p.SSA.Members {
		members = append(members, n)
	}
	sort.Strings(members)
	for _, n := range members {
		switch m := p.SSA.Members[n].(type) {
		case *ssa.Function:
			if m.Synthetic != "" && m.Name() != "init" {
				continue
			}
			add(m, canon(m.Name()))
		case *ssa.Type:
			for _, T := range []types.Type{m.Type(), types.NewPointer(m.Type())} {
				ms := p.Prog.MethodSets.MethodSet(T)
				for i := 0; i < ms.Len(); i++ {
					sel := ms.At(i)
					fn := p.Prog.MethodValue(sel)
					if fn == nil || fn.Synthetic != "" || fn.Pkg != p.SSA {
						continue
					}
					if _, seen := p.names[fn]; seen {
						continue
					}
					add(fn, canon(fn.RelString(p.SSA.Pkg)))
				}
			}
		}
	}
}

// singleUseRole: when the variable defined by id is used exactly once in the
// file, and that use is as a call argument or as the callee of a go/defer
// statement, the role of that use; "" otherwise.
func (p *Program) singleUseRole(f *ast.File, id *ast.Ident) string {
	obj := p.Pkg.TypesInfo.Defs[id]
	if obj == nil {
		return ""
	}
	uses := 0
	role := ""
	var stack []ast.Node
	ast.Inspect(f, func(n ast.Node) bool {
		if n == nil {
			stack = stack[:len(stack)-1]
			return true
		}
		if u, ok := n.(*ast.Ident); ok && p.Pkg.TypesInfo.Uses[u] == obj {
			uses++
			role = ""
			if len(stack) > 0 {
				if call, ok := stack[len(stack)-1].(*ast.CallExpr); ok {
					if call.Fun == ast.Expr(u) {
						if len(stack) > 1 {
							switch stack[len(stack)-2].(type) {
							case *ast.DeferStmt:
								role = "defer"
							case *ast.GoStmt:
								role = "go"
							}
						}
					} else {
						switch fn := call.Fun.(type) {
						case *ast.Ident:
							role = "arg:" + fn.Name
						case *ast.SelectorExpr:
							role = "arg:" + fn.Sel.Name
						}
					}
				}
			}
		}
		stack = append(stack, n)
		return true
	})
	if uses != 1 {
		return ""
	}
	return role
}

// closureRoles gives every function literal a position-independent role: the
// name of the variable it is assigned to, or defer/go/arg:<callee>.
func (p *Program) closureRoles() map[*ast.FuncLit]string {
	roles := map[*ast.FuncLit]string{}
	for _, f := range p.Pkg.Syntax {
		var stack []ast.Node
		ast.Inspect(f, func(n ast.Node) bool {
			if n == nil {
				stack = stack[:len(stack)-1]
				return true
			}
			if lit, ok := n.(*ast.FuncLit); ok && len(stack) > 0 {
				parent := stack[len(stack)-1]
				switch pn := parent.(type) {
				case *ast.AssignStmt:
					for i, r := range pn.Rhs {
						if r == lit && i < len(pn.Lhs) {
							switch l := pn.Lhs[i].(type) {
							case *ast.Ident:
								roles[lit] = l.Name
								// a literal that is only given a name in order to be
								// passed on once ("beat := func(){…}; r.goFunc(beat)")
								// has the role of that single use
								if r2 := p.singleUseRole(f, l); r2 != "" {
									roles[lit] = r2
								}
							case *ast.SelectorExpr:
								roles[lit] = "field:" + l.Sel.Name
							}
						}
					}
				case *ast.ValueSpec:
					for i, r := range pn.Values {
						if r == lit && i < len(pn.Names) {
							roles[lit] = pn.Names[i].Name
						}
					}
				case *ast.CallExpr:
					if pn.Fun == lit {
						if len(stack) > 1 {
							switch stack[len(stack)-2].(type) {
							case *ast.DeferStmt:
								roles[lit] = "defer"
							case *ast.GoStmt:
								roles[lit] = "go"
							default:
								roles[lit] = "iife"
							}
						}
					} else {
						name := "?"
						switch fn := pn.Fun.(type) {
						case *ast.Ident:
							name = fn.Name
						case *ast.SelectorExpr:
							name = fn.Sel.Name
						}
						roles[lit] = "arg:" + name
					}
				case *ast.ReturnStmt:
					roles[lit] = "return"
				case *ast.KeyValueExpr:
					if id, ok := pn.Key.(*ast.Ident); ok {
						roles[lit] = "field:" + id.Name
					}
				}
			}
			stack = append(stack, n)
			return true
		})
	}
	return roles
}

// Name returns the stable name of a subject function ("(*Raft).runFSM$applySingle").
func (p *Program) Name(fn *ssa.Function) string {
	if fn == nil {
		return "<nil>"
	}
	if n, ok := p.names[fn]; ok {
		return n
	}
	if fn.Pkg != nil && fn.Pkg == p.SSA {
		return fn.RelString(p.SSA.Pkg)
	}
	if fn.Pkg == nil {
		// synthetic wrappers ($bound, $thunk) have no package
		return fn.RelString(p.Pkg.Types)
	}
	return fn.String()
}

// Fn looks a subject function up by stable name; nil when absent.
func (p *Program) Fn(name string) *ssa.Function { return p.Funcs[name] }

// FuncNames returns all indexed names, sorted.
func (p *Program) FuncNames() []string {
	var ns []string
	for n := range p.Funcs {
		ns = append(ns, n)
	}
	sort.Strings(ns)
	return ns
}

// Pos renders a position as file:line relative to the subject directory.
func (p *Program) Pos(pos token.Pos) string {
	if !pos.IsValid() {
		return "-"
	}
	ps := p.Fset.Position(pos)
	return fmt.Sprintf("%s:%d", filepath.Base(ps.Filename), ps.Line)
}

// InstrPos finds a usable position for an instruction (some have NoPos).
func (p *Program) InstrPos(in ssa.Instruction) string {
	if in == nil {
		return "-"
	}
	if rt, ok := in.(*ssa.Return); ok {
		in = OrigReturn(rt)
	}
	if in.Pos().IsValid() {
		return p.Pos(in.Pos())
	}
	// fall back to operands, then to neighbours in the block
	var ops []*ssa.Value
	for _, op := range in.Operands(ops) {
		if *op != nil && (*op).Pos().IsValid() {
			return p.Pos((*op).Pos())
		}
	}
	b := in.Block()
	if b != nil {
		idx := -1
		for i, x := range b.Instrs {
			if x == in {
				idx = i
			}
		}
		for d := 1; d < len(b.Instrs); d++ {
			for _, j := range []int{idx - d, idx + d} {
				if j >= 0 && j < len(b.Instrs) && b.Instrs[j].Pos().IsValid() {
					return p.Pos(b.Instrs[j].Pos()) + "~"
				}
			}
		}
	}
	if fn := in.Parent(); fn != nil {
		return p.Pos(fn.Pos()) + "~"
	}
	return "-"
}

// LookupType returns a named type of the subject package.
func (p *Program) LookupType(name string) *types.Named {
	o := p.Pkg.Types.Scope().Lookup(name)
	if o == nil {
		return nil
	}
	tn, ok := o.(*types.TypeName)
	if !ok {
		return nil
	}
	n, _ := tn.Type().(*types.Named)
	return n
}

// LookupField returns the field object of a struct type of the subject package.
func (p *Program) LookupField(typ, field string) *types.Var {
	n := p.LookupType(typ)
	if n == nil {
		return nil
	}
	st, ok := n.Underlying().(*types.Struct)
	if !ok {
		return nil
	}
	for i := 0; i < st.NumFields(); i++ {
		if fieldDisplayName(st.Field(i)) == field {
			return st.Field(i)
		}
	}
	return nil
}
