package engine

import (
	"go/token"
	"go/types"
	"sort"
	"strings"

	"golang.org/x/tools/go/ssa"
)

// Error flow. For every call whose results include an error, ErrSites
// computes what the calling function does with that error – the
// *disposition* – from the SSA def-use chains and the CFG:
//
//	diverges    the error is compared with nil and, on the non-nil edge,
//	            control never flows into the continuation of the nil edge
//	            (without first re-executing the call): return, panic,
//	            continue, goto, break out, os.Exit …
//	propagated  the error value itself is returned to the caller (directly,
//	            through a phi or through a result cell)
//	panics      the error is handed to panic
//	tolerated   the error is compared with nil but the non-nil edge flows
//	            back into the success continuation (log and carry on)
//	forwarded   the error is only handed on (stored in a future, passed to a
//	            responder, sent on a channel) without a branch
//	discarded   the error result is never read
//
// A site is *strict* when failure of the call cannot be followed by the code
// that runs after success: diverges / propagated / panics with no tolerated
// branch. The classification is structural (CFG reachability, def-use), so it
// is insensitive to how the check is spelled (if/else, switch, early return,
// tail return, inverted condition).
type ErrSite struct {
	Fn     *ssa.Function
	Call   ssa.CallInstruction
	Callee string
	Disp   string // sorted, comma-separated categories
	Strict bool
}

func errIndex(sig *types.Signature) int {
	res := sig.Results()
	for i := res.Len() - 1; i >= 0; i-- {
		if types.Identical(res.At(i).Type(), errorType) {
			return i
		}
	}
	return -1
}

// ErrSitesIn lists the error-returning calls of fn (not of nested literals)
// with their dispositions.
func (p *Program) ErrSitesIn(fn *ssa.Function) []ErrSite {
	var out []ErrSite
	EachInstr(fn, func(in ssa.Instruction) {
		ci, ok := in.(ssa.CallInstruction)
		if !ok {
			return
		}
		cc := ci.Common()
		sig := cc.Signature()
		if sig == nil {
			return
		}
		idx := errIndex(sig)
		if idx < 0 {
			return
		}
		name := p.CalleeName(cc)
		switch name {
		case "fmt.Errorf", "errors.New", "errors.Join", "fmt.Sprintf":
			return
		}
		es := ErrSite{Fn: fn, Call: ci, Callee: name}
		call, isCall := in.(*ssa.Call)
		if !isCall {
			// go f() / defer f(): the result is dropped by the language
			es.Disp = "discarded"
			out = append(out, es)
			return
		}
		var e ssa.Value
		if sig.Results().Len() == 1 {
			e = call
		} else if refs := call.Referrers(); refs != nil {
			for _, r := range *refs {
				if x, ok := r.(*ssa.Extract); ok && x.Index == idx {
					e = x
				}
			}
		}
		cats := map[string]bool{}
		if e == nil {
			cats["discarded"] = true
		} else {
			p.classifyErr(e, call, cats)
		}
		var cs []string
		for c := range cats {
			cs = append(cs, c)
		}
		sort.Strings(cs)
		es.Disp = strings.Join(cs, ",")
		es.Strict = (cats["diverges"] || cats["propagated"] || cats["panics"]) && !cats["tolerated"]
		out = append(out, es)
	})
	return out
}

func isNilConst(v ssa.Value) bool {
	k, ok := v.(*ssa.Const)
	return ok && k.Value == nil
}

func (p *Program) classifyErr(e ssa.Value, call *ssa.Call, cats map[string]bool) {
	var tolE []*ssa.BasicBlock
	seen := map[ssa.Value]bool{}
	var work []ssa.Value
	push := func(v ssa.Value) {
		if !seen[v] {
			seen[v] = true
			work = append(work, v)
		}
	}
	push(e)
	used := false
	for len(work) > 0 {
		v := work[0]
		work = work[1:]
		refs := v.Referrers()
		if refs == nil {
			continue
		}
		for _, r := range *refs {
			switch x := r.(type) {
			case *ssa.DebugRef:
				continue
			case *ssa.Phi:
				used = true
				push(x)
			case *ssa.MakeInterface:
				used = true
				push(x)
			case *ssa.ChangeInterface:
				used = true
				push(x)
			case *ssa.ChangeType:
				used = true
				push(x)
			case *ssa.TypeAssert:
				// errors.As-style inspection: a use, not a disposition
				used = true
			case *ssa.Store:
				used = true
				if x.Val != v {
					continue
				}
				if a, ok := x.Addr.(*ssa.Alloc); ok {
					for _, ld := range loadsAfter(x, a) {
						push(ld)
					}
					// a named result cell is returned by every return that
					// reloads it after this store
					continue
				}
				cats["forwarded"] = true
			case *ssa.BinOp:
				used = true
				if (x.Op == token.NEQ || x.Op == token.EQL) && (isNilConst(x.X) || isNilConst(x.Y)) {
					tolE = append(tolE, p.classifyCheck(x, call, cats)...)
				} else {
					// compared with a sentinel: a refinement, the nil test decides
					cats["compared"] = true
				}
			case *ssa.Return:
				used = true
				cats["propagated"] = true
			case *ssa.Panic:
				used = true
				cats["panics"] = true
			case *ssa.Send:
				used = true
				cats["forwarded"] = true
			case ssa.CallInstruction:
				used = true
				n := p.CalleeName(x.Common())
				if n == "panic" {
					cats["panics"] = true
				} else {
					cats["forwarded"] = true
				}
			default:
				used = true
			}
		}
	}
	// a non-nil edge that flows on into the success continuation is harmless
	// when all that can follow is handing this very error to the caller:
	// `err := f(); if err != nil {cleanup}; return err`
	for _, eb := range tolE {
		if returnsOnly(eb, call.Block(), seen) {
			cats["diverges"] = true
		} else {
			cats["tolerated"] = true
		}
	}
	if !used {
		cats["discarded"] = true
	}
	delete(cats, "compared")
	delete(cats, "sentinel")
	if len(cats) == 0 {
		cats["forwarded"] = true
	}
}

// loadsAfter lists the loads of cell a that can observe the value stored by
// st: forward from the store, stopping at the next store to the same cell.
func loadsAfter(st *ssa.Store, a *ssa.Alloc) []ssa.Value {
	var out []ssa.Value
	seen := map[*ssa.BasicBlock]bool{}
	var scan func(b *ssa.BasicBlock, from int)
	scan = func(b *ssa.BasicBlock, from int) {
		for i := from; i < len(b.Instrs); i++ {
			switch x := b.Instrs[i].(type) {
			case *ssa.Store:
				if x.Addr == ssa.Value(a) {
					return
				}
			case *ssa.UnOp:
				if x.Op == token.MUL && x.X == ssa.Value(a) {
					out = append(out, x)
				}
			}
		}
		for _, s := range b.Succs {
			if !seen[s] {
				seen[s] = true
				scan(s, 0)
			}
		}
	}
	b := st.Block()
	for i, in := range b.Instrs {
		if in == ssa.Instruction(st) {
			scan(b, i+1)
		}
	}
	return out
}

// classifyCheck decides, for a comparison of the error with nil, whether the
// non-nil edge diverges from the success continuation at every branch on it.
func (p *Program) classifyCheck(cmp *ssa.BinOp, call *ssa.Call, cats map[string]bool) (tolerated []*ssa.BasicBlock) {
	// collect the Ifs that branch on cmp (possibly negated)
	type br struct {
		ifi *ssa.If
		neg bool
	}
	var brs []br
	var walk func(v ssa.Value, neg bool, depth int)
	walk = func(v ssa.Value, neg bool, depth int) {
		refs := v.Referrers()
		if refs == nil || depth > 3 {
			return
		}
		for _, r := range *refs {
			switch x := r.(type) {
			case *ssa.If:
				brs = append(brs, br{x, neg})
			case *ssa.UnOp:
				if x.Op == token.NOT {
					walk(x, !neg, depth+1)
				}
			case *ssa.Phi:
				// materialised short-circuit value (x := err != nil && y)
				cats["tolerated"] = cats["tolerated"] || false
				walk(x, neg, depth+1)
			}
		}
	}
	walk(cmp, false, 0)
	if len(brs) == 0 {
		cats["forwarded"] = true
		return nil
	}
	for _, b := range brs {
		errOnTrue := cmp.Op == token.NEQ
		if b.neg {
			errOnTrue = !errOnTrue
		}
		blk := b.ifi.Block()
		E, S := blk.Succs[0], blk.Succs[1]
		if !errOnTrue {
			E, S = S, E
		}
		switch {
		case !reachesAvoiding(E, S, call.Block()):
			cats["diverges"] = true
		case p.sentinelDiverges(E, S, call, cmp, 0):
			// `err != nil && err != ErrX` / `err.Error() != "not found"`:
			// a second branch on the error itself separates the tolerated
			// sentinel from the errors that leave
			cats["diverges"] = true
			cats["sentinel"] = true
		default:
			tolerated = append(tolerated, E)
		}
	}
	return tolerated
}

// returnsOnly: every path from block b (not entering avoid) ends in a return
// that hands one of the values in flow to the caller, and performs no call,
// store, send or map update on the way once it has left b's own straight-line
// clean-up (b itself – the error branch – may log and release).
func returnsOnly(b, avoid *ssa.BasicBlock, flow map[ssa.Value]bool) bool {
	seen := map[*ssa.BasicBlock]bool{}
	ok := true
	any := false
	var dfs func(x *ssa.BasicBlock, first bool)
	dfs = func(x *ssa.BasicBlock, first bool) {
		if !ok || x == avoid || seen[x] {
			return
		}
		seen[x] = true
		for _, in := range x.Instrs {
			switch t := in.(type) {
			case *ssa.Return:
				hit := false
				for _, r := range t.Results {
					if flow[r] {
						hit = true
					}
				}
				if !hit {
					ok = false
				}
				any = true
			case ssa.CallInstruction:
				if _, isDefer := in.(*ssa.RunDefers); !first && !isDefer {
					ok = false
				}
			case *ssa.Store:
				if _, isAlloc := t.Addr.(*ssa.Alloc); !first && !isAlloc {
					ok = false
				}
			case *ssa.Send, *ssa.MapUpdate, *ssa.Go, *ssa.Defer:
				if !first {
					ok = false
				}
			}
		}
		for _, su := range x.Succs {
			dfs(su, false)
		}
	}
	dfs(b, true)
	return ok && any
}

// sentinelDiverges: block e (entered on the non-nil edge) ends in a branch
// whose condition is computed from the error value, and at least one of its
// edges cannot reach the success continuation.
func (p *Program) sentinelDiverges(e, s *ssa.BasicBlock, call *ssa.Call, cmp *ssa.BinOp, depth int) bool {
	if depth > 2 || len(e.Instrs) == 0 {
		return false
	}
	ifi, ok := e.Instrs[len(e.Instrs)-1].(*ssa.If)
	if !ok {
		return false
	}
	errv := cmp.X
	if isNilConst(errv) {
		errv = cmp.Y
	}
	if !derivedFrom(ifi.Cond, errv, 0) {
		return false
	}
	n := 0
	for _, su := range e.Succs {
		if !reachesAvoiding(su, s, call.Block()) {
			n++
		}
	}
	return n >= 1
}

// derivedFrom reports whether v is computed from src (through comparisons,
// method calls on it, conversions) within a few steps.
func derivedFrom(v, src ssa.Value, depth int) bool {
	if v == src {
		return true
	}
	if depth > 4 {
		return false
	}
	switch x := v.(type) {
	case *ssa.BinOp:
		return derivedFrom(x.X, src, depth+1) || derivedFrom(x.Y, src, depth+1)
	case *ssa.UnOp:
		return derivedFrom(x.X, src, depth+1)
	case *ssa.Call:
		if x.Call.IsInvoke() && derivedFrom(x.Call.Value, src, depth+1) {
			return true
		}
		for _, a := range x.Call.Args {
			if derivedFrom(a, src, depth+1) {
				return true
			}
		}
	case *ssa.MakeInterface:
		return derivedFrom(x.X, src, depth+1)
	case *ssa.ChangeInterface:
		return derivedFrom(x.X, src, depth+1)
	case *ssa.Extract:
		return derivedFrom(x.Tuple, src, depth+1)
	case *ssa.TypeAssert:
		return derivedFrom(x.X, src, depth+1)
	}
	return false
}

// reachesAvoiding reports whether t is reachable from b without entering
// block avoid (b == t counts as reachable).
func reachesAvoiding(b, t, avoid *ssa.BasicBlock) bool {
	seen := map[*ssa.BasicBlock]bool{}
	var dfs func(x *ssa.BasicBlock) bool
	dfs = func(x *ssa.BasicBlock) bool {
		if x == t {
			return true
		}
		if x == avoid || seen[x] {
			return false
		}
		seen[x] = true
		for _, s := range x.Succs {
			if dfs(s) {
				return true
			}
		}
		return false
	}
	return dfs(b)
}
