package engine

import (
	"go/token"
	"go/types"
	"sort"
	"strings"
	"sync"

	"golang.org/x/tools/go/ssa"
)

// Site is an instruction of interest together with where it was found.
type Site struct {
	Fn    *ssa.Function
	Instr ssa.Instruction
	Note  string // e.g. callee name, channel, field
}

// FnName of the site's function.
func (p *Program) SiteFn(s Site) string { return p.Name(s.Fn) }

func (p *Program) sortSites(ss []Site) []Site {
	sort.SliceStable(ss, func(i, j int) bool {
		a, b := p.Name(ss[i].Fn), p.Name(ss[j].Fn)
		if a != b {
			return a < b
		}
		return ss[i].Instr.Pos() < ss[j].Instr.Pos()
	})
	return ss
}

// EachInstr visits every instruction of fn (not of nested literals).
func EachInstr(fn *ssa.Function, f func(in ssa.Instruction)) {
	if fn == nil {
		return
	}
	for _, b := range fn.Blocks {
		for _, in := range b.Instrs {
			f(in)
		}
	}
}

// AllFuncs lists every indexed subject function in name order.
func (p *Program) AllFuncs() []*ssa.Function {
	var out []*ssa.Function
	for _, n := range p.FuncNames() {
		out = append(out, p.Funcs[n])
	}
	return out
}

// WithLits returns fn and all function literals nested in it.
func WithLits(fn *ssa.Function) []*ssa.Function {
	if fn == nil {
		return nil
	}
	return allFuncsUnder(fn)
}

// CallsIn lists call/go/defer instructions of fn whose callee name satisfies m.
func (p *Program) CallsIn(fn *ssa.Function, m func(callee string) bool) []Site {
	var out []Site
	EachInstr(fn, func(in ssa.Instruction) {
		if ci, ok := in.(ssa.CallInstruction); ok {
			n := p.CalleeName(ci.Common())
			if m(n) {
				out = append(out, Site{fn, in, n})
			}
		}
	})
	return out
}

// CallsEverywhere lists matching call sites in all subject functions.
func (p *Program) CallsEverywhere(m func(callee string) bool) []Site {
	var out []Site
	for _, fn := range p.AllFuncs() {
		out = append(out, p.CallsIn(fn, m)...)
	}
	return p.sortSites(out)
}

// Callee matchers.
func Is(names ...string) func(string) bool {
	return func(s string) bool {
		for _, n := range names {
			if s == n {
				return true
			}
		}
		return false
	}
}

// IfaceMethod matches an interface call of the given method on any of the
// named interfaces (empty list: any interface).
func IfaceMethod(method string, ifaces ...string) func(string) bool {
	return func(s string) bool {
		if !strings.HasPrefix(s, "iface:") {
			return false
		}
		rest := s[len("iface:"):]
		i := strings.LastIndex(rest, ".")
		if i < 0 || rest[i+1:] != method {
			return false
		}
		if len(ifaces) == 0 {
			return true
		}
		for _, n := range ifaces {
			if rest[:i] == n {
				return true
			}
		}
		return false
	}
}

// Or combines callee matchers.
func Or(ms ...func(string) bool) func(string) bool {
	return func(s string) bool {
		for _, m := range ms {
			if m(s) {
				return true
			}
		}
		return false
	}
}

// CallCommonOf returns the call of an instruction, or nil.
func CallCommonOf(in ssa.Instruction) *ssa.CallCommon {
	if ci, ok := in.(ssa.CallInstruction); ok {
		return ci.Common()
	}
	return nil
}

// IsCallTo builds an instruction matcher for the path automaton.
func (p *Program) IsCallTo(m func(string) bool) func(ssa.Instruction) bool {
	return func(in ssa.Instruction) bool {
		cc := CallCommonOf(in)
		return cc != nil && m(p.CalleeName(cc))
	}
}

// Arg returns the descriptor of the i-th argument of a call site, where
// arguments are counted without the receiver.
func (p *Program) Arg(in ssa.Instruction, i int) string {
	v := ArgValue(in, i)
	if v == nil {
		return ""
	}
	return p.D(v)
}

// ArgValue returns the i-th non-receiver argument.
func ArgValue(in ssa.Instruction, i int) ssa.Value {
	cc := CallCommonOf(in)
	if cc == nil {
		return nil
	}
	args := cc.Args
	if !cc.IsInvoke() {
		if f, ok := cc.Value.(*ssa.Function); ok && f.Signature.Recv() != nil && len(args) > 0 {
			args = args[1:]
		}
	}
	if i < 0 || i >= len(args) {
		return nil
	}
	return args[i]
}

// Recv returns the receiver value of a method call (static or interface).
func RecvValue(in ssa.Instruction) ssa.Value {
	cc := CallCommonOf(in)
	if cc == nil {
		return nil
	}
	if cc.IsInvoke() {
		return cc.Value
	}
	if f, ok := cc.Value.(*ssa.Function); ok && f.Signature.Recv() != nil && len(cc.Args) > 0 {
		return cc.Args[0]
	}
	return nil
}

// ---- memory effects ------------------------------------------------------

// addrField peels conversions from an address value and returns the field it
// addresses (FieldAddr), or nil.
func addrField(v ssa.Value) *types.Var {
	for i := 0; i < 6; i++ {
		switch x := v.(type) {
		case *ssa.FieldAddr:
			return FieldOf(x)
		case *ssa.Convert:
			v = x.X
		case *ssa.ChangeType:
			v = x.X
		default:
			return nil
		}
	}
	return nil
}

var atomicWriters = map[string]bool{
	"sync/atomic.StoreUint64": true, "sync/atomic.StoreUint32": true, "sync/atomic.StoreInt32": true,
	"sync/atomic.StoreInt64": true, "sync/atomic.AddUint64": true, "sync/atomic.AddUint32": true,
	"sync/atomic.AddInt32": true, "sync/atomic.AddInt64": true, "sync/atomic.SwapUint64": true,
	"sync/atomic.SwapUint32": true, "sync/atomic.SwapInt32": true, "sync/atomic.SwapInt64": true,
	"sync/atomic.CompareAndSwapUint64": true, "sync/atomic.CompareAndSwapUint32": true,
	"sync/atomic.CompareAndSwapInt32": true, "sync/atomic.CompareAndSwapInt64": true,
	"sync/atomic.StorePointer": true,
}

// StoredValue returns, for an instruction that writes field f (plain store or
// sync/atomic writer), the value written; ok=false when it is not such a write.
func (p *Program) StoredValue(in ssa.Instruction, f *types.Var) (ssa.Value, bool) {
	switch x := in.(type) {
	case *ssa.Store:
		if addrField(x.Addr) == f {
			return x.Val, true
		}
	case ssa.CallInstruction:
		cc := x.Common()
		if !cc.IsInvoke() {
			if fn, ok := cc.Value.(*ssa.Function); ok && atomicWriters[fn.String()] && len(cc.Args) >= 2 {
				if addrField(cc.Args[0]) == f {
					return cc.Args[len(cc.Args)-1], true
				}
			}
		}
	}
	return nil, false
}

// FieldWrites lists every write of field f in the subject package: plain
// stores (including composite-literal initialisation), sync/atomic writers on
// its address, and whole-struct stores are NOT included (see StructStores).
func (p *Program) FieldWrites(f *types.Var) []Site {
	var out []Site
	for _, fn := range p.AllFuncs() {
		EachInstr(fn, func(in ssa.Instruction) {
			if _, ok := p.StoredValue(in, f); ok {
				out = append(out, Site{fn, in, fieldDisplayName(f)})
			}
		})
	}
	return p.sortSites(out)
}

// FieldWritesIn is FieldWrites restricted to one function.
func (p *Program) FieldWritesIn(fn *ssa.Function, f *types.Var) []Site {
	var out []Site
	EachInstr(fn, func(in ssa.Instruction) {
		if _, ok := p.StoredValue(in, f); ok {
			out = append(out, Site{fn, in, fieldDisplayName(f)})
		}
	})
	return out
}

// AddrTaken lists instructions that take the address of field f and let it
// flow somewhere other than a direct load/store/atomic call (an escape hatch
// through which the field could be written without FieldWrites seeing it).
func (p *Program) AddrEscapes(f *types.Var) []Site {
	var out []Site
	for _, fn := range p.AllFuncs() {
		EachInstr(fn, func(in ssa.Instruction) {
			fa, ok := in.(*ssa.FieldAddr)
			if !ok || FieldOf(fa) != f {
				return
			}
			for _, ref := range *fa.Referrers() {
				if !p.benignAddrUse(ref, fa, 0) {
					out = append(out, Site{fn, ref, fieldDisplayName(f)})
				}
			}
		})
	}
	return p.sortSites(out)
}

func (p *Program) benignAddrUse(ref ssa.Instruction, addr ssa.Value, depth int) bool {
	switch x := ref.(type) {
	case *ssa.UnOp:
		return x.Op == token.MUL // load
	case *ssa.Store:
		return x.Addr == addr // storing *to* it, not storing the address
	case *ssa.FieldAddr, *ssa.IndexAddr:
		// address of a sub-object: a write through it is a write to a
		// different (nested) field object and is matched there
		return true
	case *ssa.Convert:
		if depth > 3 {
			return false
		}
		for _, r2 := range *x.Referrers() {
			if !p.benignAddrUse(r2, x, depth+1) {
				return false
			}
		}
		return true
	case *ssa.ChangeType:
		if depth > 3 {
			return false
		}
		for _, r2 := range *x.Referrers() {
			if !p.benignAddrUse(r2, x, depth+1) {
				return false
			}
		}
		return true
	case ssa.CallInstruction:
		cc := x.Common()
		if !cc.IsInvoke() {
			if fn, ok := cc.Value.(*ssa.Function); ok {
				n := fn.String()
				if strings.HasPrefix(n, "sync/atomic.") {
					return true
				}
				// method call with the field as receiver (e.g. mutex.Lock,
				// atomic.Bool.Store): benign for who-writes purposes of
				// plain fields; callers that care match the method itself
				if fn.Signature.Recv() != nil && len(cc.Args) > 0 && cc.Args[0] == addr {
					return true
				}
			}
		}
		return false
	case *ssa.DebugRef:
		return true
	}
	return false
}

// MapWrites lists MapUpdate instructions and delete() calls on the map held in
// field f.
func (p *Program) MapWrites(f *types.Var) []Site {
	var out []Site
	isF := func(v ssa.Value) bool {
		if u, ok := v.(*ssa.UnOp); ok && u.Op == token.MUL {
			return addrField(u.X) == f
		}
		if fl, ok := v.(*ssa.Field); ok {
			return FieldOf(fl) == f
		}
		return false
	}
	for _, fn := range p.AllFuncs() {
		EachInstr(fn, func(in ssa.Instruction) {
			switch x := in.(type) {
			case *ssa.MapUpdate:
				if isF(x.Map) {
					out = append(out, Site{fn, in, fieldDisplayName(f) + "[k]=v"})
				}
			case ssa.CallInstruction:
				cc := x.Common()
				if b, ok := cc.Value.(*ssa.Builtin); ok && b.Name() == "delete" && len(cc.Args) > 0 && isF(cc.Args[0]) {
					out = append(out, Site{fn, in, "delete(" + fieldDisplayName(f) + ")"})
				}
			}
		})
	}
	return p.sortSites(out)
}

// ---- channels ---------------------------------------------------------------

// ChanField returns the struct field a channel value was loaded from, or nil.
func ChanField(v ssa.Value) *types.Var {
	for i := 0; i < 4; i++ {
		switch x := v.(type) {
		case *ssa.UnOp:
			if x.Op == token.MUL {
				return addrField(x.X)
			}
			return nil
		case *ssa.Field:
			return FieldOf(x)
		case *ssa.ChangeType:
			v = x.X
		case *ssa.Convert:
			v = x.X
		default:
			return nil
		}
	}
	return nil
}

// ChanOp is a send or receive on a channel.
type ChanOp struct {
	Fn     *ssa.Function
	Instr  ssa.Instruction // *ssa.Send, *ssa.UnOp(ARROW) or *ssa.Select
	Select *ssa.Select     // non-nil when the op is a select case
	Case   int             // index into Select.States
	Chan   ssa.Value
	Send   ssa.Value // value sent (sends only)
	IsSend bool
	// InSelectWith lists the descriptors of the other cases' channels, and
	// HasDefault tells whether the select is non-blocking.
	Others     []ssa.Value
	HasDefault bool
}

// ChanOps lists every channel operation in fn.
func (p *Program) ChanOps(fn *ssa.Function) []ChanOp {
	var out []ChanOp
	EachInstr(fn, func(in ssa.Instruction) {
		switch x := in.(type) {
		case *ssa.Send:
			out = append(out, ChanOp{Fn: fn, Instr: in, Chan: x.Chan, Send: x.X, IsSend: true})
		case *ssa.UnOp:
			if x.Op == token.ARROW {
				out = append(out, ChanOp{Fn: fn, Instr: in, Chan: x.X})
			}
		case *ssa.Select:
			for i, st := range x.States {
				op := ChanOp{Fn: fn, Instr: in, Select: x, Case: i, Chan: st.Chan, HasDefault: !x.Blocking}
				if st.Dir == types.SendOnly {
					op.IsSend = true
					op.Send = st.Send
				}
				for j, o := range x.States {
					if j != i {
						op.Others = append(op.Others, o.Chan)
					}
				}
				out = append(out, op)
			}
		}
	})
	return out
}

// SelectArmCond recognises the dispatch branch of a select case: the branch
// "selidx == k" generated for case k of sel. It returns k.
func SelectArmIndex(c Cond, ifi *ssa.If) (sel *ssa.Select, k int, ok bool) {
	b, isBin := ifi.Cond.(*ssa.BinOp)
	if !isBin || b.Op != token.EQL {
		return nil, 0, false
	}
	ex, isEx := b.X.(*ssa.Extract)
	if !isEx || ex.Index != 0 {
		return nil, 0, false
	}
	s, isSel := ex.Tuple.(*ssa.Select)
	if !isSel {
		return nil, 0, false
	}
	kc, isC := b.Y.(*ssa.Const)
	if !isC || kc.Value == nil {
		return nil, 0, false
	}
	return s, int(kc.Int64()), true
}

// SelectArmEntry returns the first block executed only when case k of sel was
// chosen, or nil when the generated dispatch cannot be recognised.
func SelectArmEntry(sel *ssa.Select, k int) *ssa.BasicBlock {
	fn := sel.Parent()
	for _, b := range fn.Blocks {
		if len(b.Instrs) == 0 {
			continue
		}
		ifi, ok := b.Instrs[len(b.Instrs)-1].(*ssa.If)
		if !ok {
			continue
		}
		if s, kk, ok := SelectArmIndex(Cond{}, ifi); ok && s == sel && kk == k {
			return b.Succs[0]
		}
	}
	// the last case of a blocking select has no comparison of its own when
	// go/ssa emits an unconditional jump; detect: the false successor of the
	// comparison for k-1
	if k > 0 {
		for _, b := range fn.Blocks {
			if len(b.Instrs) == 0 {
				continue
			}
			ifi, ok := b.Instrs[len(b.Instrs)-1].(*ssa.If)
			if !ok {
				continue
			}
			if s, kk, ok := SelectArmIndex(Cond{}, ifi); ok && s == sel && kk == k-1 && k == len(sel.States)-1+boolToInt(!sel.Blocking) {
				return b.Succs[1]
			}
		}
	}
	return nil
}

func boolToInt(b bool) int {
	if b {
		return 1
	}
	return 0
}

// ReturnsOf lists the return instructions of fn.
func ReturnsOf(fn *ssa.Function) []*ssa.Return {
	var out []*ssa.Return
	EachInstr(fn, func(in ssa.Instruction) {
		if r, ok := in.(*ssa.Return); ok {
			// the synthetic recover block's return is not a source return
			if in.Block().Comment == "recover" {
				return
			}
			if sp := SplitOf(r); sp != nil {
				out = append(out, sp.Nil, sp.Err)
				return
			}
			out = append(out, r)
		}
	})
	return out
}

// RawReturnsOf lists the return instructions as written (no logical split of
// tail returns); for rules about pass-through wrappers.
func RawReturnsOf(fn *ssa.Function) []*ssa.Return {
	var out []*ssa.Return
	EachInstr(fn, func(in ssa.Instruction) {
		if r, ok := in.(*ssa.Return); ok && in.Block().Comment != "recover" {
			out = append(out, r)
		}
	})
	return out
}

// Tail returns. "return f()" whose last result is f's error is the spelling
// "if err := f(); err != nil { return err }; return nil" with the branch left
// to the caller. Rules reason about "the nil return" and "the error return",
// so such a return is presented as two logical returns: Nil (the error result
// replaced by the constant nil, reached with every predicate on that error
// evaluated false) and Err (reached with it evaluated true). Both are
// synthetic *ssa.Return values that stand for the original instruction; the
// path automaton records their states when it reaches the original.
type ReturnSplit struct {
	Orig     *ssa.Return
	Nil, Err *ssa.Return
	Idx      int       // index of the error result
	Val      ssa.Value // the call result passed through
	Tested   bool      // a branch has compared Val with nil (see SplitOf)
}

var (
	splitMu    sync.Mutex // the self-test analyses several programs in parallel
	splitCache = map[*ssa.Return]*ReturnSplit{}
	synthOrig  = map[*ssa.Return]*ssa.Return{}
)

// OrigReturn maps a synthetic logical return to the instruction it stands
// for (identity for real returns).
func OrigReturn(r *ssa.Return) *ssa.Return {
	splitMu.Lock()
	defer splitMu.Unlock()
	if o, ok := synthOrig[r]; ok {
		return o
	}
	return r
}

var errorType = types.Universe.Lookup("error").Type()

// SplitOf returns the logical split of a tail return, or nil.
func SplitOf(ret *ssa.Return) *ReturnSplit {
	splitMu.Lock()
	defer splitMu.Unlock()
	if sp, ok := splitCache[ret]; ok {
		return sp
	}
	var sp *ReturnSplit
	defer func() { splitCache[ret] = sp }()
	if _, synthetic := synthOrig[ret]; synthetic || len(ret.Results) == 0 {
		return nil
	}
	vals := realReturnValues(ret)
	idx := len(vals) - 1
	v := vals[idx]
	if !types.Identical(v.Type(), errorType) {
		return nil
	}
	var call *ssa.Call
	switch x := v.(type) {
	case *ssa.Call:
		call = x
	case *ssa.Extract:
		c, ok := x.Tuple.(*ssa.Call)
		if !ok {
			return nil
		}
		call = c
	default:
		return nil
	}
	// error constructors never return nil: "return fmt.Errorf(…)" is an error return
	if f, ok := call.Call.Value.(*ssa.Function); ok {
		switch f.String() {
		case "fmt.Errorf", "errors.New", "errors.Join":
			return nil
		}
	}
	// a value that a branch has tested: "err := f(); if err != nil {…; return err}"
	// has its own branch and is an error return – unless the return can also
	// be reached from the nil edge of that branch ("if err != nil {cleanup};
	// return err"): then it is both, and the automaton decides per path from
	// the recorded outcome of the test which of the two logical returns it is
	tested := false
	if refs := v.Referrers(); refs != nil {
		for _, r := range *refs {
			b, ok := r.(*ssa.BinOp)
			if !ok || (b.Op != token.NEQ && b.Op != token.EQL) || !(isNilConst(b.X) || isNilConst(b.Y)) {
				if ok && (b.Op == token.NEQ || b.Op == token.EQL) {
					return nil // compared with a sentinel: leave alone
				}
				continue
			}
			tested = true
			mayBeNil := false
			var walk func(x ssa.Value, neg bool, depth int)
			walk = func(x ssa.Value, neg bool, depth int) {
				rs := x.Referrers()
				if rs == nil || depth > 3 {
					return
				}
				for _, u := range *rs {
					switch t := u.(type) {
					case *ssa.If:
						errOnTrue := (b.Op == token.NEQ) != neg
						okSucc := t.Block().Succs[1]
						if !errOnTrue {
							okSucc = t.Block().Succs[0]
						}
						if reachesAvoiding(okSucc, ret.Block(), call.Block()) {
							mayBeNil = true
						}
					case *ssa.UnOp:
						if t.Op == token.NOT {
							walk(t, !neg, depth+1)
						}
					}
				}
			}
			walk(b, false, 0)
			if !mayBeNil {
				return nil
			}
		}
	}
	mk := func(repl ssa.Value) *ssa.Return {
		res := append([]ssa.Value{}, vals...)
		res[idx] = repl
		r := &ssa.Return{Results: res}
		synthOrig[r] = ret
		return r
	}
	sp = &ReturnSplit{Orig: ret, Idx: idx, Val: v, Tested: tested}
	sp.Nil = mk(ssa.NewConst(nil, errorType))
	sp.Err = mk(v)
	return sp
}

// Reaches reports whether block b can reach block t (b == t counts).
func Reaches(b, t *ssa.BasicBlock) bool {
	seen := map[*ssa.BasicBlock]bool{}
	var dfs func(x *ssa.BasicBlock) bool
	dfs = func(x *ssa.BasicBlock) bool {
		if x == t {
			return true
		}
		if seen[x] {
			return false
		}
		seen[x] = true
		for _, s := range x.Succs {
			if dfs(s) {
				return true
			}
		}
		return false
	}
	return dfs(b)
}

// ReturnValues resolves the results of a return instruction. In functions
// with defers go/ssa spills results into cells, runs the defers and reloads
// them; the value returned (as seen by the body) is then the last store into
// the cell in the returning block.
func ReturnValues(ret *ssa.Return) []ssa.Value {
	splitMu.Lock()
	_, synthetic := synthOrig[ret]
	splitMu.Unlock()
	if synthetic {
		return append([]ssa.Value{}, ret.Results...)
	}
	return realReturnValues(ret)
}

func realReturnValues(ret *ssa.Return) []ssa.Value {
	out := make([]ssa.Value, len(ret.Results))
	for i, rv := range ret.Results {
		out[i] = rv
		u, ok := rv.(*ssa.UnOp)
		if !ok || u.Op != token.MUL {
			continue
		}
		a, ok := u.X.(*ssa.Alloc)
		if !ok {
			continue
		}
		b := ret.Block()
		for j := len(b.Instrs) - 1; j >= 0; j-- {
			if st, ok := b.Instrs[j].(*ssa.Store); ok && st.Addr == ssa.Value(a) {
				out[i] = st.Val
				break
			}
		}
	}
	return out
}

// GoTargetName names what a go statement runs. "go func() { f(x) }()" whose
// literal does nothing but that one call is the spelling "go f(x)" with the
// arguments evaluated a little later; it is reported as a start of f.
func (p *Program) GoTargetName(g *ssa.Go) string {
	name := p.CalleeName(g.Common())
	var lit *ssa.Function
	switch v := g.Common().Value.(type) {
	case *ssa.MakeClosure:
		lit, _ = v.Fn.(*ssa.Function)
	case *ssa.Function:
		if v.Parent() != nil {
			lit = v
		}
	}
	if lit == nil || len(lit.Blocks) != 1 {
		return name
	}
	var only *ssa.Call
	n := 0
	for _, in := range lit.Blocks[0].Instrs {
		switch x := in.(type) {
		case *ssa.Call:
			only = x
			n++
		case *ssa.Store, *ssa.Send, *ssa.Go, *ssa.Defer, *ssa.MapUpdate, *ssa.Select, *ssa.Panic:
			return name
		}
	}
	if n == 1 && only != nil {
		return p.CalleeName(only.Common())
	}
	return name
}

// ThinGoWrapper reports whether fn is such a literal (its single call is then
// not a "synchronous call" of the callee in the starting function's sense).
func (p *Program) ThinGoWrapper(fn *ssa.Function) bool {
	if fn == nil || fn.Parent() == nil || len(fn.Blocks) != 1 {
		return false
	}
	if n := p.Name(fn); !strings.HasSuffix(n, "$go") && !strings.Contains(n[strings.LastIndex(n, "$")+1:], "arg:goFunc") {
		return false
	}
	n := 0
	for _, in := range fn.Blocks[0].Instrs {
		switch in.(type) {
		case *ssa.Call:
			n++
		case *ssa.Store, *ssa.Send, *ssa.Go, *ssa.Defer, *ssa.MapUpdate, *ssa.Select, *ssa.Panic:
			return false
		}
	}
	return n == 1
}
