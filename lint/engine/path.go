package engine

import (
	"fmt"
	"go/token"
	"regexp"
	"sort"
	"strings"

	"golang.org/x/tools/go/ssa"
)

// A path automaton explores every CFG path of one function while tracking a
// small product state: for each named track either the outcome of the *last*
// evaluation of a matching branch condition (true / false / not evaluated) or
// whether a matching instruction (event) has been executed. A rule then asks
// for the set of product states with which a site can be reached and requires
// a formula to hold for all of them. The exploration is exhaustive over the
// finite product (blocks x 3^tracks), so the answer quantifies over all paths,
// including loops, gotos and early returns. Paths that are infeasible at run
// time for reasons not visible in the tracked predicates are included
// (over-approximation: may cause an alarm, never hides a path).

// Values of a track inside a State.
const (
	Unseen = 0
	True   = 1 // predicate: last evaluation true; event: executed
	False  = 2 // predicate: last evaluation false
)

// State packs 2 bits per track.
type State uint64

func (s State) get(i int) int { return int(s>>(2*uint(i))) & 3 }
func (s State) set(i, v int) State {
	return (s &^ (3 << (2 * uint(i)))) | State(v)<<(2*uint(i))
}

// Track is one component of the product state.
type Track struct {
	Name string
	// If classifies a branch condition: matched, and the value (True/False)
	// the track takes when the branch's true edge is followed.
	If func(c Cond, ifi *ssa.If) (matched bool, onTrue int)
	// Ev classifies an instruction as the tracked event.
	Ev func(in ssa.Instruction) bool
	// Kills lists tracks reset to Unseen when this track's event fires or
	// its branch condition is evaluated (before the track's own update).
	Kills []string
}

// EdgeChoice restricts which successors of a branch are explored.
type EdgeChoice int

const (
	Both EdgeChoice = iota
	TrueOnly
	FalseOnly
)

// Automaton is a configured exploration of one function.
type Automaton struct {
	P      *Program
	Fn     *ssa.Function
	Tracks []Track
	// Oracle may resolve branches (used for finite-ordering evaluation).
	Oracle func(ifi *ssa.If, c Cond) EdgeChoice
	// StartAfter, when set, starts the exploration right after this
	// instruction instead of at function entry.
	StartAfter ssa.Instruction
	// StartBlock, when set (and StartAfter is nil), starts at the beginning of
	// this block instead of the entry block.
	StartBlock *ssa.BasicBlock
	// StopAt ends a path (after recording the state) at matching instructions.
	StopAt func(in ssa.Instruction) bool
	// Init is the initial product state.
	Init State
}

type nodeKey struct {
	block int
	st    State
}

type parentRec struct {
	prev  nodeKey
	label string
	root  bool
}

// Result holds the reachable product states per instruction.
type Result struct {
	A      *Automaton
	idx    map[string]int
	at     map[ssa.Instruction]map[State]nodeKey
	parent map[nodeKey]parentRec
	edges  map[[2]int]map[State]bool
	// Visited counts explored (block,state) pairs; Edges counts transitions.
	Visited int
	Edges   int
}

// Run explores the automaton.
func (a *Automaton) Run() *Result {
	if len(a.Tracks) > 31 {
		panic("too many tracks")
	}
	r := &Result{A: a, idx: map[string]int{}, at: map[ssa.Instruction]map[State]nodeKey{}, parent: map[nodeKey]parentRec{}, edges: map[[2]int]map[State]bool{}}
	recEdge := func(from, to int, st State) {
		k := [2]int{from, to}
		m := r.edges[k]
		if m == nil {
			m = map[State]bool{}
			r.edges[k] = m
		}
		m[st] = true
	}
	for i, t := range a.Tracks {
		r.idx[t.Name] = i
	}
	fn := a.Fn
	if fn == nil || len(fn.Blocks) == 0 {
		return r
	}
	// pre-classify
	type ifClass struct {
		cond    Cond
		matches []int
		onTrue  []int
		// a materialised && / || chain: `x := a && b; if x` branches on
		// phi(false | b) – x true implies b true (and phi(true | b) false
		// implies b false). implEdge is the If edge on which the implied
		// operand has value implVal.
		implEdge    int
		implVal     bool
		implMatches []int
		implOnTrue  []int
	}
	ifs := map[*ssa.If]*ifClass{}
	evs := map[ssa.Instruction][]int{}
	for _, b := range fn.Blocks {
		for _, in := range b.Instrs {
			if ifi, ok := in.(*ssa.If); ok {
				ic := &ifClass{cond: a.P.CondOf(ifi.Cond)}
				for i, t := range a.Tracks {
					if t.If != nil {
						if m, on := t.If(ic.cond, ifi); m {
							ic.matches = append(ic.matches, i)
							ic.onTrue = append(ic.onTrue, on)
						}
					}
				}
				ic.implEdge = -1
				if cv, neg := peelNot(ifi.Cond); true {
					if ph, ok := cv.(*ssa.Phi); ok {
						var free ssa.Value
						nFree, nT, nF := 0, 0, 0
						for _, e := range ph.Edges {
							if k, ok := e.(*ssa.Const); ok && k.Value != nil {
								if k.Value.String() == "true" {
									nT++
								} else {
									nF++
								}
							} else {
								nFree++
								free = e
							}
						}
						if _, isPhi := free.(*ssa.Phi); nFree == 1 && !isPhi && (nT == 0) != (nF == 0) {
							fc := a.P.CondOf(free)
							ic.implVal = nT == 0 // others all false: phi true => operand true
							ic.implEdge = 0
							if !ic.implVal {
								ic.implEdge = 1
							}
							if neg {
								ic.implEdge = 1 - ic.implEdge
							}
							for i, t := range a.Tracks {
								if t.If != nil {
									if m, on := t.If(fc, ifi); m {
										ic.implMatches = append(ic.implMatches, i)
										ic.implOnTrue = append(ic.implOnTrue, on)
									}
								}
							}
						}
					}
				}
				ifs[ifi] = ic
				continue
			}
			for i, t := range a.Tracks {
				if t.Ev != nil && t.Ev(in) {
					evs[in] = append(evs[in], i)
				}
			}
		}
	}
	// correlation: a boolean SSA value branched on by several Ifs has one
	// value per execution of its defining instruction; later branches on it
	// must agree with the earlier one (removes infeasible paths soundly).
	// … generalised to equality tests over the same SSA operands: `err == nil`
	// and a later `err != nil` (two different boolean values) are one fact
	// about the immutable value err. canon maps such a comparison to the first
	// comparison seen over the same operand pair, with eqNeg telling whether it
	// has the opposite sense.
	canonOf := map[ssa.Value]ssa.Value{}
	eqNeg := map[ssa.Value]bool{}
	{
		opKey := func(v ssa.Value) string {
			switch k := v.(type) {
			case *ssa.Const:
				return "const:" + k.String()
			case *ssa.Phi:
				return "" // loop-carried: not one immutable value per execution
			}
			return fmt.Sprintf("%p", v)
		}
		first := map[string]ssa.Value{}
		relSet := map[ssa.Value]OrdSet{}
		for _, b := range fn.Blocks {
			if len(b.Instrs) == 0 {
				continue
			}
			ifi, ok := b.Instrs[len(b.Instrs)-1].(*ssa.If)
			if !ok {
				continue
			}
			v, _ := peelNot(ifi.Cond)
			bo, ok := v.(*ssa.BinOp)
			if ok {
				// the same test of an unmodified request/parameter field
				// evaluated twice, in whatever spelling (`len(a.Entries) > 0`,
				// `n := len(a.Entries); n != 0`, `0 < len(…)`) is one fact.
				// Facts are kept per descriptor pair as the ordering set of the
				// true edge; a later test correlates when its set is the same or
				// the complement.
				cd := a.P.CondOf(v)
				if cd.IsRel && stableParamDesc(cd.X) && (stableParamDesc(cd.Y) || constLike(cd.Y)) && !writtenInFn(a.P, fn, cd.X) && !writtenInFn(a.P, fn, cd.Y) {
					all := AnyOrd
					if cd.Y == "0" && NonNegative(cd.XV) {
						all = EQ | GT
					}
					tset := cd.EdgeOrd(true) & all
					key := "rel:" + cd.X + "|" + cd.Y
					if f, ok := first[key]; ok {
						fset := relSet[f]
						switch {
						case tset == fset:
							canonOf[v] = f
						case tset == all&^fset:
							canonOf[v] = f
							eqNeg[v] = true
						}
					} else if tset != 0 && tset != all {
						first[key] = v
						relSet[v] = tset
						canonOf[v] = v
					}
					if _, done := canonOf[v]; done {
						continue
					}
				}
			}
			if ok && bo.Op != token.EQL && bo.Op != token.NEQ {
				continue
			}
			if !ok {
				continue
			}
			kx, ky := opKey(bo.X), opKey(bo.Y)
			if kx == "" || ky == "" {
				continue
			}
			if ky < kx {
				kx, ky = ky, kx
			}
			key := kx + "|" + ky
			if f, ok := first[key]; ok {
				canonOf[v] = f
				eqNeg[v] = (bo.Op == token.NEQ) != (f.(*ssa.BinOp).Op == token.NEQ)
			} else {
				first[key] = v
				canonOf[v] = v
			}
		}
	}
	canon := func(v ssa.Value) (ssa.Value, bool) {
		if c, ok := canonOf[v]; ok {
			return c, eqNeg[v]
		}
		return v, false
	}
	condUse := map[ssa.Value][]*ssa.If{}
	for _, b := range fn.Blocks {
		if len(b.Instrs) == 0 {
			continue
		}
		if ifi, ok := b.Instrs[len(b.Instrs)-1].(*ssa.If); ok {
			v, _ := peelNot(ifi.Cond)
			v, _ = canon(v)
			condUse[v] = append(condUse[v], ifi)
		}
	}
	corrIdx := map[*ssa.If]int{}
	corrNeg := map[*ssa.If]bool{}
	corrDef := map[ssa.Instruction][]int{}
	nUser := len(a.Tracks)
	nCorr := 0
	phiTracks := map[*ssa.Phi]int{}
	hasConstEdge := func(v ssa.Value) bool {
		ph, ok := v.(*ssa.Phi)
		if !ok {
			return false
		}
		for _, e := range ph.Edges {
			if k, ok := e.(*ssa.Const); ok && k.Value != nil {
				return true
			}
		}
		return false
	}
	// deterministic order
	var condVals []ssa.Value
	for _, b := range fn.Blocks {
		if len(b.Instrs) == 0 {
			continue
		}
		if ifi, ok := b.Instrs[len(b.Instrs)-1].(*ssa.If); ok {
			v, _ := peelNot(ifi.Cond)
			v, _ = canon(v)
			dup := false
			for _, o := range condVals {
				if o == v {
					dup = true
				}
			}
			if !dup {
				condVals = append(condVals, v)
			}
		}
	}
	// returned error values that a branch has tested need their equality fact
	// (see SplitOf): retFact maps the return to the If that tested its value
	retFact := map[*ssa.Return]*ssa.If{}
	needFact := map[ssa.Value]bool{}
	for _, b := range fn.Blocks {
		for _, in := range b.Instrs {
			rt, ok := in.(*ssa.Return)
			if !ok {
				continue
			}
			sp := SplitOf(rt)
			if sp == nil || !sp.Tested {
				continue
			}
			for _, bb := range fn.Blocks {
				if len(bb.Instrs) == 0 {
					continue
				}
				ifi, ok := bb.Instrs[len(bb.Instrs)-1].(*ssa.If)
				if !ok {
					continue
				}
				raw, _ := peelNot(ifi.Cond)
				bo, ok := raw.(*ssa.BinOp)
				if !ok || (bo.Op != token.EQL && bo.Op != token.NEQ) {
					continue
				}
				if (bo.X == sp.Val && isNilConst(bo.Y)) || (bo.Y == sp.Val && isNilConst(bo.X)) {
					retFact[rt] = ifi
					cv, _ := canon(raw)
					needFact[cv] = true
				}
			}
		}
	}
	for _, v := range condVals {
		ifis := condUse[v]
		if (len(ifis) < 2 && !hasConstEdge(v) && !needFact[v]) || nUser+nCorr >= 31 {
			continue
		}
		if ph, ok := v.(*ssa.Phi); ok {
			phiTracks[ph] = nUser + nCorr
		}
		ti := nUser + nCorr
		nCorr++
		for _, ifi := range ifis {
			corrIdx[ifi] = ti
			raw, neg := peelNot(ifi.Cond)
			if _, en := canon(raw); en {
				neg = !neg
			}
			corrNeg[ifi] = neg
		}
		_, isEqFact := canonOf[v]
		if def, ok := v.(ssa.Instruction); ok && !isEqFact {
			if _, isPhi := v.(*ssa.Phi); !isPhi {
				corrDef[def] = append(corrDef[def], ti)
			}
		}
		// an equality fact is about its operands: when one of them is
		// (re)defined, the fact is unknown again
		if bo, ok := v.(*ssa.BinOp); ok && (bo.Op == token.EQL || bo.Op == token.NEQ) {
			for _, opnd := range []ssa.Value{bo.X, bo.Y} {
				if def, ok := opnd.(ssa.Instruction); ok {
					corrDef[def] = append(corrDef[def], ti)
				}
			}
		}
	}
	kills := make([][]int, len(a.Tracks))
	for i, t := range a.Tracks {
		for _, k := range t.Kills {
			if j, ok := r.idx[k]; ok {
				kills[i] = append(kills[i], j)
			}
		}
	}

	var queue []nodeKey
	startBlock, startIdx := 0, 0
	if a.StartAfter != nil {
		b := a.StartAfter.Block()
		startBlock = b.Index
		for i, in := range b.Instrs {
			if in == a.StartAfter {
				startIdx = i + 1
			}
		}
	}
	if a.StartAfter == nil && a.StartBlock != nil {
		startBlock = a.StartBlock.Index
	}
	// enterBlock applies the effect of taking the edge from -> to on
	// phi-valued branch conditions: a constant incoming value fixes the
	// later branch, anything else makes it unknown again.
	enterBlock := func(from, to *ssa.BasicBlock, st State) State {
		if len(phiTracks) == 0 {
			return st
		}
		pi := -1
		for i, p := range to.Preds {
			if p == from {
				pi = i
			}
		}
		st0 := st // phis of one block read the state before the edge
		for _, in := range to.Instrs {
			ph, ok := in.(*ssa.Phi)
			if !ok {
				break
			}
			ti, tracked := phiTracks[ph]
			if !tracked || pi < 0 {
				continue
			}
			val := Unseen
			if k, ok := ph.Edges[pi].(*ssa.Const); ok && k.Value != nil {
				if k.Value.String() == "true" {
					val = True
				} else if k.Value.String() == "false" {
					val = False
				}
			} else if inner, ok := ph.Edges[pi].(*ssa.Phi); ok {
				// a flag merged twice (`if c { flag = true }` inside a
				// switch case): the outer phi takes the inner one's value
				if tj, ok := phiTracks[inner]; ok {
					val = st0.get(tj)
				}
			}
			st = st.set(ti, val)
		}
		return st
	}
	seen := map[nodeKey]bool{}
	process := func(k nodeKey, from int) {
		r.Visited++
		b := fn.Blocks[k.block]
		st := k.st
		for i := from; i < len(b.Instrs); i++ {
			in := b.Instrs[i]
			m := r.at[in]
			if m == nil {
				m = map[State]nodeKey{}
				r.at[in] = m
			}
			if _, ok := m[st]; !ok {
				m[st] = k
			}
			if rt, ok := in.(*ssa.Return); ok {
				if sp := SplitOf(rt); sp != nil {
					// logical returns of a tail return (see SplitOf)
					cond := Cond{IsRel: true, Op: token.NEQ, X: a.P.D(sp.Val), Y: "nil", XV: sp.Val}
					// a tested value: the recorded outcome of the test says
					// which logical return this path takes
					known := Unseen // True: value != nil
					if ifi0 := retFact[rt]; ifi0 != nil {
						if ci, ok := corrIdx[ifi0]; ok {
							if cur := st.get(ci); cur != Unseen {
								raw0, neg0 := peelNot(ifi0.Cond)
								isEq := raw0.(*ssa.BinOp).Op == token.EQL
								t := (cur == True) != corrNeg[ifi0] // truth of ifi0's condition
								nonNil := (t != neg0) != isEq
								known = False
								if nonNil {
									known = True
								}
							}
						}
					}
					for e, twin := range []*ssa.Return{sp.Err, sp.Nil} {
						if (e == 0 && known == False) || (e == 1 && known == True) {
							continue
						}
						ns := st
						for ti, t := range a.Tracks {
							if t.If == nil {
								continue
							}
							if m, on := t.If(cond, nil); m {
								for _, kj := range kills[ti] {
									ns = ns.set(kj, Unseen)
								}
								v := on
								if e == 1 {
									v = 3 - v
								}
								ns = ns.set(ti, v)
							}
						}
						tm := r.at[twin]
						if tm == nil {
							tm = map[State]nodeKey{}
							r.at[twin] = tm
						}
						if _, ok := tm[ns]; !ok {
							tm[ns] = k
						}
					}
				}
			}
			if a.StopAt != nil && a.StopAt(in) {
				return
			}
			for _, ti := range corrDef[in] {
				st = st.set(ti, Unseen)
			}
			for _, ti := range evs[in] {
				st = st.set(ti, True)
				for _, kj := range kills[ti] {
					st = st.set(kj, Unseen)
				}
			}
			if ifi, ok := in.(*ssa.If); ok {
				ic := ifs[ifi]
				choice := Both
				if a.Oracle != nil {
					choice = a.Oracle(ifi, ic.cond)
				}
				// a branch on a compile-time constant has one feasible edge
				if cv, neg := peelNot(ifi.Cond); true {
					if k, ok := cv.(*ssa.Const); ok && k.Value != nil {
						t := k.Value.String() == "true"
						if neg {
							t = !t
						}
						if t {
							choice = TrueOnly
						} else {
							choice = FalseOnly
						}
					}
				}
				ci, hasCorr := corrIdx[ifi]
				for e := 0; e < 2; e++ {
					if (e == 0 && choice == FalseOnly) || (e == 1 && choice == TrueOnly) {
						continue
					}
					ns := st
					if hasCorr {
						// truth of the underlying value on this edge
						val := True
						if (e == 1) != corrNeg[ifi] {
							val = False
						}
						if cur := st.get(ci); cur != Unseen && cur != val {
							continue // contradicts the earlier branch on the same value
						}
						ns = ns.set(ci, val)
					}
					for _, ti := range ic.matches {
						for _, kj := range kills[ti] {
							ns = ns.set(kj, Unseen)
						}
					}
					for j, ti := range ic.matches {
						v := ic.onTrue[j]
						if e == 1 {
							v = 3 - v
						}
						ns = ns.set(ti, v)
					}
					if e == ic.implEdge {
						for _, ti := range ic.implMatches {
							for _, kj := range kills[ti] {
								ns = ns.set(kj, Unseen)
							}
						}
						for j, ti := range ic.implMatches {
							v := ic.implOnTrue[j]
							if !ic.implVal {
								v = 3 - v
							}
							ns = ns.set(ti, v)
						}
					}
					ns = enterBlock(b, b.Succs[e], ns)
					nk := nodeKey{b.Succs[e].Index, ns}
					recEdge(b.Index, nk.block, ns)
					r.Edges++
					if !seen[nk] {
						seen[nk] = true
						pol := "T"
						if e == 1 {
							pol = "F"
						}
						r.parent[nk] = parentRec{prev: k, label: fmt.Sprintf("%s [%s]=%s", a.P.InstrPos(ifi), ic.cond.String(), pol)}
						queue = append(queue, nk)
					}
				}
				return
			}
		}
		for _, s := range b.Succs {
			nk := nodeKey{s.Index, enterBlock(b, s, st)}
			recEdge(b.Index, s.Index, nk.st)
			r.Edges++
			if !seen[nk] {
				seen[nk] = true
				r.parent[nk] = parentRec{prev: k}
				queue = append(queue, nk)
			}
		}
	}
	start := nodeKey{startBlock, a.Init}
	if startIdx == 0 {
		seen[start] = true
		r.parent[start] = parentRec{root: true}
		queue = append(queue, start)
	} else {
		// virtual start in the middle of a block: its own key is never
		// deduplicated against a later full visit of the same block
		vk := nodeKey{-1 - startBlock, a.Init}
		r.parent[vk] = parentRec{root: true}
		func() {
			// process with the real block index but record the virtual key
			k := nodeKey{startBlock, a.Init}
			r.parent[k] = parentRec{root: true}
			process(k, startIdx)
			delete(r.parent, k)
		}()
	}
	for len(queue) > 0 {
		k := queue[0]
		queue = queue[1:]
		process(k, 0)
	}
	return r
}

// EdgeStates lists the product states with which control flows from block
// `from` to block `to` (after the branch's own track updates).
func (r *Result) EdgeStates(from, to *ssa.BasicBlock) []View {
	var out []View
	var sts []State
	for s := range r.edges[[2]int{from.Index, to.Index}] {
		sts = append(sts, s)
	}
	sort.Slice(sts, func(i, j int) bool { return sts[i] < sts[j] })
	for _, s := range sts {
		out = append(out, View{r, s})
	}
	return out
}

func peelNot(v ssa.Value) (ssa.Value, bool) {
	neg := false
	for {
		if u, ok := v.(*ssa.UnOp); ok && u.Op == token.NOT {
			neg = !neg
			v = u.X
			continue
		}
		return v, neg
	}
}

// Reached reports whether the instruction is reachable at all.
func (r *Result) Reached(in ssa.Instruction) bool { return len(r.at[in]) > 0 }

// View is a product state with named access.
type View struct {
	r  *Result
	St State
}

// Is reports the value of a track.
func (v View) Is(name string, val int) bool {
	i, ok := v.r.idx[name]
	if !ok {
		panic("unknown track " + name)
	}
	return v.St.get(i) == val
}

func (v View) T(name string) bool      { return v.Is(name, True) }
func (v View) F(name string) bool      { return v.Is(name, False) }
func (v View) Seen(name string) bool   { return v.Is(name, True) }
func (v View) Unseen(name string) bool { return v.Is(name, Unseen) }

func (v View) String() string {
	var parts []string
	for i, t := range v.r.A.Tracks {
		switch v.St.get(i) {
		case True:
			parts = append(parts, t.Name+"=T")
		case False:
			parts = append(parts, t.Name+"=F")
		default:
			parts = append(parts, t.Name+"=·")
		}
	}
	return strings.Join(parts, " ")
}

// StatesAt lists the product states with which the instruction is reached
// (before its own event transitions).
func (r *Result) StatesAt(in ssa.Instruction) []View {
	var out []View
	var sts []State
	for s := range r.at[in] {
		sts = append(sts, s)
	}
	sort.Slice(sts, func(i, j int) bool { return sts[i] < sts[j] })
	for _, s := range sts {
		out = append(out, View{r, s})
	}
	return out
}

// Witness renders one path (branch decisions only) that reaches the
// instruction in the given state.
func (r *Result) Witness(in ssa.Instruction, v View) string {
	k, ok := r.at[in][v.St]
	if !ok {
		return "(no path)"
	}
	var labels []string
	for i := 0; i < 10000; i++ {
		pr, ok := r.parent[k]
		if !ok || pr.root {
			break
		}
		if pr.label != "" {
			labels = append(labels, pr.label)
		}
		k = pr.prev
	}
	for i, j := 0, len(labels)-1; i < j; i, j = i+1, j-1 {
		labels[i], labels[j] = labels[j], labels[i]
	}
	if len(labels) > 14 {
		labels = append(labels[:4], append([]string{"…"}, labels[len(labels)-9:]...)...)
	}
	return strings.Join(labels, " → ")
}

// Require checks that formula holds for every state reaching the site. It
// returns ok, the number of states examined, and a diagnosis for the first
// failing state.
func (r *Result) Require(in ssa.Instruction, formula func(View) bool) (bool, int, string) {
	vs := r.StatesAt(in)
	for _, v := range vs {
		if !formula(v) {
			return false, len(vs), fmt.Sprintf("reachable with {%s} via %s", v.String(), r.Witness(in, v))
		}
	}
	return true, len(vs), ""
}

// ---- track constructors --------------------------------------------------

// PredRel tracks a comparison between descriptors a and b; the track is True
// when the last evaluation established ord(a,b) ⊆ want, False when it
// established ord(a,b) ∩ want = ∅; branches on (a,b) that establish neither
// leave it unchanged.
func PredRel(name, a, b string, want OrdSet) Track {
	return Track{Name: name, If: func(c Cond, _ *ssa.If) (bool, int) {
		tset, ok := c.RelOn(a, b)
		if !ok {
			return false, 0
		}
		fset := c.EdgeOrd(false)
		if c.X != a {
			fset = fset.Flip()
		}
		switch {
		case tset&^want == 0 && fset&want == 0:
			return true, True
		case fset&^want == 0 && tset&want == 0:
			return true, False
		}
		return false, 0
	}}
}

// PredBool tracks a boolean condition whose descriptor satisfies match.
func PredBool(name string, match func(desc string) bool) Track {
	return Track{Name: name, If: func(c Cond, _ *ssa.If) (bool, int) {
		if c.IsRel || !match(c.B) {
			return false, 0
		}
		if c.Neg {
			return true, False
		}
		return true, True
	}}
}

// PredCond tracks an arbitrary condition matcher; onTrue is computed by f.
func PredCond(name string, f func(c Cond) (bool, int)) Track {
	return Track{Name: name, If: func(c Cond, _ *ssa.If) (bool, int) { return f(c) }}
}

// Event tracks the execution of matching instructions.
func Event(name string, f func(in ssa.Instruction) bool, kills ...string) Track {
	return Track{Name: name, Ev: f, Kills: kills}
}

var stableParamRe = regexp.MustCompile(`^(len\()?p[0-9]+(\.[A-Za-z_][A-Za-z0-9_]*)+\)?$`)

// stableParamDesc: a field path of a parameter, or its length.
func stableParamDesc(d string) bool { return stableParamRe.MatchString(d) }

// writtenInFn reports whether fn (or a literal nested in it) stores into the
// field path d is about.
func writtenInFn(p *Program, fn *ssa.Function, d string) bool {
	d = strings.TrimSuffix(strings.TrimPrefix(d, "len("), ")")
	if constLike(d) {
		return false
	}
	for _, f := range allFuncsUnder(fn) {
		for _, b := range f.Blocks {
			for _, in := range b.Instrs {
				if st, ok := in.(*ssa.Store); ok {
					ad := p.D(st.Addr)
					if ad == d || strings.HasPrefix(d, ad+".") || strings.HasPrefix(ad, d+".") || strings.HasPrefix(ad, d+"[") {
						return true
					}
				}
			}
		}
	}
	return false
}
