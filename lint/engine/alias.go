package engine

import (
	"encoding/json"
	"fmt"
	"go/types"
	"os"
	"sort"
	"strings"
	"sync"

	"golang.org/x/tools/go/ssa"
)

// Rename tolerance.
//
// Rules name their anchors (struct fields, functions) the way the pinned tree
// does. A later tree may rename an unexported field or helper without changing
// behaviour; such a rename must not read as a missing anchor. The baseline
// (baseline/symbols.json, written once from the pinned tree with
// -write-baseline) records every struct's ordered field list and every
// function's signature. On load, a symbol that exists in the baseline but not
// in the current tree is matched with a symbol that exists in the current tree
// but not in the baseline when the match is unambiguous:
//
//   field:    same struct, same type, and either the same position in a struct
//             of unchanged length or the only missing/new pair of that struct;
//   function: same receiver type, same signature, and the only missing/new
//             pair with that receiver and signature.
//
// The current symbol is then described under its baseline name everywhere
// (descriptors, lookups, function index). Names carry no semantics, so every
// rule keeps checking the same uses of the same object. Ambiguous cases are
// not aliased and surface as unresolved anchors (a failure, by design).

type Baseline struct {
	Structs map[string][]BaseField `json:"structs"`
	Funcs   map[string]string      `json:"funcs"` // stable name -> signature
}

type BaseField struct {
	Name string `json:"name"`
	Type string `json:"type"`
}

// BaselinePath is set by the driver before Load; empty disables aliasing.
var BaselinePath string

// fieldAlias maps a current field object to its baseline name (written during
// Load, read while describing; the self-test loads programs in parallel).
var (
	fieldAliasMu sync.RWMutex
	fieldAlias   = map[*types.Var]string{}
)

// Aliases lists the renames recognised by the last Load (for the report).
func (p *Program) Aliases() []string { return p.aliases }

// FieldName is the name rules and obligation keys use for a field: the
// baseline name when the field was recognised as renamed.
func FieldName(f *types.Var) string { return fieldDisplayName(f) }

func fieldDisplayName(f *types.Var) string {
	fieldAliasMu.RLock()
	a, ok := fieldAlias[f]
	fieldAliasMu.RUnlock()
	if ok {
		return a
	}
	return f.Name()
}

func (p *Program) structTable() map[string][]BaseField {
	out := map[string][]BaseField{}
	sc := p.Pkg.Types.Scope()
	for _, nm := range sc.Names() {
		tn, ok := sc.Lookup(nm).(*types.TypeName)
		if !ok {
			continue
		}
		st, ok := tn.Type().Underlying().(*types.Struct)
		if !ok {
			continue
		}
		var fs []BaseField
		for i := 0; i < st.NumFields(); i++ {
			fs = append(fs, BaseField{st.Field(i).Name(), p.TypeStr(st.Field(i).Type())})
		}
		out[nm] = fs
	}
	return out
}

func sigString(p *Program, fn *ssa.Function) string {
	sig := fn.Signature
	var ps, rs []string
	for i := 0; i < sig.Params().Len(); i++ {
		ps = append(ps, p.TypeStr(sig.Params().At(i).Type()))
	}
	for i := 0; i < sig.Results().Len(); i++ {
		rs = append(rs, p.TypeStr(sig.Results().At(i).Type()))
	}
	v := ""
	if sig.Variadic() {
		v = "..."
	}
	return "(" + strings.Join(ps, ",") + v + ")(" + strings.Join(rs, ",") + ")"
}

// recvKey splits a stable top-level name into receiver part and short name.
func recvKey(name string) (recv, short string) {
	if i := strings.LastIndex(name, ")."); i >= 0 && strings.HasPrefix(name, "(") {
		return name[:i+1], name[i+2:]
	}
	return "", name
}

// WriteBaseline records the current tree's symbols.
func (p *Program) WriteBaseline(path string) error {
	b := Baseline{Structs: p.structTable(), Funcs: map[string]string{}}
	for name, fn := range p.Funcs {
		b.Funcs[name] = sigString(p, fn)
	}
	data, err := json.MarshalIndent(b, "", " ")
	if err != nil {
		return err
	}
	return os.WriteFile(path, append(data, '\n'), 0o644)
}

func loadBaseline() *Baseline {
	if BaselinePath == "" {
		return nil
	}
	data, err := os.ReadFile(BaselinePath)
	if err != nil {
		return nil
	}
	var b Baseline
	if json.Unmarshal(data, &b) != nil {
		return nil
	}
	return &b
}

// computeFieldAliases fills fieldAlias for the loaded package.
func (p *Program) computeFieldAliases(b *Baseline) {
	sc := p.Pkg.Types.Scope()
	var names []string
	for nm := range b.Structs {
		names = append(names, nm)
	}
	sort.Strings(names)
	for _, nm := range names {
		base := b.Structs[nm]
		tn, ok := sc.Lookup(nm).(*types.TypeName)
		if !ok {
			continue
		}
		st, ok := tn.Type().Underlying().(*types.Struct)
		if !ok {
			continue
		}
		baseNames := map[string]int{}
		for i, f := range base {
			baseNames[f.Name] = i
		}
		curNames := map[string]int{}
		for i := 0; i < st.NumFields(); i++ {
			curNames[st.Field(i).Name()] = i
		}
		var missing, fresh []int // indexes into base / st
		for i, f := range base {
			if _, ok := curNames[f.Name]; !ok {
				missing = append(missing, i)
			}
		}
		for i := 0; i < st.NumFields(); i++ {
			if _, ok := baseNames[st.Field(i).Name()]; !ok {
				fresh = append(fresh, i)
			}
		}
		if len(missing) == 0 || len(fresh) == 0 {
			continue
		}
		used := map[int]bool{}
		for _, mi := range missing {
			cand := -1
			// same position in a struct of unchanged length
			if len(base) == st.NumFields() && mi < st.NumFields() {
				if _, old := baseNames[st.Field(mi).Name()]; !old && p.TypeStr(st.Field(mi).Type()) == base[mi].Type {
					cand = mi
				}
			}
			if cand < 0 {
				// the only new field of that type
				n := 0
				for _, fi := range fresh {
					if !used[fi] && p.TypeStr(st.Field(fi).Type()) == base[mi].Type {
						cand = fi
						n++
					}
				}
				m := 0
				for _, mj := range missing {
					if base[mj].Type == base[mi].Type {
						m++
					}
				}
				if n != 1 || m != 1 {
					cand = -1
				}
			}
			if cand >= 0 && !used[cand] {
				used[cand] = true
				fieldAliasMu.Lock()
				fieldAlias[st.Field(cand)] = base[mi].Name
				fieldAliasMu.Unlock()
				p.aliases = append(p.aliases, fmt.Sprintf("field %s.%s is the baseline's %s.%s (renamed)", nm, st.Field(cand).Name(), nm, base[mi].Name))
			}
		}
	}
}

// funcAliases maps a current top-level function's stable name to its baseline
// stable name.
func (p *Program) funcAliases(b *Baseline, current map[string]*ssa.Function) map[string]string {
	out := map[string]string{}
	type key struct{ recv, sig string }
	missing := map[key][]string{}
	fresh := map[key][]string{}
	for name, sig := range b.Funcs {
		if strings.Contains(name, "$") {
			continue // function literals are matched per parent (closureAliases)
		}
		if _, ok := current[name]; !ok {
			r, _ := recvKey(name)
			missing[key{r, sig}] = append(missing[key{r, sig}], name)
		}
	}
	for name, fn := range current {
		if _, ok := b.Funcs[name]; !ok {
			r, _ := recvKey(name)
			k := key{r, sigString(p, fn)}
			fresh[k] = append(fresh[k], name)
		}
	}
	for k, ms := range missing {
		fs := fresh[k]
		if len(ms) == 1 && len(fs) == 1 {
			out[fs[0]] = ms[0]
			p.aliases = append(p.aliases, fmt.Sprintf("function %s is the baseline's %s (renamed)", fs[0], ms[0]))
		}
	}
	sort.Strings(p.aliases)
	return out
}

// closureAliases: the literals of one function are named after the local
// variable they are bound to ("(*Raft).electSelf$askPeer"); renaming that
// variable must not read as a missing anchor. Within one parent, a baseline
// literal name that is gone and a new literal name of the same signature are
// the same literal when the pairing is unique.
func (p *Program) closureAliases(b *Baseline, parent string, children map[string]*ssa.Function) map[string]string {
	out := map[string]string{}
	if b == nil {
		return out
	}
	prefix := parent + "$"
	missing := map[string][]string{}
	for name, sig := range b.Funcs {
		if !strings.HasPrefix(name, prefix) || strings.Contains(name[len(prefix):], "$") {
			continue
		}
		if _, ok := children[name]; !ok {
			missing[sig] = append(missing[sig], name)
		}
	}
	fresh := map[string][]string{}
	for name, fn := range children {
		if _, ok := b.Funcs[name]; !ok {
			fresh[sigString(p, fn)] = append(fresh[sigString(p, fn)], name)
		}
	}
	for sig, ms := range missing {
		fs := fresh[sig]
		if len(ms) == 1 && len(fs) == 1 {
			out[fs[0]] = ms[0]
			p.aliases = append(p.aliases, fmt.Sprintf("function literal %s is the baseline's %s (renamed)", fs[0], ms[0]))
		}
	}
	return out
}
