package engine

import (
	"fmt"
	"go/constant"
	"go/token"
	"go/types"
	"sort"
	"strings"

	"golang.org/x/tools/go/ssa"
)

// Descriptors. D(v) renders an SSA value as a canonical access path that reads
// like source but is resolved: parameters are positional (recv, p1, p2 ...; in
// function literals cp1 ...), address-taken locals are named by type
// (var(Log)#2), calls are callee(args), loads through field addresses are field
// paths. Two values with the same descriptor denote the same expression over
// the same program objects; they are equal at run time only if nothing wrote
// the involved memory in between – rules that need that say so.

const maxDescDepth = 16

type descCtx struct {
	p       *Program
	visited map[ssa.Value]bool
	depth   int
}

// D returns the descriptor of v.
func (p *Program) D(v ssa.Value) string {
	c := &descCtx{p: p, visited: map[ssa.Value]bool{}}
	return c.d(v)
}

func (p *Program) qual(pkg *types.Package) string {
	if pkg == nil || pkg == p.Pkg.Types {
		return ""
	}
	return pkg.Name()
}

// TypeStr renders a type relative to the subject package.
func (p *Program) TypeStr(t types.Type) string {
	return types.TypeString(t, p.qual)
}

func (c *descCtx) d(v ssa.Value) string {
	if v == nil {
		return "<nil>"
	}
	if c.depth > maxDescDepth {
		return "…"
	}
	c.depth++
	defer func() { c.depth-- }()
	p := c.p
	switch x := v.(type) {
	case *ssa.Const:
		return p.constStr(x)
	case *ssa.Parameter:
		return p.paramName(x)
	case *ssa.FreeVar:
		if b := p.freeVarBinding(x); b != nil {
			return c.d(b)
		}
		return "free(" + p.TypeStr(x.Type()) + ")"
	case *ssa.Global:
		q := ""
		if x.Pkg != nil && x.Pkg != p.SSA {
			q = x.Pkg.Pkg.Name() + "."
		}
		return "@" + q + x.Name()
	case *ssa.Function:
		return "func:" + p.CalleeNameOfFunc(x)
	case *ssa.Builtin:
		return x.Name()
	case *ssa.Alloc:
		return p.allocName(x)
	case *ssa.FieldAddr:
		return c.cellOr(x.X) + "." + fieldName(x.X.Type(), x.Field)
	case *ssa.Field:
		return c.d(x.X) + "." + fieldName(x.X.Type(), x.Field)
	case *ssa.IndexAddr:
		if isRangeIndex(x.Index) {
			return "val(range " + c.cellOr(x.X) + ")"
		}
		return c.cellOr(x.X) + "[" + c.d(x.Index) + "]"
	case *ssa.Index:
		if isRangeIndex(x.Index) {
			return "val(range " + c.d(x.X) + ")"
		}
		return c.d(x.X) + "[" + c.d(x.Index) + "]"
	case *ssa.Lookup:
		return c.d(x.X) + "[" + c.d(x.Index) + "]"
	case *ssa.Slice:
		lo, hi := "", ""
		if x.Low != nil {
			lo = c.d(x.Low)
		}
		if x.High != nil {
			hi = c.d(x.High)
		}
		return c.d(x.X) + "[" + lo + ":" + hi + "]"
	case *ssa.UnOp:
		switch x.Op {
		case token.MUL:
			if a, ok := x.X.(*ssa.Alloc); ok {
				if sv := p.singleStore(a); sv != nil && !c.visited[sv] {
					c.visited[sv] = true
					s := c.d(sv)
					delete(c.visited, sv)
					return s
				}
				// `if err = f(); err != nil` on a cell (captured or defer-spilled
				// variable): the load directly after the store, in the same block
				// with nothing in between that could write the cell, reads the
				// stored value
				if sv := blockForwardedStore(x, a); sv != nil && !c.visited[sv] {
					c.visited[sv] = true
					s := c.d(sv)
					delete(c.visited, sv)
					return s
				}
			}
			if fv, ok := x.X.(*ssa.FreeVar); ok {
				if b := p.freeVarBinding(fv); b != nil {
					if a, ok := b.(*ssa.Alloc); ok {
						if sv := p.singleStore(a); sv != nil && !c.visited[sv] {
							c.visited[sv] = true
							s := c.d(sv)
							delete(c.visited, sv)
							return s
						}
					}
				}
			}
			return c.d(x.X)
		case token.NOT:
			return "!" + c.d(x.X)
		case token.ARROW:
			return "<-" + c.d(x.X)
		case token.SUB:
			return "-" + c.d(x.X)
		case token.XOR:
			return "^" + c.d(x.X)
		}
		return x.Op.String() + c.d(x.X)
	case *ssa.BinOp:
		if isRangeIndex(x) {
			return "idx(range)"
		}
		return "(" + c.d(x.X) + " " + x.Op.String() + " " + c.d(x.Y) + ")"
	case *ssa.Convert:
		return c.d(x.X)
	case *ssa.ChangeType:
		return c.d(x.X)
	case *ssa.ChangeInterface:
		return c.d(x.X)
	case *ssa.MakeInterface:
		return c.d(x.X)
	case *ssa.SliceToArrayPointer:
		return c.d(x.X)
	case *ssa.MultiConvert:
		return c.d(x.X)
	case *ssa.TypeAssert:
		return c.d(x.X) + ".(" + p.TypeStr(x.AssertedType) + ")"
	case *ssa.Extract:
		switch t := x.Tuple.(type) {
		case *ssa.Next:
			it := "?"
			if r, ok := t.Iter.(*ssa.Range); ok {
				it = c.d(r.X)
			}
			switch x.Index {
			case 0:
				return "more(range " + it + ")"
			case 1:
				return "key(range " + it + ")"
			default:
				return "val(range " + it + ")"
			}
		case *ssa.Select:
			switch x.Index {
			case 0:
				return "selidx"
			case 1:
				return "selok"
			default:
				k := x.Index - 2
				for _, st := range t.States {
					if st.Dir == types.RecvOnly {
						if k == 0 {
							return "<-" + c.d(st.Chan)
						}
						k--
					}
				}
				return "selrecv?"
			}
		}
		return c.d(x.Tuple) + fmt.Sprintf("#%d", x.Index)
	case *ssa.Call:
		return c.call(x.Common())
	case *ssa.Phi:
		if isCountingIndex(x) {
			return "idx(range)"
		}
		if c.visited[x] {
			return "↺"
		}
		c.visited[x] = true
		defer delete(c.visited, x)
		set := map[string]bool{}
		for _, e := range x.Edges {
			s := c.d(e)
			if s == "↺" {
				continue
			}
			set[s] = true
		}
		var parts []string
		for s := range set {
			parts = append(parts, s)
		}
		sort.Strings(parts)
		if len(parts) == 1 {
			return parts[0]
		}
		return "phi(" + strings.Join(parts, " | ") + ")"
	case *ssa.MakeClosure:
		if fn, ok := x.Fn.(*ssa.Function); ok {
			if g := thinMethodLiteral(fn); g != nil {
				// func() { r.m() } is the method value r.m
				return "closure:" + p.Name(g) + "$bound"
			}
			return "closure:" + p.Name(fn)
		}
		return "closure:?"
	case *ssa.MakeMap:
		return "make(" + p.TypeStr(x.Type()) + ")"
	case *ssa.MakeSlice:
		return "make(" + p.TypeStr(x.Type()) + ", " + c.d(x.Len) + ")"
	case *ssa.MakeChan:
		return "make(" + p.TypeStr(x.Type()) + ", " + c.d(x.Size) + ")"
	case *ssa.Range:
		return "range " + c.d(x.X)
	case *ssa.Next:
		return "next"
	case *ssa.Select:
		return "select"
	}
	return fmt.Sprintf("?%T", v)
}

// cellOr describes an address base: a single-assignment local cell is
// replaced by the value stored into it.
func (c *descCtx) cellOr(v ssa.Value) string {
	if a := c.p.resolveCell(v); a != nil {
		if sv := c.p.singleStore(a); sv != nil && !c.visited[sv] {
			c.visited[sv] = true
			s := c.d(sv)
			delete(c.visited, sv)
			return s
		}
	}
	return c.d(v)
}

// isRangeIndex recognises the index expression go/ssa generates for
// "for i, v := range slice": (phi #rangeindex) + 1.
func isRangeIndex(v ssa.Value) bool {
	if ph, ok := v.(*ssa.Phi); ok {
		return isCountingIndex(ph)
	}
	b, ok := v.(*ssa.BinOp)
	if !ok || b.Op != token.ADD {
		return false
	}
	ph, ok := b.X.(*ssa.Phi)
	return ok && ph.Comment == "rangeindex"
}

// isCountingIndex recognises the hand-written form of the same loop,
// "for i := 0; i < len(xs); i++": a two-edge phi that starts at the constant 0,
// is advanced by exactly +1, and is tested "< len(...)" by the loop's branch.
// It is described exactly like the index of a range loop, so a rule does not
// depend on which of the two spellings the source uses.
func isCountingIndex(ph *ssa.Phi) bool {
	if len(ph.Edges) != 2 {
		return false
	}
	zero, step := false, false
	for _, e := range ph.Edges {
		switch x := e.(type) {
		case *ssa.Const:
			if x.Value != nil && x.Value.Kind() == constant.Int {
				if n, ok := constant.Int64Val(x.Value); ok && n == 0 {
					zero = true
				}
			}
		case *ssa.BinOp:
			if x.Op == token.ADD && x.X == ssa.Value(ph) {
				if k, ok := x.Y.(*ssa.Const); ok && k.Value != nil && k.Value.Kind() == constant.Int {
					if n, ok := constant.Int64Val(k.Value); ok && n == 1 {
						step = true
					}
				}
			}
		}
	}
	if !zero || !step || ph.Referrers() == nil {
		return false
	}
	for _, r := range *ph.Referrers() {
		cmp, ok := r.(*ssa.BinOp)
		if !ok {
			continue
		}
		var bound ssa.Value
		switch {
		case cmp.Op == token.LSS && cmp.X == ssa.Value(ph):
			bound = cmp.Y
		case cmp.Op == token.GTR && cmp.Y == ssa.Value(ph):
			bound = cmp.X
		default:
			continue
		}
		call, ok := bound.(*ssa.Call)
		if !ok {
			continue
		}
		if b, ok := call.Call.Value.(*ssa.Builtin); !ok || b.Name() != "len" {
			continue
		}
		if cmp.Referrers() == nil {
			continue
		}
		for _, rr := range *cmp.Referrers() {
			if _, ok := rr.(*ssa.If); ok && rr.Block() == ph.Block() {
				return true
			}
		}
	}
	return false
}

func (c *descCtx) args(vs []ssa.Value) string {
	var parts []string
	for _, a := range vs {
		parts = append(parts, c.d(a))
	}
	return strings.Join(parts, ", ")
}

func (c *descCtx) call(cc *ssa.CallCommon) string {
	p := c.p
	if cc.IsInvoke() {
		return c.d(cc.Value) + "." + cc.Method.Name() + "(" + c.args(cc.Args) + ")"
	}
	switch f := cc.Value.(type) {
	case *ssa.Function:
		if f.Signature.Recv() != nil && len(cc.Args) > 0 {
			return c.d(cc.Args[0]) + "." + p.fnShort(f) + "(" + c.args(cc.Args[1:]) + ")"
		}
		if f.String() == "time.Since" && len(cc.Args) == 1 {
			// time.Since(t) is documented shorthand for time.Now().Sub(t)
			return "time.Now().Sub(" + c.d(cc.Args[0]) + ")"
		}
		return p.CalleeNameOfFunc(f) + "(" + c.args(cc.Args) + ")"
	case *ssa.Builtin:
		return f.Name() + "(" + c.args(cc.Args) + ")"
	case *ssa.MakeClosure:
		if fn, ok := f.Fn.(*ssa.Function); ok {
			return p.Name(fn) + "(" + c.args(cc.Args) + ")"
		}
	}
	return c.d(cc.Value) + "(" + c.args(cc.Args) + ")"
}

func fieldName(t types.Type, idx int) string {
	if pt, ok := t.Underlying().(*types.Pointer); ok {
		t = pt.Elem()
	}
	if st, ok := t.Underlying().(*types.Struct); ok && idx < st.NumFields() {
		return fieldDisplayName(st.Field(idx))
	}
	return fmt.Sprintf("f%d", idx)
}

// FieldOf returns the field object selected by a FieldAddr/Field value, or nil.
func FieldOf(v ssa.Value) *types.Var {
	var t types.Type
	var idx int
	switch x := v.(type) {
	case *ssa.FieldAddr:
		t, idx = x.X.Type(), x.Field
	case *ssa.Field:
		t, idx = x.X.Type(), x.Field
	default:
		return nil
	}
	if pt, ok := t.Underlying().(*types.Pointer); ok {
		t = pt.Elem()
	}
	if st, ok := t.Underlying().(*types.Struct); ok && idx < st.NumFields() {
		return st.Field(idx)
	}
	return nil
}

func (p *Program) constStr(c *ssa.Const) string {
	if c.Value == nil {
		if _, ok := c.Type().Underlying().(*types.Basic); ok {
			return "zero"
		}
		if _, ok := c.Type().Underlying().(*types.Struct); ok {
			return "zero(" + p.TypeStr(c.Type()) + ")"
		}
		return "nil"
	}
	// named constant of a named type?
	if n, ok := c.Type().(*types.Named); ok && n.Obj().Pkg() != nil {
		var names []string
		sc := n.Obj().Pkg().Scope()
		for _, nm := range sc.Names() {
			if k, ok := sc.Lookup(nm).(*types.Const); ok && types.Identical(k.Type(), n) {
				if constant.Compare(k.Val(), token.EQL, c.Value) {
					names = append(names, nm)
				}
			}
		}
		if len(names) > 0 {
			sort.Strings(names)
			return strings.Join(names, "/")
		}
	}
	switch c.Value.Kind() {
	case constant.String:
		return fmt.Sprintf("%q", constant.StringVal(c.Value))
	case constant.Bool:
		return c.Value.String()
	}
	return c.Value.ExactString()
}

func (p *Program) paramName(x *ssa.Parameter) string {
	fn := x.Parent()
	prefix := ""
	for f := fn; f != nil && f.Parent() != nil; f = f.Parent() {
		prefix += "c"
	}
	for i, pr := range fn.Params {
		if pr == x {
			if fn.Signature.Recv() != nil {
				if i == 0 {
					return prefix + "recv"
				}
				return fmt.Sprintf("%sp%d", prefix, i)
			}
			return fmt.Sprintf("%sp%d", prefix, i+1)
		}
	}
	return prefix + "p?"
}

// freeVarBinding resolves a free variable of a function literal to the value
// bound to it in the enclosing function.
func (p *Program) freeVarBinding(fv *ssa.FreeVar) ssa.Value {
	fn := fv.Parent()
	par := fn.Parent()
	if par == nil {
		return nil
	}
	idx := -1
	for i, f := range fn.FreeVars {
		if f == fv {
			idx = i
		}
	}
	if idx < 0 {
		return nil
	}
	for _, b := range par.Blocks {
		for _, in := range b.Instrs {
			if mc, ok := in.(*ssa.MakeClosure); ok && mc.Fn == fn && idx < len(mc.Bindings) {
				return mc.Bindings[idx]
			}
		}
	}
	return nil
}

// rootFn returns the outermost enclosing function.
func rootFn(fn *ssa.Function) *ssa.Function {
	for fn.Parent() != nil {
		fn = fn.Parent()
	}
	return fn
}

func allFuncsUnder(fn *ssa.Function) []*ssa.Function {
	out := []*ssa.Function{fn}
	for _, a := range fn.AnonFuncs {
		out = append(out, allFuncsUnder(a)...)
	}
	return out
}

// resolveCell maps an address value to the Alloc it denotes (through free
// variable bindings), or nil.
func (p *Program) resolveCell(v ssa.Value) *ssa.Alloc {
	for i := 0; i < 8; i++ {
		switch x := v.(type) {
		case *ssa.Alloc:
			return x
		case *ssa.FreeVar:
			v = p.freeVarBinding(x)
			if v == nil {
				return nil
			}
		default:
			return nil
		}
	}
	return nil
}

type cellInfo struct {
	stores []*ssa.Store
	escape bool // address passed to a call or stored somewhere
}

func (p *Program) cells(root *ssa.Function) map[*ssa.Alloc]*cellInfo {
	if p.cellCache == nil {
		p.cellCache = map[*ssa.Function]map[*ssa.Alloc]*cellInfo{}
	}
	if m, ok := p.cellCache[root]; ok {
		return m
	}
	m := map[*ssa.Alloc]*cellInfo{}
	get := func(a *ssa.Alloc) *cellInfo {
		ci := m[a]
		if ci == nil {
			ci = &cellInfo{}
			m[a] = ci
		}
		return ci
	}
	for _, f := range allFuncsUnder(root) {
		for _, b := range f.Blocks {
			for _, in := range b.Instrs {
				switch x := in.(type) {
				case *ssa.Store:
					if a := p.resolveCell(x.Addr); a != nil {
						ci := get(a)
						ci.stores = append(ci.stores, x)
					}
					if a := p.resolveCell(x.Val); a != nil {
						get(a).escape = true
					}
				case ssa.CallInstruction:
					for _, arg := range x.Common().Args {
						if a := p.resolveCell(arg); a != nil {
							get(a).escape = true
						}
					}
				}
			}
		}
	}
	p.cellCache[root] = m
	return m
}

// singleStore returns the only value ever stored into cell a when the cell is
// written exactly once and its address does not escape into a call.
func (p *Program) singleStore(a *ssa.Alloc) ssa.Value {
	ci := p.cells(rootFn(a.Parent()))[a]
	if ci == nil || ci.escape || len(ci.stores) != 1 {
		return nil
	}
	return ci.stores[0].Val
}

func (p *Program) allocName(a *ssa.Alloc) string {
	if p.allocNameCache == nil {
		p.allocNameCache = map[*ssa.Alloc]string{}
	}
	if s, ok := p.allocNameCache[a]; ok {
		return s
	}
	elem := a.Type().Underlying().(*types.Pointer).Elem()
	ts := p.TypeStr(elem)
	kind := "var"
	switch a.Comment {
	case "complit", "new", "slicelit", "varargs", "makeslice", "":
		kind = "new"
	}
	// disambiguate among same-kind same-type allocs in the root function
	root := rootFn(a.Parent())
	var same []*ssa.Alloc
	for _, f := range allFuncsUnder(root) {
		for _, b := range f.Blocks {
			for _, in := range b.Instrs {
				if o, ok := in.(*ssa.Alloc); ok {
					oe := o.Type().Underlying().(*types.Pointer).Elem()
					ok2 := "var"
					switch o.Comment {
					case "complit", "new", "slicelit", "varargs", "makeslice", "":
						ok2 = "new"
					}
					if ok2 == kind && types.Identical(oe, elem) {
						same = append(same, o)
					}
				}
			}
		}
	}
	s := kind + "(" + ts + ")"
	if len(same) > 1 {
		sort.SliceStable(same, func(i, j int) bool { return same[i].Pos() < same[j].Pos() })
		for i, o := range same {
			p.allocNameCache[o] = fmt.Sprintf("%s#%d", s, i+1)
		}
		return p.allocNameCache[a]
	}
	p.allocNameCache[a] = s
	return s
}

// CalleeNameOfFunc names a function for call matching: subject functions by
// stable name, others by full path ("os.Rename", "(*os.File).Sync").
func (p *Program) CalleeNameOfFunc(f *ssa.Function) string {
	if f.Pkg == p.SSA || (f.Parent() != nil && rootFn(f).Pkg == p.SSA) {
		return p.Name(f)
	}
	if f.Pkg == nil {
		// instantiated generic or synthetic wrapper: use Origin when present
		if o := f.Origin(); o != nil && o != f {
			return p.CalleeNameOfFunc(o)
		}
		return f.RelString(p.Pkg.Types)
	}
	return f.String()
}

// CalleeName names the target of a call: static callee, "iface:T.M" for an
// interface method call, "builtin:x", or "dyn:<descriptor>".
func (p *Program) CalleeName(cc *ssa.CallCommon) string {
	if cc.IsInvoke() {
		return "iface:" + p.ifaceOfMethod(cc.Method, cc.Value.Type()) + "." + cc.Method.Name()
	}
	switch f := cc.Value.(type) {
	case *ssa.Function:
		return p.CalleeNameOfFunc(f)
	case *ssa.Builtin:
		return "builtin:" + f.Name()
	case *ssa.MakeClosure:
		if fn, ok := f.Fn.(*ssa.Function); ok {
			return p.Name(fn)
		}
	}
	d := p.D(cc.Value)
	if strings.HasPrefix(d, "closure:") {
		// a function literal called through the variable that holds it
		return d[len("closure:"):]
	}
	return "dyn:" + d
}

func (p *Program) ifaceOfMethod(m *types.Func, recvType types.Type) string {
	// the named interface that declares m, found by walking the static
	// receiver type's embedded interfaces
	var find func(t types.Type, depth int) string
	find = func(t types.Type, depth int) string {
		if depth > 6 {
			return ""
		}
		n, _ := t.(*types.Named)
		it, ok := t.Underlying().(*types.Interface)
		if !ok {
			return ""
		}
		for i := 0; i < it.NumExplicitMethods(); i++ {
			if it.ExplicitMethod(i) == m {
				if n != nil {
					q := p.qual(n.Obj().Pkg())
					if q != "" {
						q += "."
					}
					return q + n.Obj().Name()
				}
				return "interface"
			}
		}
		for i := 0; i < it.NumEmbeddeds(); i++ {
			if s := find(it.EmbeddedType(i), depth+1); s != "" {
				return s
			}
		}
		return ""
	}
	if s := find(recvType, 0); s != "" {
		return s
	}
	return p.TypeStr(recvType)
}

// fnShort is the function's short name, or its baseline name when it was renamed.
func (p *Program) fnShort(f *ssa.Function) string {
	if n, ok := p.shortName[f]; ok {
		return n
	}
	return f.Name()
}

// thinMethodLiteral recognises func() { x.m() } – a literal without
// parameters whose body is one call of a method on a captured variable with no
// further arguments – and returns m.
func thinMethodLiteral(fn *ssa.Function) *ssa.Function {
	if fn == nil || fn.Parent() == nil || len(fn.Blocks) != 1 || len(fn.Params) != 0 || fn.Signature.Results().Len() != 0 {
		return nil
	}
	var g *ssa.Function
	n := 0
	for _, in := range fn.Blocks[0].Instrs {
		switch x := in.(type) {
		case *ssa.Call:
			n++
			g = x.Common().StaticCallee()
			if g == nil || g.Signature.Recv() == nil || len(x.Common().Args) != 1 {
				return nil
			}
			a := x.Common().Args[0]
			if u, ok := a.(*ssa.UnOp); ok {
				a = u.X
			}
			if _, ok := a.(*ssa.FreeVar); !ok {
				return nil
			}
		case *ssa.Store, *ssa.Send, *ssa.Go, *ssa.Defer, *ssa.MapUpdate, *ssa.Select, *ssa.Panic:
			return nil
		}
	}
	if n != 1 {
		return nil
	}
	return g
}

// blockForwardedStore returns the value stored into cell a by the nearest
// preceding store in the load's own block, provided no call, send, or other
// store through a pointer lies between the two (nothing that could write the
// cell).
func blockForwardedStore(ld *ssa.UnOp, a *ssa.Alloc) ssa.Value {
	b := ld.Block()
	if b == nil {
		return nil
	}
	pos := -1
	for i, in := range b.Instrs {
		if in == ssa.Instruction(ld) {
			pos = i
			break
		}
	}
	for i := pos - 1; i >= 0; i-- {
		switch x := b.Instrs[i].(type) {
		case *ssa.Store:
			if x.Addr == ssa.Value(a) {
				return x.Val
			}
			if _, isAlloc := x.Addr.(*ssa.Alloc); !isAlloc {
				if _, isFA := x.Addr.(*ssa.FieldAddr); !isFA {
					return nil
				}
			}
		case ssa.CallInstruction:
			return nil
		case *ssa.Send, *ssa.Select, *ssa.MapUpdate:
			return nil
		}
	}
	return nil
}
