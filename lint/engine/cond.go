package engine

import (
	"go/token"
	"go/types"
	"regexp"

	"golang.org/x/tools/go/ssa"
)

// Cond is a normalised branch condition.
//
// Rel:  X Op Y with Op in {<,<=,==,!=,>=,>}
// Bool: B (a boolean call result, comma-ok, field, parameter ...)
// Neg records an odd number of surrounding logical negations.
type Cond struct {
	IsRel  bool
	Op     token.Token
	X, Y   string
	XV, YV ssa.Value
	B      string
	BV     ssa.Value
	Neg    bool
}

func (c Cond) String() string {
	s := c.B
	if c.IsRel {
		s = c.X + " " + c.Op.String() + " " + c.Y
	}
	if c.Neg {
		return "!(" + s + ")"
	}
	return s
}

// CondOf normalises a boolean SSA value.
func (p *Program) CondOf(v ssa.Value) Cond {
	neg := false
	for {
		if u, ok := v.(*ssa.UnOp); ok && u.Op == token.NOT {
			neg = !neg
			v = u.X
			continue
		}
		break
	}
	if b, ok := v.(*ssa.BinOp); ok {
		switch b.Op {
		case token.LSS, token.LEQ, token.EQL, token.NEQ, token.GEQ, token.GTR:
			c := Cond{IsRel: true, Op: b.Op, X: p.D(b.X), Y: p.D(b.Y), XV: b.X, YV: b.Y, Neg: neg}
			// canonical orientation: a constant-like operand goes to the
			// right ("nil != err" reads as "err != nil")
			if constLike(c.X) && !constLike(c.Y) {
				c = c.Flipped()
			}
			// an integer compared with 1 is a comparison with 0 in disguise:
			// "x < 1" is "x <= 0", "x >= 1" is "x > 0" (for len/unsigned these
			// then read as "x == 0" / "x != 0", see EdgeOrd)
			if c.Y == "1" && isInteger(c.XV) {
				switch c.Op {
				case token.LSS:
					c.Op, c.Y, c.YV = token.LEQ, "0", nil
				case token.GEQ:
					c.Op, c.Y, c.YV = token.GTR, "0", nil
				}
			}
			// a loop index is always read on the left ("len(xs) > i" = "i < len(xs)")
			if c.Y == "idx(range)" && c.X != "idx(range)" {
				c = c.Flipped()
			}
			return c
		}
	}
	return Cond{B: p.D(v), BV: v, Neg: neg}
}

// Ordering sets: which of X<Y, X==Y, X>Y a comparison edge admits.
type OrdSet uint8

const (
	LT OrdSet = 1 << iota
	EQ
	GT
	AnyOrd = LT | EQ | GT
)

func (o OrdSet) String() string {
	s := ""
	if o&LT != 0 {
		s += "<"
	}
	if o&EQ != 0 {
		s += "="
	}
	if o&GT != 0 {
		s += ">"
	}
	if s == "" {
		return "∅"
	}
	return "{" + s + "}"
}

// Flip mirrors an ordering set (X,Y) -> (Y,X).
func (o OrdSet) Flip() OrdSet {
	var r OrdSet
	if o&LT != 0 {
		r |= GT
	}
	if o&GT != 0 {
		r |= LT
	}
	if o&EQ != 0 {
		r |= EQ
	}
	return r
}

func opSet(op token.Token) OrdSet {
	switch op {
	case token.LSS:
		return LT
	case token.LEQ:
		return LT | EQ
	case token.EQL:
		return EQ
	case token.NEQ:
		return LT | GT
	case token.GEQ:
		return GT | EQ
	case token.GTR:
		return GT
	}
	return AnyOrd
}

// EdgeOrd gives the set of orderings of (X,Y) admitted on the true (or false)
// edge of the condition.
func (c Cond) EdgeOrd(trueEdge bool) OrdSet {
	s := opSet(c.Op)
	if c.Neg {
		s = AnyOrd &^ s
	}
	if !trueEdge {
		s = AnyOrd &^ s
	}
	// a non-negative quantity compared with 0 is never smaller: "x != 0"
	// and "x > 0" are the same test for unsigned x and for len()/cap()
	if c.Y == "0" && nonNegative(c.XV) {
		s &^= LT
	}
	return s
}

// NonNegative reports whether a value can never be below zero (unsigned
// types, len, cap).
func NonNegative(v ssa.Value) bool { return nonNegative(v) }

func nonNegative(v ssa.Value) bool {
	return nonNegativeSeen(v, map[ssa.Value]bool{})
}

func nonNegativeSeen(v ssa.Value, seen map[ssa.Value]bool) bool {
	if v == nil {
		return false
	}
	if seen[v] {
		return true // a cycle through an up-counting phi
	}
	seen[v] = true
	// a counter: starts at a non-negative constant and only has non-negative
	// constants added to it (`n := 0 … n++`)
	switch x := v.(type) {
	case *ssa.Phi:
		for _, e := range x.Edges {
			if !nonNegativeSeen(e, seen) {
				return false
			}
		}
		return len(x.Edges) > 0
	case *ssa.Const:
		if x.Value != nil && isInteger(x) {
			return x.Int64() >= 0
		}
	case *ssa.BinOp:
		if x.Op == token.ADD && isInteger(x) {
			return nonNegativeSeen(x.X, seen) && nonNegativeSeen(x.Y, seen)
		}
	}
	if b, ok := v.Type().Underlying().(*types.Basic); ok && b.Info()&types.IsUnsigned != 0 {
		return true
	}
	if call, ok := v.(*ssa.Call); ok {
		if bi, ok := call.Common().Value.(*ssa.Builtin); ok && (bi.Name() == "len" || bi.Name() == "cap") {
			return true
		}
	}
	return false
}

// RelOn reports whether the condition compares a with b (in either order) and
// returns the ordering set of (a,b) on the true edge.
func (c Cond) RelOn(a, b string) (OrdSet, bool) {
	if !c.IsRel {
		return 0, false
	}
	if c.X == a && c.Y == b {
		return c.EdgeOrd(true), true
	}
	if c.X == b && c.Y == a {
		return c.EdgeOrd(true).Flip(), true
	}
	return 0, false
}

var paramLike = regexp.MustCompile(`^c*(recv|p[0-9]+)$`)
var identLike = regexp.MustCompile(`^[A-Za-z_][A-Za-z0-9_/]*$`)

// constLike reports whether a descriptor denotes a constant, nil, or a
// package-level value (never a parameter, field path, call or cell).
func constLike(d string) bool {
	if d == "" {
		return false
	}
	switch d[0] {
	case '"', '-', '@', '0', '1', '2', '3', '4', '5', '6', '7', '8', '9':
		return true
	}
	if d == "nil" || d == "true" || d == "false" || d == "zero" {
		return true
	}
	return identLike.MatchString(d) && !paramLike.MatchString(d)
}

func mirrorOp(op token.Token) token.Token {
	switch op {
	case token.LSS:
		return token.GTR
	case token.LEQ:
		return token.GEQ
	case token.GTR:
		return token.LSS
	case token.GEQ:
		return token.LEQ
	}
	return op
}

// Flipped returns the same condition with its operands exchanged.
func (c Cond) Flipped() Cond {
	if !c.IsRel {
		return c
	}
	c.X, c.Y = c.Y, c.X
	c.XV, c.YV = c.YV, c.XV
	c.Op = mirrorOp(c.Op)
	return c
}

// With orients a comparison so that the operand satisfying isX is on the
// left; ok=false when neither operand does.
func (c Cond) With(isX func(desc string) bool) (Cond, bool) {
	if !c.IsRel {
		return c, false
	}
	if isX(c.X) {
		return c, true
	}
	if isX(c.Y) {
		return c.Flipped(), true
	}
	return c, false
}

// WithY orients a comparison so that the operand satisfying isY is on the
// right.
func (c Cond) WithY(isY func(desc string) bool) (Cond, bool) {
	if !c.IsRel {
		return c, false
	}
	if isY(c.Y) {
		return c, true
	}
	if isY(c.X) {
		return c.Flipped(), true
	}
	return c, false
}

func isInteger(v ssa.Value) bool {
	if v == nil {
		return false
	}
	b, ok := v.Type().Underlying().(*types.Basic)
	return ok && b.Info()&types.IsInteger != 0
}
