package engine

import (
	"go/token"

	"golang.org/x/tools/go/ssa"
)

// Cond is a normalised branch condition.
//
// Rel:  X Op Y with Op in {<,<=,==,!=,>=,>}
// Bool: B (a boolean call result, comma-ok, field, parameter ...)
// Neg records an odd number of surrounding logical negations.
type Cond struct {
	IsRel  bool
	Op     token.Token
	X, Y   string
	XV, YV ssa.Value
	B      string
	BV     ssa.Value
	Neg    bool
}

func (c Cond) String() string {
	s := c.B
	if c.IsRel {
		s = c.X + " " + c.Op.String() + " " + c.Y
	}
	if c.Neg {
		return "!(" + s + ")"
	}
	return s
}

// CondOf normalises a boolean SSA value.
func (p *Program) CondOf(v ssa.Value) Cond {
	neg := false
	for {
		if u, ok := v.(*ssa.UnOp); ok && u.Op == token.NOT {
			neg = !neg
			v = u.X
			continue
		}
		break
	}
	if b, ok := v.(*ssa.BinOp); ok {
		switch b.Op {
		case token.LSS, token.LEQ, token.EQL, token.NEQ, token.GEQ, token.GTR:
			return Cond{IsRel: true, Op: b.Op, X: p.D(b.X), Y: p.D(b.Y), XV: b.X, YV: b.Y, Neg: neg}
		}
	}
	return Cond{B: p.D(v), BV: v, Neg: neg}
}

// Ordering sets: which of X<Y, X==Y, X>Y a comparison edge admits.
type OrdSet uint8

const (
	LT OrdSet = 1 << iota
	EQ
	GT
	AnyOrd = LT | EQ | GT
)

func (o OrdSet) String() string {
	s := ""
	if o&LT != 0 {
		s += "<"
	}
	if o&EQ != 0 {
		s += "="
	}
	if o&GT != 0 {
		s += ">"
	}
	if s == "" {
		return "∅"
	}
	return "{" + s + "}"
}

// Flip mirrors an ordering set (X,Y) -> (Y,X).
func (o OrdSet) Flip() OrdSet {
	var r OrdSet
	if o&LT != 0 {
		r |= GT
	}
	if o&GT != 0 {
		r |= LT
	}
	if o&EQ != 0 {
		r |= EQ
	}
	return r
}

func opSet(op token.Token) OrdSet {
	switch op {
	case token.LSS:
		return LT
	case token.LEQ:
		return LT | EQ
	case token.EQL:
		return EQ
	case token.NEQ:
		return LT | GT
	case token.GEQ:
		return GT | EQ
	case token.GTR:
		return GT
	}
	return AnyOrd
}

// EdgeOrd gives the set of orderings of (X,Y) admitted on the true (or false)
// edge of the condition.
func (c Cond) EdgeOrd(trueEdge bool) OrdSet {
	s := opSet(c.Op)
	if c.Neg {
		s = AnyOrd &^ s
	}
	if !trueEdge {
		s = AnyOrd &^ s
	}
	return s
}

// RelOn reports whether the condition compares a with b (in either order) and
// returns the ordering set of (a,b) on the true edge.
func (c Cond) RelOn(a, b string) (OrdSet, bool) {
	if !c.IsRel {
		return 0, false
	}
	if c.X == a && c.Y == b {
		return c.EdgeOrd(true), true
	}
	if c.X == b && c.Y == a {
		return c.EdgeOrd(true).Flip(), true
	}
	return 0, false
}
