#!/bin/sh
# Builds /verif/bin/raftlint offline from /verif/lint (module cache only).
set -e
cd "$(dirname "$0")"
. ./env.sh
mkdir -p bin evidence
(cd lint && go build -o ../bin/raftlint ./cmd/raftlint)
echo "setup: built bin/raftlint"
