#!/bin/sh
# Builds /verif/bin/raftlint offline from /verif/lint (module cache only).
set -e
cd "$(dirname "$0")"
. ./env.sh
mkdir -p bin evidence
if ! (cd lint && go build -o ../bin/raftlint ./cmd/raftlint) ; then
  echo "setup: build with x/tools v0.50.0 failed, retrying with v0.29.0" >&2
  (cd lint && sed -i 's/golang.org\/x\/tools v0.50.0/golang.org\/x\/tools v0.29.0/' go.mod && go mod tidy && go build -o ../bin/raftlint ./cmd/raftlint)
fi
echo "setup: built bin/raftlint"
